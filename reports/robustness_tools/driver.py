#!/usr/bin/env python3
"""usage: driver.py specs.json [ids...]   — each spec: {id, file, function, refactor, old, new, checks, tests}
(old/new may be lists of [old,new] pairs in 'edits'). Appends one JSON line per (spec, check) to results.jsonl."""
import json, os, shutil, subprocess, sys, py_compile, concurrent.futures as cf, time
SPECS = json.load(open(sys.argv[1]))
ONLY = set(sys.argv[2:])
OUT = '/tmp/textmisc/results.jsonl'
HAS_R = {p[:-5] for p in os.listdir('/verif/props') if p.endswith('_R.py')}

def sh(cmd, env=None, timeout=1500):
    try:
        r = subprocess.run(cmd, capture_output=True, text=True, env=env, timeout=timeout)
        return r.returncode, r.stdout + r.stderr
    except subprocess.TimeoutExpired as e:
        return -9, 'TIMEOUT'

def run(spec):
    sid = spec['id']
    d = f'/tmp/textmisc/src_{sid}'
    shutil.rmtree(d, ignore_errors=True)
    shutil.copytree('/repo/src', d, ignore=shutil.ignore_patterns('__pycache__'))
    p = os.path.join(d, spec['file'])
    s0 = open(p).read()
    s = s0
    edits = spec.get('edits') or [[spec['old'], spec['new']]]
    for old, new in edits:
        if s.count(old) < 1:
            return [dict(id=sid, error=f'pattern not found: {old[:60]!r}')]
        s = s.replace(old, new, 1)
    open(p, 'w').write(s)
    try:
        py_compile.compile(p, doraise=True, cfile='/tmp/textmisc/_c_' + sid)
    except Exception as e:
        return [dict(id=sid, error=f'compile: {e}')]
    open('/tmp/textmisc/orig_' + sid, 'w').write(s0)
    _, diff = sh(['diff', '-u', '--label', 'a/src/' + spec['file'], '--label', 'b/src/' + spec['file'], '/tmp/textmisc/orig_' + sid, p])
    open(f'/tmp/textmisc/diff_{sid}.diff', 'w').write(diff)
    env = dict(os.environ, PYTHONPATH=d, PYTHONDONTWRITEBYTECODE='1')
    tests = spec.get('tests') or []
    tsum = 'no tests'
    if tests:
        rc, out = sh(['/venv/bin/python', '-m', 'pytest', '-q', '-x', '-p', 'no:cacheprovider', *['/repo/tests/' + t for t in tests]], env=env)
        last = [l for l in out.splitlines() if ' passed' in l or ' failed' in l or 'error' in l.lower()]
        tsum = f'rc={rc} ' + (last[-1].strip()[:90] if last else out[-120:].replace('\n', ' '))
    res = []
    for c in spec['checks']:
        e3 = dict(os.environ, VERIF_REPO_SRC=d, VERIF_KEEP_EVIDENCE='1', VERIF_BUDGET_S='600')
        t = time.time()
        rc, out = sh(['/verif/check', c, '--tier', 'quick'], env=e3, timeout=1200)
        first = next((l.strip() for l in out.splitlines() if l.startswith(('UNDECIDED', 'VIOLATION', 'CHECKER'))), '')
        obl = next((l.strip() for l in out.splitlines() if l.strip().startswith('obligation:')), '')
        summ = next((l.strip() for l in out.splitlines() if l.startswith('[' + c + ']')), '')
        rsum = ''
        if c in HAS_R:
            if rc == 0:
                rsum = 'R part ran inside the check: 0 violations'
            else:
                e2 = dict(os.environ, PYTHONPATH=f'{d}:/verif', PYTHONDONTWRITEBYTECODE='1', VERIF_KEEP_EVIDENCE='1')
                rc2, out2 = sh(['/verif/.venv/bin/python', '-W', 'ignore', '/tmp/textmisc/r_only.py', c], env=e2, timeout=900)
                ls = [l for l in out2.splitlines() if l.startswith('R violations') or l.startswith('  first')]
                rsum = ' '.join(ls)[:300] if ls else f'R-only crashed rc={rc2}: ' + out2[-200:].replace('\n', ' ')
        tail = ''
        if rc == 3:
            tail = ' | '.join(out.strip().splitlines()[-6:])[-500:]
        res.append(dict(id=sid, file=spec['file'], function=spec['function'], refactor=spec['refactor'], check=c, exit=rc,
                        first=(first + (' ' + obl if obl else ''))[:400], tests=tsum, r_only=rsum, summary=summ[:200], tail=tail,
                        wall=round(time.time() - t)))
    shutil.rmtree(d, ignore_errors=True)
    return res

todo = [s for s in SPECS if not ONLY or s['id'] in ONLY]
with cf.ThreadPoolExecutor(int(os.environ.get('JOBS', '5'))) as ex:
    for res in ex.map(run, todo):
        with open(OUT, 'a') as f:
            for r in res:
                f.write(json.dumps(r) + '\n')
                print(json.dumps({k: r.get(k) for k in ('id', 'check', 'exit', 'first', 'tests', 'r_only', 'error', 'wall')})[:400], flush=True)
