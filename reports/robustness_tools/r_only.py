"""run the bounded part props.Cxx_R.run_R alone (no evidence, no replay files); prints 'R violations=<n>' and the first one"""
import sys, importlib
sys.path.insert(0, '/verif')
from vlib.runner import Check
class CK(Check):
    def violation(self, oid, message, case=None, replay=None, wclass='', **k):
        if self._match_known(oid, wclass) is not None:
            return False
        self.viol.append(dict(obligation=oid, path=None, w=wclass, m=message[:200]))
        return True
pid = sys.argv[1]
ck = CK(pid, 'quick', 0)
importlib.import_module(f'props.{pid}_R').run_R(ck)
print(f'R violations={len(ck.viol)} evaluations={ck.evaluations}')
for v in ck.viol[:1]:
    print('  first:', v['obligation'], '|', v['w'], '|', v['m'])
