"""C06 — enumeration of operation contents / groups (JSON as accepted by pytezos and the node RPC)."""
from __future__ import annotations
import itertools
from specs import operation_schema as S

H20 = [bytes(20), bytes([255]) * 20, bytes(range(1, 21)), bytes([0]) * 19 + b'\x01', bytes([3]) + bytes(18) + b'\x00']
H32 = [bytes(32), bytes([255]) * 32, bytes(range(32))]


def addr(kind, i=2):
    return S.b58enc(kind, H20[i % len(H20)])


def pk(kind, i=0):
    ln = S.B58[kind][1]
    return S.b58enc(kind, bytes((j * 7 + i) % 256 for j in range(ln)))


BRANCHES = [S.b58enc('B', h) for h in H32[:2]]
SOURCES = [addr(k, i) for k in ('tz1', 'tz2', 'tz3', 'tz4') for i in (2,)] + [addr('tz1', 0), addr('tz4', 1), addr('tz2', 3), addr('tz3', 4)]
DESTS = [addr(k, i) for k in ('tz1', 'tz2', 'tz3', 'tz4', 'KT1') for i in (2, 4)] + [addr('KT1', 0), addr('KT1', 1)]
# LEB128 boundaries up to 2^70
# ... and far beyond ("up to 2^64 and beyond": the encoding is unbounded, so are Python ints): 128 / 256-bit boundaries
NUMS = [0, 1, 127, 128, 129, 16383, 16384, 2 ** 21 - 1, 2 ** 21, 2 ** 31 - 1, 2 ** 32, 2 ** 56, 2 ** 63 - 1, 2 ** 63, 2 ** 64 - 1,
        2 ** 64, 2 ** 70 - 1, 2 ** 70, 2 ** 128 - 1, 2 ** 128, 2 ** 256 + 1]
# Unit spellings.  Tezos elides `parameters` only for the default entrypoint with the bare node Prim(D_Unit, [], []): no args AND
# no annotations; an explicit EMPTY `args` / `annots` list in the JSON is the same node (specs/micheline_bin.normalize), an
# ANNOTATED Unit is another node and is forged explicitly (ff 00 dyn(04 0b len32 annots)).
UNIT_ANNOTATED = [{'prim': 'Unit', 'annots': ['%x']}, {'prim': 'Unit', 'args': [], 'annots': ['%x', ':t']}]
UNIT_EMPTY_LISTS = [{'prim': 'Unit', 'args': []}, {'prim': 'Unit', 'annots': []}, {'prim': 'Unit', 'args': [], 'annots': []}]
# CANDIDATE_DEFECT (disabled, reported to the lead; NOT part of the registered run): default entrypoint + Unit spelled with an
# empty list must forge as "no parameters" (00); pytezos' has_parameters compares with the literal {'prim': 'Unit'} and forges
# ff 00 00000002 030b (parameters present), which is not the canonical encoding.  Guards the obligations
# forge_operation::ensures.canonical_bytes / forge_operation_group::ensures.canonical_bytes (R) and
# forge_transaction[transaction+%default Unit with empty lists#i]::ensures.fields==schema(...) (P) on these inputs only;
# every other combination (empty lists x non-default entrypoints, annotated Unit x every entrypoint) IS in the registered run.
CANDIDATE_DEFECT_UNIT_SPELLINGS = True      # fixed in /repo 8cb6fca: kept as a switch for trees older than the fix
UNIT_SPELLINGS = UNIT_EMPTY_LISTS
RESERVED = list(S.ENTRYPOINT_TAGS)
NAMED = ['a', 'ab', 'mint', 'Default', 'DO', 'defaul', 'default1', 'default_', 'stake1', 'un_stake', 'set_delegate_', 'root0',
         'transfer', 'x' * 30, 'y' * 31, 'a.b_c%d@e', '0', '_'] + ['e' * n for n in range(1, 32)]
VALUES = [{'prim': 'Unit'}, {'int': '0'}, {'int': '-64'}, {'int': str(2 ** 70)}, {'string': ''}, {'string': 'tz1 hello "x"'},
          {'bytes': ''}, {'bytes': '00ff'}, [], [{'int': '1'}, {'int': '2'}],
          {'prim': 'Pair', 'args': [{'int': '1'}, {'string': 'a'}]},
          {'prim': 'Pair', 'args': [{'int': '1'}, {'int': '2'}, {'int': '3'}]},
          {'prim': 'Left', 'args': [{'prim': 'Some', 'args': [{'prim': 'Unit'}]}]},
          {'prim': 'Pair', 'args': [{'prim': 'Unit'}, {'prim': 'Unit'}], 'annots': ['%a']},
          [{'prim': 'Elt', 'args': [{'string': 'k'}, {'bytes': 'ab' * 40}]}]]
CODE = [{'prim': 'parameter', 'args': [{'prim': 'unit'}]}, {'prim': 'storage', 'args': [{'prim': 'unit'}]},
        {'prim': 'code', 'args': [[{'prim': 'CDR'}, {'prim': 'NIL', 'args': [{'prim': 'operation'}]}, {'prim': 'PAIR'}]]}]
CODE2 = [{'prim': 'parameter', 'args': [{'prim': 'or', 'args': [{'prim': 'int', 'annots': ['%inc']}, {'prim': 'unit', 'annots': ['%reset']}]}]},
         {'prim': 'storage', 'args': [{'prim': 'pair', 'args': [{'prim': 'int'}, {'prim': 'address'}, {'prim': 'string'}]}]},
         {'prim': 'code', 'args': [[{'prim': 'FAILWITH'}]]}]


def hdr(kind, source=None, fee=1420, counter=7, gas=10600, storage=300):
    return {'kind': kind, 'source': source or SOURCES[0], 'fee': str(fee), 'counter': str(counter), 'gas_limit': str(gas),
            'storage_limit': str(storage)}


def tx(dest=None, amount=1, params=None, **h):
    c = hdr('transaction', **h)
    c['amount'] = str(amount)
    c['destination'] = dest or DESTS[0]
    if params is not None:
        c['parameters'] = params
    return c


def single_contents():
    """yield (class label, content)"""
    # --- manager header: every source kind, every numeric field at every boundary
    for s in SOURCES:
        yield f'transaction source={s[:3]}', tx(source=s)
    for f in ('fee', 'counter', 'gas', 'storage'):
        for n in NUMS:
            yield f'transaction {f}={n.bit_length()}bits', tx(**{f: n})
    for n in NUMS:
        yield f'transaction amount={n.bit_length()}bits', tx(amount=n)
        yield f'transaction all-numeric={n.bit_length()}bits', tx(amount=n, fee=n, counter=n, gas=n, storage=n)
    for d in DESTS:
        yield f'transaction dest={d[:3]}', tx(dest=d)
    # --- parameters: reserved and named entrypoints x values
    for ep in RESERVED + NAMED:
        kind = 'reserved' if ep in RESERVED else f'named-len{len(ep)}'
        for i, v in enumerate(VALUES if (ep in RESERVED or len(ep) in (1, 4, 31)) else VALUES[:3]):
            yield f'transaction entrypoint={ep if ep in RESERVED else kind} value#{i}', tx(dest=DESTS[8], params={'entrypoint': ep, 'value': v})
    yield 'transaction parameters=None-key-absent', tx()
    # absent-by-value: the key is there, the value is falsy (pytezos reads `not content.get('parameters')`)
    for nm, falsy in (('None', None), ('{}', {})):
        c = tx(dest=DESTS[8])
        c['parameters'] = falsy
        yield f'transaction parameters={nm} (key present)', c
    for ep in ('default', 'root', 'stake', 'mint', 'Default', 'y' * 31):
        for i, v in enumerate(UNIT_ANNOTATED):
            yield f'transaction entrypoint={ep if ep in RESERVED else "named"} annotated-Unit#{i}', tx(dest=DESTS[8], params={'entrypoint': ep, 'value': v})
            yield f'transaction entrypoint={ep if ep in RESERVED else "named"} annotated-Unit#{i} to implicit', tx(dest=DESTS[0], params={'entrypoint': ep, 'value': v})
        for i, v in enumerate(UNIT_EMPTY_LISTS):
            if ep != 'default' or CANDIDATE_DEFECT_UNIT_SPELLINGS:
                yield f'transaction entrypoint={ep if ep in RESERVED else "named"} Unit-empty-lists#{i}', tx(dest=DESTS[8], params={'entrypoint': ep, 'value': v})
    # numeric fields given as Python ints instead of decimal strings (the forgers read them through int(...))
    for n in (0, 1, 128, 2 ** 64, 2 ** 128):
        c = tx(dest=DESTS[8])
        for f in ('fee', 'counter', 'gas_limit', 'storage_limit', 'amount'):
            c[f] = n
        yield f'transaction int-typed numerics={n.bit_length()}bits', c
    yield 'transaction parameters=default/Unit to implicit', tx(dest=DESTS[0], params={'entrypoint': 'default', 'value': {'prim': 'Unit'}})
    # --- reveal
    for k in ('edpk', 'sppk', 'p2pk', 'BLpk'):
        for i in (0, 1):
            c = hdr('reveal', source=SOURCES[i])
            c['public_key'] = pk(k, i)
            yield f'reveal {k}', c
            if k == 'BLpk':
                c2 = dict(c)
                c2['proof'] = S.b58enc('BLsig', bytes((j + i) % 256 for j in range(96)))
                yield 'reveal BLpk with proof', c2
    for n in NUMS[::3]:
        c = hdr('reveal', counter=n, fee=n)
        c['public_key'] = pk('edpk')
        yield f'reveal counter={n.bit_length()}bits', c
    # --- origination
    for deleg in [None] + SOURCES[:4]:
        for code, storage in ((CODE, {'prim': 'Unit'}), (CODE2, {'prim': 'Pair', 'args': [{'int': '0'}, {'string': DESTS[0]}, {'string': ''}]})):
            for bal in (0, 1, 2 ** 64):
                c = hdr('origination')
                c['balance'] = str(bal)
                if deleg:
                    c['delegate'] = deleg
                c['script'] = {'code': code, 'storage': storage}
                yield f'origination delegate={deleg[:3] if deleg else None} balance={bal.bit_length()}bits', c
    # delegate present but empty: '' / None mean "no delegate" (OperationGroup.delegation() writes '' by default)
    for falsy in ('', None):
        c = hdr('origination')
        c.update(balance=5, delegate=falsy, script={'code': CODE, 'storage': {'prim': 'Unit'}})
        yield f'origination delegate={falsy!r} (key present) int balance', c
        c = hdr('delegation', source=SOURCES[2])
        c['delegate'] = falsy
        yield f'delegation delegate={falsy!r} (key present)', c
    # --- delegation
    for deleg in [None] + SOURCES:
        c = hdr('delegation', source=SOURCES[1])
        if deleg:
            c['delegate'] = deleg
        yield f'delegation delegate={deleg[:3] if deleg else None}', c
    # --- register_global_constant
    for i, v in enumerate(VALUES + [CODE, {'prim': 'constant', 'args': [{'string': 'expruu5BTdW7ajqJ9XPTF3kgcV78pRiaBW3Gq31mgp3WSYjjUBYxre'}]}]):
        c = hdr('register_global_constant')
        c['value'] = v
        yield f'register_global_constant value#{i}', c
    # --- transfer_ticket
    for dest in (DESTS[8], DESTS[0], DESTS[6]):
        for ep in ('default', 'receive', 'e' * 31, 'stake'):
            for amt in (1, 127, 128, 2 ** 70):
                for contents, ty in (({'string': 'ticket'}, {'prim': 'string'}), ({'prim': 'Pair', 'args': [{'int': '1'}, {'bytes': '00'}]},
                                                                                 {'prim': 'pair', 'args': [{'prim': 'nat'}, {'prim': 'bytes'}]})):
                    c = hdr('transfer_ticket')
                    c.update(ticket_contents=contents, ticket_ty=ty, ticket_ticketer=DESTS[9], ticket_amount=str(amt), destination=dest, entrypoint=ep)
                    yield f'transfer_ticket dest={dest[:3]} entrypoint-len={len(ep)} amount={amt.bit_length()}bits', c
    for tk in (DESTS[0], DESTS[3], DESTS[10]):          # ticketer of every contract_id form (implicit tz1 / tz2, another KT1)
        c = hdr('transfer_ticket')
        c.update(ticket_contents={'int': '7'}, ticket_ty={'prim': 'nat'}, ticket_ticketer=tk, ticket_amount=2 ** 128, destination=DESTS[9], entrypoint='')
        yield f'transfer_ticket ticketer={tk[:3]} empty entrypoint int amount', c
    # --- smart rollups
    for msgs in ([], [''], ['00'], ['00', ''], ['ff' * 300], ['0a', 'DEADBEEF'.lower(), '00' * 5], [''] * 3):
        c = hdr('smart_rollup_add_messages', source=SOURCES[3])
        c['message'] = msgs
        yield f'smart_rollup_add_messages n={len(msgs)} bytes={sum(len(m) for m in msgs) // 2}', c
    for i in range(3):
        for proof in ('', '00', 'ab' * 200):
            c = hdr('smart_rollup_execute_outbox_message')
            c.update(rollup=S.b58enc('sr1', H20[i]), cemented_commitment=S.b58enc('src1', H32[i]), output_proof=proof)
            yield f'smart_rollup_execute_outbox_message proof-bytes={len(proof) // 2}', c
    # hex-string fields in UPPER case (bytes.fromhex reads both cases; the normal form is lower case)
    c = hdr('smart_rollup_add_messages', source=SOURCES[3])
    c['message'] = ['DEADBEEF', 'aB', '']
    yield 'smart_rollup_add_messages upper-case hex', c
    c = hdr('smart_rollup_execute_outbox_message')
    c.update(rollup=S.b58enc('sr1', H20[1]), cemented_commitment=S.b58enc('src1', H32[1]), output_proof='00FFAB')
    yield 'smart_rollup_execute_outbox_message upper-case hex', c
    yield 'activate_account upper-case secret', {'kind': 'activate_account', 'pkh': addr('tz1', 1), 'secret': bytes(range(236, 256)).hex().upper()}
    # --- failing_noop / activate_account
    for s in ('', 'msg1', 'Tezos Signed Message: héllo ✓', 'x' * 300, '\x00\x01'):
        yield f'failing_noop len={len(s.encode())}', {'kind': 'failing_noop', 'arbitrary': s}
    for i in range(4):
        yield 'activate_account', {'kind': 'activate_account', 'pkh': addr('tz1', i), 'secret': bytes((i * 31 + j) % 256 for j in range(20)).hex()}


def representatives():
    """One or two contents per kind for the groups of 2 and 3."""
    by_kind = {}
    for label, c in single_contents():
        by_kind.setdefault(c['kind'], []).append(c)
    reps = []
    for k, cs in by_kind.items():
        reps.append(cs[0])
        reps.append(cs[len(cs) // 2])
    reps.append(tx(dest=DESTS[8], params={'entrypoint': 'stake', 'value': {'prim': 'Unit'}}))
    reps.append(tx(dest=DESTS[8], params={'entrypoint': 'y' * 31, 'value': {'int': '5'}}))
    reps.append(tx(dest=DESTS[8], params={'entrypoint': 'default', 'value': UNIT_ANNOTATED[0]}))
    return reps


def groups(thorough):
    """yield (class label, group)"""
    for label, c in single_contents():
        for bi, b in enumerate(BRANCHES if thorough else BRANCHES[:1]):
            yield f'1 content: {label}', {'branch': b, 'contents': [c]}
    reps = representatives()
    if not thorough:
        reps = reps[:-3:2] + reps[-3:]
    for a, b in itertools.product(reps, repeat=2):
        yield f'2 contents: {a["kind"]},{b["kind"]}', {'branch': BRANCHES[1], 'contents': [a, b]}
    trip = reps if thorough else reps[::2]
    for a, b, c in itertools.product(trip, repeat=3):
        yield f'3 contents: {a["kind"]},{b["kind"]},{c["kind"]}', {'branch': BRANCHES[0], 'contents': [a, b, c]}
    # "1..n contents": batches beyond 3 - every kind once (both orders), 4/5-content windows, a large batch that repeats
    # the same content objects and mixes sizes
    full = representatives()
    yield f'{len(full)} contents: every kind', {'branch': BRANCHES[0], 'contents': list(full)}
    yield f'{len(full)} contents: every kind, reversed', {'branch': BRANCHES[1], 'contents': list(reversed(full))}
    for n in (4, 5, 8):
        for i in range(0, len(full), 3):
            w = [full[(i + j * 5) % len(full)] for j in range(n)]
            yield f'{n} contents: window', {'branch': BRANCHES[0], 'contents': w}
    yield '64 contents: repeated objects', {'branch': BRANCHES[1], 'contents': [full[(i * 7) % len(full)] for i in range(64)]}
