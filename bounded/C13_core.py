"""Evaluation of the C13 contracts on one parameter type: list_entrypoints against the Tezos rules,
from_parameters / to_parameters as mutual inverses."""
from __future__ import annotations
from bounded import typegen as G
from bounded.typegen import Ty
from bounded.C11_observe import same_value, ObserveError, short
from bounded.C11_core import Failure, exc_text, MODES
from bounded.C12_core import node_at, full_value, spec_full_from_pair, value_wclass  # noqa: F401
from specs.C11_micheline_reader import read_value, SpecReject
from specs import entrypoints as EP

_PCACHE = {}


def param_class_or_none(pty: Ty):
    """the parameter class, or None when the real ParameterSection.match refuses the type (reported once by list_failures as
    list_entrypoints::safety.no_exception; the value / call clauses are then skipped instead of crashing the checker)"""
    try:
        return param_class(pty)
    except Exception:   # noqa
        return None


def param_class(pty: Ty):
    c = _PCACHE.get(pty)
    if c is None:
        from pytezos.michelson.sections.parameter import ParameterSection
        if len(_PCACHE) > 5000:
            _PCACHE.clear()
        c = _PCACHE[pty] = ParameterSection.match({'prim': 'parameter', 'args': [pty.expr()]})
    return c


def _flt(fs, only):
    return [f for f in fs if f.clause == only] if only else fs


def list_failures(pty: Ty):
    """list_entrypoints() == specs.entrypoints.entrypoints(type): same names; each type is the node's type
    (own annotations of the node and comb notation ignored)."""
    spec = EP.entrypoints(pty.expr())
    try:
        P = param_class(pty)
        got = P.list_entrypoints()
        got = {k: t.as_micheline_expr() for k, t in got.items()}
    except Exception as e:
        return [Failure('list_entrypoints::safety.no_exception', f'raised {exc_text(e)}', e)]
    out = []
    if set(got) != set(spec):
        out.append(Failure('list_entrypoints::ensures.names', f'listed {sorted(got)}; Tezos rules give {sorted(spec)} '
                                                              f'(missing {sorted(set(spec) - set(got))}, extra {sorted(set(got) - set(spec))})'))
    for name in sorted(set(got) & set(spec)):
        if not EP.same_type(EP.strip_own_annots(got[name]), spec[name][1]):
            out.append(Failure('list_entrypoints::ensures.types', f'entrypoint {name}: listed type {short(got[name], 200)}; the node at path '
                                                                  f'{spec[name][0]!r} has type {short(spec[name][1], 200)}'))
            break
    return out


def value_failures(pty: Ty, w, only=None):
    """full parameter value w:  to_parameters(mode) is a Tezos call (e, m) that denotes w;
    from_parameters(to_parameters(v)) denotes w."""
    P = param_class_or_none(pty)
    if P is None:
        return None
    try:
        v = P.from_micheline_value(G.neutral(pty, w))
        if not same_value(pty, v.item, w)[0]:
            return None
    except ObserveError:
        raise
    except Exception:
        return None                      # C11's business
    out = []
    for mode in MODES:
        if only and f'[{mode}]' not in only:
            continue
        try:
            r = v.to_parameters(mode=mode)
        except Exception as e:
            out.append(Failure(f'to_parameters[{mode}]::safety.no_exception', f'to_parameters of {short(G.neutral(pty, w), 160)} raised {exc_text(e)}', e))
            continue
        try:
            got = spec_full_from_pair(pty, r['entrypoint'], r['value'], mode)
            if G.canon_value(pty, got) != G.canon_value(pty, w):
                out.append(Failure(f'to_parameters[{mode}]::ensures.denotes', f'{short(r)} denotes {short(got)} instead of {short(w)}'))
        except SpecReject as e:
            out.append(Failure(f'to_parameters[{mode}]::ensures.denotes', f'{short(r)} is not a call of a Tezos entrypoint of this type: {e}'))
        except (KeyError, TypeError) as e:
            out.append(Failure(f'to_parameters[{mode}]::ensures.denotes', f'malformed result {short(r)}: {e!r}'))
        try:
            v2 = P.from_parameters(r)
            ok, obs = same_value(pty, v2.item, w)
            if not ok:
                out.append(Failure(f'from_to[{mode}]::ensures.equal', f'from_parameters({short(r)}) is {short(obs)} instead of {short(w)}'))
        except ObserveError:
            raise
        except Exception as e:
            out.append(Failure(f'from_to[{mode}]::safety.no_exception', f'from_parameters({short(r)}) raised {exc_text(e)}', e))
    return _flt(out, only)


def call_failures(pty: Ty, ename: str, path: str, a, only=None):
    """listed entrypoint e at `path`, argument a:
       from_parameters(e, a) denotes wrap(path, a);
       to_parameters of it is a call denoting the same full value;
       and it is exactly (e, a) when e is the deepest entrypoint on the value's path (canonical pair)."""
    P = param_class_or_none(pty)
    if P is None:
        return []
    ety = node_at(pty, path).anon()
    want = full_value(path, a)
    n = G.neutral(ety, a)
    try:
        v = P.from_parameters({'entrypoint': ename, 'value': n})
        ok, obs = same_value(pty, v.item, want)
        if not ok:
            return _flt([Failure('from_parameters::ensures.wrap', f'from_parameters({ename!r}, {short(n, 160)}) is {short(obs)} instead of {short(want)}')], only)
    except ObserveError:
        raise
    except Exception as e:
        return _flt([Failure('from_parameters::safety.no_exception', f'from_parameters({ename!r}, {short(n, 160)}) raised {exc_text(e)}', e)], only)
    out = []
    deepest = EP.deepest_entrypoint(pty.expr(), G.neutral(pty, want))
    for mode in MODES:
        if only and '[' in only and f'[{mode}]' not in only:
            continue
        try:
            r = v.to_parameters(mode=mode)
        except Exception as e:
            out.append(Failure(f'to_from[{mode}]::safety.no_exception', f'to_parameters(from_parameters({ename!r}, {short(n, 160)})) raised {exc_text(e)}', e))
            continue
        try:
            got = spec_full_from_pair(pty, r['entrypoint'], r['value'], mode)
            if G.canon_value(pty, got) != G.canon_value(pty, want):
                out.append(Failure(f'to_from[{mode}]::ensures.roundtrip', f'({ename!r}, {short(n, 120)}) came back as {short(r)} which denotes {short(got)} instead of {short(want)}'))
            elif deepest == (ename, path):
                same_arg = False
                if r['entrypoint'] == ename:
                    try:
                        same_arg = G.canon_value(ety, read_value(ety, r['value'], mode)) == G.canon_value(ety, a)
                    except SpecReject:
                        same_arg = False
                if not same_arg:
                    out.append(Failure(f'to_from[{mode}]::ensures.pair_identity', f'canonical pair ({ename!r}, {short(n, 120)}) came back as {short(r)}'))
        except SpecReject as e:
            out.append(Failure(f'to_from[{mode}]::ensures.roundtrip', f'{short(r)} is not a call of a Tezos entrypoint of this type: {e}'))
    return _flt(out, only)
