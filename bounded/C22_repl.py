"""C22 helper — bounded evaluation of the contract on the real `Interpreter.execute`.

Contract (from the property statement, not from the code):

    execute(code) on an interpreter whose debug flag is off
      ensures  (failure)  snap(self.stack) == old(snap(self.stack))
                          snap(self.context) == old(snap(self.context))
      ensures  (always)   OWN: every big_map reachable from self.stack has `.context is self.context`
      relational          for a session  w0 · f · w1  in which cell f fails, every observable of every
                          cell of w1 (error flag, stdout, stack, context, big_map ids, lazy diffs and
                          results produced by COMMIT / RUN) equals the observable of the same cell in
                          the session  w0 · w1  (the failing cell removed).

All snapshots are structural (type expression + value tree + big_map pointer/items/removed keys);
object identity is only used for the ownership invariant, which the statement phrases by identity.
The oracle of the relational clause is the real interpreter itself on the session without the
failing cell (a two-run, metamorphic contract): no model of Michelson is needed or trusted.
"""
from __future__ import annotations

import json

# ----------------------------------------------------------------------------- cell alphabet
# A cell is a list of instructions (joined by ';').  The alphabet is the one the property names:
# type declarations (parameter / storage / code), PUSH, EMPTY_BIG_MAP, big_map UPDATE (insert and
# remove) / GET / MEM, BEGIN / COMMIT / RUN, DROP, plus PAIR and DUMP as glue / stdout observers.
CELLS = {
    'DECL1': ['parameter unit', 'storage (big_map string nat)',
              'code { CDR; PUSH nat 5; SOME; PUSH string "k"; UPDATE; NIL operation; PAIR }'],
    'DECL2': ['parameter unit', 'storage (pair (big_map string nat) (big_map string nat))',
              'code { CDR; NIL operation; PAIR }'],
    'EMPTY': ['EMPTY_BIG_MAP string nat'],
    'UPD_a': ['PUSH nat 1', 'SOME', 'PUSH string "a"', 'UPDATE'],
    'REM_a': ['NONE nat', 'PUSH string "a"', 'UPDATE'],
    'GET_a': ['DUP', 'PUSH string "a"', 'GET'],
    'MEM_a': ['DUP', 'PUSH string "a"', 'MEM'],
    'DROP': ['DROP'],
    'PAIR': ['PAIR'],
    'COMMIT': ['NIL operation', 'PAIR', 'COMMIT'],
    'BEGIN_lit': ['BEGIN Unit { Elt "z" 3 }', 'CDR'],
    'BEGIN_ptr': ['BEGIN Unit 0', 'CDR'],
    'RUN': ['RUN %default Unit { Elt "q" 1 }'],
    'PUSH': ['PUSH nat 7'],
    'DUMP': ['DUMP'],
    # a big_map whose values are NOT duplicable (tickets): snapshots must still be taken and restored (a guard against DUP must not leak
    # into the interpreter's own backup copies)
    # a failure INSIDE a DIP body (between protect and restore of the stack's protected prefix): the restored stack must not stay protected
    'DIP_FAIL': ['PUSH nat 1', 'DIP { UNIT ; FAILWITH }'],
    'EMPTY_TK': ['EMPTY_BIG_MAP nat (ticket string)', 'PUSH nat 5', 'PUSH string "t"', 'TICKET', 'ASSERT_SOME', 'SOME', 'PUSH nat 1', 'UPDATE'],
}
CELL_NAMES = list(CELLS)

# failing instruction kinds appended after a prefix of a cell
FAIL_KINDS = {
    'failwith': ['UNIT', 'FAILWITH'],          # explicit failure
    'illtyped': ['UNIT', 'NEG'],               # instruction applied to a value of the wrong type
    'underflow': ['DROP 99'],                  # stack underflow
}
PARSE_FAIL = ['FOO']                            # unknown primitive: the parser rejects the cell, nothing executes
CANON_FAIL = ('F', 'DROP', 0, 'failwith')       # canonical second failing cell (double failures)


def cell_code(sym) -> str:
    """sym: name of an alphabet cell | ('F', name, position, kind) injected failure | ('P', name)"""
    if isinstance(sym, str):
        return '; '.join(CELLS[sym])
    sym = tuple(sym)
    if sym[0] == 'F':
        _, name, pos, kind = sym
        return '; '.join(CELLS[name][:pos] + FAIL_KINDS[kind])
    if sym[0] == 'P':
        return '; '.join(CELLS[sym[1]] + PARSE_FAIL)
    raise ValueError(sym)


def is_fail_sym(sym) -> bool:
    return not isinstance(sym, str)


# ----------------------------------------------------------------------------- structural snapshots
def _canon(o):
    return json.dumps(o, sort_keys=True, default=repr)


def snap_value(v, bms: list):
    """Structural snapshot of a Michelson value tree; appends every reachable big_map to bms."""
    from pytezos.michelson.types.base import MichelsonType
    from pytezos.michelson.types.big_map import BigMapType
    if isinstance(v, BigMapType):
        bms.append(v)
        return {'big_map': v.ptr,
                'type': type(v).as_micheline_expr(),
                'items': [[snap_value(k, bms), snap_value(x, bms)] for k, x in v.items],
                'removed': sorted(_canon(snap_value(k, bms)) for k in v.removed_keys)}
    if isinstance(v, MichelsonType):
        return {'type': type(v).as_micheline_expr(),
                'fields': {k: snap_value(x, bms) for k, x in sorted(vars(v).items()) if k != 'context'}}
    if isinstance(v, (list, tuple)):
        return [snap_value(x, bms) for x in v]
    if isinstance(v, dict):
        return {str(k): snap_value(x, bms) for k, x in sorted(v.items(), key=lambda kv: str(kv[0]))}
    if isinstance(v, (str, int, bool, bytes)) or v is None:
        return v if not isinstance(v, bytes) else v.hex()
    if isinstance(v, type):
        f = getattr(v, 'as_micheline_expr', None)
        try:
            return {'class': f()} if f else v.__name__
        except Exception:
            return v.__name__
    return repr(v)


def snap_stack(interp):
    bms: list = []
    st = interp.stack
    s = {'items': [snap_value(x, bms) for x in st.items], 'protected': st.protected}
    owned = all(b.context is interp.context for b in bms)
    return s, owned, len(bms)


def snap_context(interp):
    bms: list = []
    return {k: snap_value(v, bms) for k, v in sorted(vars(interp.context).items())}


def _canon_lazy_diff(ld):
    out = []
    for d in ld or []:
        d = json.loads(json.dumps(d, default=repr))
        if isinstance(d.get('diff'), dict) and isinstance(d['diff'].get('updates'), list):
            d['diff']['updates'] = sorted(d['diff']['updates'], key=_canon)
        out.append(d)
    return out


def snap_diffs(instr, out=None, depth=0):
    """Lazy diffs and results carried by executed COMMIT / RUN / BIG_MAP_DIFF instructions."""
    if out is None:
        out = []
    if instr is None or depth > 20:
        return out
    if hasattr(instr, 'lazy_diff'):
        bms: list = []
        res = getattr(instr, 'result', None)
        out.append({'instr': getattr(type(instr), 'prim', type(instr).__name__),
                    'lazy_diff': _canon_lazy_diff(instr.lazy_diff),
                    'result': snap_value(res, bms) if res is not None else None,
                    'result_repr': repr(res) if res is not None else None})
    for a in getattr(instr, 'items', None) or []:
        snap_diffs(a, out, depth + 1)
    return out


# ----------------------------------------------------------------------------- external cost stubs
_PATCHED = False


def install_parser_memo():
    """`michelson_to_micheline(text)` rebuilds the PLY tables on every call (~3 ms) and
    `Interpreter.__init__` builds one more parser that `execute` never uses.  Both are outside the
    contract (pure text -> Micheline); they are memoised here by monkeypatch of the names imported
    into pytezos.michelson.repl: the first occurrence of each text goes to the real parser (result or
    exception recorded), later ones get a deep copy of the recorded result."""
    global _PATCHED
    if _PATCHED:
        return
    import copy
    import pytezos.michelson.repl as repl
    real_parse = repl.michelson_to_micheline
    real_parser_cls = repl.MichelsonParser
    memo = {}
    parsers = {}

    def parse(text, parser=None):
        if parser is not None:
            return real_parse(text, parser)
        if text not in memo:
            try:
                memo[text] = (True, real_parse(text))
            except Exception as e:          # the same exception class/args are re-raised each time
                memo[text] = (False, e)
        ok, val = memo[text]
        if ok:
            return copy.deepcopy(val)
        raise type(val)(*val.args)

    def parser_factory(*a, **kw):
        key = repr((a, sorted(kw.items())))
        if key not in parsers:
            parsers[key] = real_parser_cls(*a, **kw)
        return parsers[key]

    repl.michelson_to_micheline = parse
    repl.MichelsonParser = parser_factory
    _PATCHED = True


# ----------------------------------------------------------------------------- running a session
def _reachable_big_maps(interp):
    bms: list = []
    for x in interp.stack.items:
        snap_value(x, bms)
    return bms


def run_session(syms, snap_from=0, repair_ownership=False):
    """Run the cells on a fresh real Interpreter.  Returns one observation per cell (None for the
    cells before snap_from-1, whose observations are not needed):
       err, stdout, stack, ctx, diffs, owned, n_bm, restored_stack, restored_ctx, raised.
    repair_ownership: (diagnosis only, never used to decide a violation) after every cell the
    harness re-points foreign big_maps of the stack to the interpreter's context."""
    from pytezos.michelson.repl import Interpreter
    install_parser_memo()
    it = Interpreter()
    obs = []
    prev_stack = prev_ctx = None
    if snap_from <= 0:
        prev_stack, prev_ctx = _canon(snap_stack(it)[0]), _canon(snap_context(it))
    for idx, sym in enumerate(syms):
        code = cell_code(sym)
        raised = None
        res = None
        try:
            res = it.execute(code)
        except Exception as e:      # not a harness crash: the real function raised under its precondition
            raised = f'{type(e).__name__}: {e}'
        if repair_ownership:
            for b in _reachable_big_maps(it):
                if b.context is not it.context:
                    b.context = it.context
        if idx < snap_from - 1:
            obs.append(None)
            continue
        stack, owned, n_bm = snap_stack(it)
        cs, cc = _canon(stack), _canon(snap_context(it))
        err = raised is not None or res.error is not None
        o = dict(sym=sym, code=code, err=err, raised=raised,
                 stdout=list(res.stdout) if res is not None else [],
                 stack=cs, ctx=cc, owned=owned, n_bm=n_bm,
                 diffs=_canon(snap_diffs(res.instructions)) if (res is not None and not err) else '[]',
                 restored_stack=(cs == prev_stack) if prev_stack is not None else None,
                 restored_ctx=(cc == prev_ctx) if prev_ctx is not None else None)
        obs.append(o)
        prev_stack, prev_ctx = cs, cc
    return obs


OBS_KEYS = ('err', 'stdout', 'diffs', 'stack', 'ctx')
OBS_NAMES = {'err': 'error_flag', 'stdout': 'stdout', 'stack': 'stack', 'ctx': 'context', 'diffs': 'lazy_diff'}


def first_difference(o_s, o_ref):
    """Which observable of a later cell differs between the session with the failing cell and the
    session without it (None if equal)."""
    for k in OBS_KEYS:
        if o_s[k] != o_ref[k]:
            return k
    return None


def describe_diff(key, o_s, o_ref):
    a, b = o_s[key], o_ref[key]
    if key in ('stack', 'ctx', 'diffs'):
        a, b = json.loads(a), json.loads(b)
        if key == 'ctx':
            ks = sorted(k for k in set(a) | set(b) if a.get(k) != b.get(k))
            return f'context fields {ks}: with the failing cell {[a.get(k) for k in ks]} / without {[b.get(k) for k in ks]}'
        if key == 'diffs':
            ia = [d.get('id') for x in a for d in x['lazy_diff']]
            ib = [d.get('id') for x in b for d in x['lazy_diff']]
            return (f'lazy-diff big_map ids with the failing cell {ia} / without {ib}; results '
                    f'{[x["result_repr"] for x in a]} / {[x["result_repr"] for x in b]}')
        if key == 'stack':
            pa = [x.get('big_map', '-') if isinstance(x, dict) else '-' for x in a['items']]
            pb = [x.get('big_map', '-') if isinstance(x, dict) else '-' for x in b['items']]
            return f'stack (top-level big_map ids {pa} / {pb}): with the failing cell {str(a)[:200]} / without {str(b)[:200]}'
    return f'with the failing cell {str(a)[:300]} / without {str(b)[:300]}'


def check_session(syms, fail_idx, ref_obs=None, diagnose=True):
    """Evaluate the contract of `Interpreter.execute` on the session `syms` whose cells at the
    indices fail_idx are the failing ones.  Returns a list of failures
        dict(clause, at, detail, wclass)
    (empty list = contract holds).  ref_obs: observations of the session without the failing cells
    (computed here when not supplied)."""
    syms = [s if isinstance(s, str) else tuple(s) for s in syms]
    fail_idx = sorted(fail_idx)
    first = fail_idx[0]
    obs = run_session(syms, snap_from=first)
    ref_syms = [s for i, s in enumerate(syms) if i not in fail_idx]
    if ref_obs is None:
        ref_obs = run_session(ref_syms)
    if any(o is not None and o['err'] for o in ref_obs):
        raise RuntimeError(f'reference session is not failure-free: {ref_syms}')
    out = []
    for i in fail_idx:
        o = obs[i]
        if not o['err']:
            if i == first:
                raise RuntimeError(f'cell {i} of {syms} was expected to fail and did not')
            # the cell fails in the session without the earlier failing cell(s) and succeeds after them
            out.append(dict(clause='relational.later_error_flag', at=i,
                            wclass='a cell that fails without the earlier failing cell succeeds after it',
                            detail=f'cell {i} `{o["code"]}` fails in the session without the failing cell(s) '
                                   f'{[cell_code(syms[x]) for x in fail_idx if x < i]} and succeeds after them'))
            return out
        if o['restored_stack'] is False:
            out.append(dict(clause='ensures.failure.stack_restored', at=i, wclass='stack differs from old(stack) after the failing cell',
                            detail=f'cell {i} `{o["code"]}` failed ({o["stdout"][-1:]}) and the stack is not the one before the cell'))
        if o['restored_ctx'] is False:
            out.append(dict(clause='ensures.failure.context_restored', at=i, wclass='context differs from old(context) after the failing cell',
                            detail=f'cell {i} `{o["code"]}` failed and the context is not the one before the cell'))
    foreign_after_failure = any(o is not None and not o['owned'] for o in obs[first:])
    for i in range(max(first - 1, 0), len(syms)):
        o = obs[i]
        if o is None or o['owned']:
            continue
        if i < first:
            wc = 'foreign-context big_map on the stack before any failing cell'
        else:
            wc = 'stack big_map references the discarded context after a failing cell'
        out.append(dict(clause='ensures.big_map_ownership', at=i, wclass=wc,
                        detail=f'after cell {i} `{o["code"]}` a big_map reachable from the stack has `.context is not interpreter.context`'))
        break
    # relational clause: cells after the first failing one
    def ref_index(i):
        return i - len([x for x in fail_idx if x < i])

    def first_rel_diff(observations):
        for i in range(first, len(syms)):
            if i in fail_idx:
                continue
            k = first_difference(observations[i], ref_obs[ref_index(i)])
            if k is not None:
                return i, ref_index(i), k
        return None

    rel = first_rel_diff(obs)
    if rel is not None:
        i, j, k = rel
        cause = 'unclassified'
        if diagnose:
            # diagnosis run: same session, harness re-attaches foreign big_maps after every cell
            obs2 = run_session(syms, snap_from=first, repair_ownership=True)
            still = first_rel_diff(obs2)
            cause = ('explained by the foreign-context big_map left on the stack by the failing cell'
                     if still is None and foreign_after_failure else
                     'independent of big_map ownership')
        out.append(dict(clause=f'relational.later_{OBS_NAMES[k]}', at=i, wclass=f'later {OBS_NAMES[k]} differs: {cause}',
                        detail=f'cell {i} `{obs[i]["code"]}` (after failing cell(s) {[cell_code(syms[x]) for x in fail_idx]}): '
                               + describe_diff(k, obs[i], ref_obs[j])))
    return out


# ----------------------------------------------------------------------------- enumeration
def extend_ok(w):
    """Alphabet cells that succeed after the failure-free word w (on the real interpreter)."""
    out = []
    for c in CELL_NAMES:
        o = run_session(tuple(w) + (c,), snap_from=len(w) + 1)
        if not o[-1]['err']:
            out.append(c)
        elif o[-1].get('raised') and o[-1]['raised'].startswith(('MichelsonRuntimeError', 'MichelsonParserError')):
            ESCAPED.append((tuple(w) + (c,), o[-1]['raised']))
    return tuple(w), out


ESCAPED = []      # (session, exception text): Michelson failures that ESCAPED Interpreter.execute (debug off) instead of being reported


def extend_ok_escaped(w):
    """extend_ok + the escaped failures seen while extending (worker-side list is returned, not shared)"""
    del ESCAPED[:]
    r = extend_ok(w)
    return r[0], r[1], list(ESCAPED)


def fail_variants(w0, succ, kinds):
    """Failing cells offered in the state reached by w0: every alphabet cell that fails there by
    itself (natural failure), every instruction position 0..len of every cell that succeeds there
    followed by each failing-instruction kind, and one cell rejected by the parser.
    De-duplicated by cell text."""
    seen, out = set(), []
    if succ is None:            # success set unknown: injected failures for every cell (an unreachable
        succ = CELL_NAMES       # position just fails earlier), no natural failures
    for c in CELL_NAMES:
        if c not in succ:
            out.append(c)
    for c in CELL_NAMES:
        if c in succ:
            for p in range(len(CELLS[c]) + 1):
                for k in kinds:
                    sym = ('F', c, p, k)
                    code = cell_code(sym)
                    if code not in seen:
                        seen.add(code)
                        out.append(sym)
    out.append(('P', 'PUSH'))
    return out


def work(task):
    """task = (w0, [w1...], succ cells at w0, mode dict).  Evaluates the contract on every session
    w0 · f · w1 (and the double failures f·g / g·f with the canonical failing cell g when they fit in
    the length bound).  Returns (n_sessions, class counter, failures)."""
    w0, conts, succ, mode = task
    w0 = tuple(w0)
    L = mode['L']
    variants = fail_variants(w0, succ, mode['kinds'])
    pick = mode.get('pick')           # None = all variants; n = n variants per (w0, w1), rotating
    n = 0
    classes = {}
    fails = []
    samples = []
    per_class = {}
    for ci, w1 in enumerate(conts):
        w1 = tuple(w1)
        ref = run_session(w0 + w1)
        if any(o['err'] for o in ref):
            raise RuntimeError(f'word {w0 + w1} was enumerated as failure-free and is not')
        if pick is None:
            vs = variants
        else:
            off = (mode.get('seed', 0) + mode.get('salt', 0) + ci * pick + 7 * len(w0) + sum(map(len, w1))) % len(variants)
            vs = [variants[(off + t * (len(variants) // pick or 1)) % len(variants)] for t in range(pick)]
        for f in vs:
            sessions = [(list(w0) + [f] + list(w1), [len(w0)])]
            if mode.get('doubles') and len(w0) + len(w1) + 2 <= L:
                sessions.append((list(w0) + [f, CANON_FAIL] + list(w1), [len(w0), len(w0) + 1]))
                sessions.append((list(w0) + [CANON_FAIL, f] + list(w1), [len(w0), len(w0) + 1]))
            for syms, fidx in sessions:
                if len(syms) > L:
                    continue
                r = check_session(syms, fidx, ref_obs=ref)
                n += 1
                fk = f if isinstance(f, str) else (f[0], f[1], f[2] if len(f) > 2 else '', f[3] if len(f) > 3 else '')
                key = repr((len(w0), 'natural' if isinstance(f, str) else f[0], fk, len(w1), len(fidx)))
                classes[key] = classes.get(key, 0) + 1
                if len(samples) < 2 and len(w1) >= 1 and not isinstance(f, str):
                    samples.append(dict(session=[cell_code(s) for s in syms], failing_cells=fidx))
                for x in r:
                    ck_ = (x['clause'], x['wclass'])
                    per_class[ck_] = per_class.get(ck_, 0) + 1
                    if per_class[ck_] <= 3:         # full witnesses for the first few of each class, counts for the rest
                        cut = [i for i in fidx if i <= x['at']]       # shortest witness: stop after the violating cell
                        fails.append(dict(x, session=syms[:x['at'] + 1], fail_idx=cut) if cut else dict(x, session=syms, fail_idx=fidx))
                    else:
                        fails.append(dict(clause=x['clause'], wclass=x['wclass'], at=x['at'], detail='', session=None, fail_idx=None))
    return n, classes, fails, samples
