"""Validation of the C11-C13 oracles (specs/entrypoints.py, specs/C11_micheline_reader.py, the base58
codec of bounded/typegen.py) against artefacts recorded from Octez that live in /repo/tests:
the RPC `entrypoints` answers, storages and operation parameters of the 22 mainnet contracts under
tests/contract_tests, and base58 literals of tests/unit_tests/test_crypto.  None of it is produced by
pytezos code.  Returns (n_checked, problems)."""
from __future__ import annotations
import glob, json, os
from bounded.typegen import Ty, selftest_b58
from specs import entrypoints as EP
from specs.C11_micheline_reader import read_value, SpecReject

REPO_TESTS = os.environ.get('VERIF_REPO_TESTS', '/repo/tests')


def _section(code, name):
    return next(s for s in code if s['prim'] == name)['args'][0]


def validate():
    n, problems = selftest_b58(), []
    for d in sorted(glob.glob(os.path.join(REPO_TESTS, 'contract_tests', '*', ''))):
        try:
            script = json.load(open(d + '__script__.json'))
            eps = json.load(open(d + '__entrypoints__.json'))['entrypoints']
        except FileNotFoundError:
            continue
        par, sto = _section(script['code'], 'parameter'), _section(script['code'], 'storage')
        mine = EP.rpc_entrypoints(par)
        if set(mine) != set(eps) or any(not EP.same_type(mine[k], eps[k]) for k in mine):
            problems.append(f'entrypoints of {d} differ from the recorded RPC answer')
        if not EP.well_formed(par):
            problems.append(f'{d}: mainnet parameter judged ill-formed')
        n += 2
        values = [(sto, script['storage'], 'storage')]
        for f in sorted(glob.glob(d + '*.json')):
            if os.path.basename(f).startswith('__'):
                continue
            op = json.load(open(f))
            p = op.get('parameters')
            if p:
                r = EP.resolve(par, p['entrypoint'])
                if r is None:
                    problems.append(f'{f}: recorded entrypoint {p["entrypoint"]} not resolved')
                else:
                    values.append((r[1], p['value'], f))
            if 'storage' in op:
                values.append((sto, op['storage'], f))
        for te, val, where in values:
            n += 1
            try:
                read_value(Ty.from_expr(te), val, None)
            except SpecReject as e:
                problems.append(f'{where}: recorded value rejected by the spec reader: {e}')
    return n, problems
