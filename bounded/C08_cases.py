"""C08 — elementary cases for key derivation / export-import / HASH_KEY / BIP-39, evaluated on the real
pytezos functions.  `eval_case(case)` -> list of {oid, ok, info, wclass}.
"""
import hashlib

from bounded import crypto_common as CC
from specs import bip39
from specs import crypto_b58 as B58
from specs import crypto_sig as SIG

O_PK = 'Key.from_secret_exponent::ensures.public_key_matches_independent_implementation'
O_PKH = 'Key.public_key_hash::ensures.base58_tzN_of_blake2b160'
O_HASHKEY = 'HASH_KEY::ensures.equals_public_key_hash'
O_PLAIN = 'Key.secret_key::ensures.plain_export_import_same_key'
O_ENC = 'Key.secret_key::ensures.encrypted_export_import_same_key'
O_ENC_SAFE = 'Key.secret_key::safety.no_exception'
O_RECORDED = 'Key.from_encoded_key::ensures.octez_recorded_vectors'
O_MN_VAL = 'validate_mnemonic::raises.iff_bip39_invalid'
O_MN_KEY = 'Key.from_mnemonic::raises.iff_bip39_invalid'
O_MN_DET = 'Key.from_mnemonic::ensures.deterministic'

ESK_KIND = {'ed': 'edesk', 'sp': 'spesk', 'p2': 'p2esk', 'BL': 'BLesk'}


def _res(oid, ok, info='', wclass=''):
    return dict(oid=oid, ok=bool(ok), info=info, wclass=wclass)


def _ident(key):
    return (bytes(key.public_point), bytes(key.secret_exponent) if key.secret_exponent else None, bytes(key.curve))


def hash_key_instr(pk_b58: str) -> str:
    from pytezos.michelson.instructions.crypto import HashKeyInstruction
    from pytezos.michelson.types import KeyType
    (res,) = CC.run_instr(HashKeyInstruction, KeyType.from_value(pk_b58))
    return f'{type(res).__name__}:{res.value}'


# ------------------------------------------------------------------------------------------ derive
def eval_derive(case):
    from pytezos.crypto.key import Key
    curve, secret = case['curve'], bytes.fromhex(case['secret'])
    tag = f'curve={curve}'
    want_pk = SIG.public_key(curve, secret)
    want_pk58 = B58.encode(curve + 'pk', want_pk)
    want_pkh = B58.pkh(curve, want_pk)
    want_sk58 = CC.encoded_sk(curve, secret)
    out = []
    try:
        k1 = Key.from_encoded_key(want_sk58)
        k2 = Key.from_secret_exponent(secret, curve.encode())
        kp = Key.from_encoded_key(want_pk58)
        got = [k1.public_key(), k2.public_key(), kp.public_key()]
        got_h = [k1.public_key_hash(), k2.public_key_hash(), kp.public_key_hash()]
    except Exception as e:  # noqa
        return [_res(O_PK, False, f'import of {want_sk58} / {want_pk58} raised {CC.exc_text(e)}', tag + ' raises')]
    out.append(_res(O_PK, all(g == want_pk58 for g in got) and bytes(k1.public_point) == want_pk,
                    f'public_key() {got} != independent {want_pk58}', tag))
    out.append(_res(O_PKH, all(g == want_pkh for g in got_h), f'public_key_hash() {got_h} != {want_pkh} = b58({B58.PKH_OF_CURVE[curve]}, blake2b160(pk))', tag))
    try:
        hk = hash_key_instr(want_pk58)
    except Exception as e:  # noqa
        hk = 'raised ' + CC.exc_text(e)
    out.append(_res(O_HASHKEY, hk == 'KeyHashType:' + want_pkh, f'HASH_KEY {want_pk58} -> {hk}, expected key_hash {want_pkh}', tag))
    # plain export / import
    try:
        exp = k1.secret_key()
        back = Key.from_encoded_key(exp)
        ok = exp == want_sk58 and _ident(back) == _ident(k1) == _ident(k2) and back.is_secret
        info = f'secret_key() = {exp} (canonical {want_sk58}); re-import identical: {_ident(back) == _ident(k1)}'
        if curve == 'ed':   # the 64-byte "edsk" form
            exp64 = k1.secret_key(ed25519_seed=False)
            kind, raw = B58.decode(exp64)
            back64 = Key.from_encoded_key(exp64)
            ok = ok and kind == 'edsk_full' and raw == secret + want_pk and _ident(back64) == _ident(k1)
            info += f'; 64-byte form {exp64[:12]}.. kind {kind}, re-import identical: {_ident(back64) == _ident(k1)}'
    except Exception as e:  # noqa
        ok, info = False, 'raised ' + CC.exc_text(e)
    out.append(_res(O_PLAIN, ok, info, tag))
    return out


# ----------------------------------------------------------------------------------------- encrypt
def _pass(p):
    return bytes.fromhex(p['v']) if p['t'] == 'bytes' else p['v']


def eval_encrypt(case):
    from pytezos.crypto.key import Key
    curve, secret, p = case['curve'], bytes.fromhex(case['secret']), case['pass']
    pw = _pass(p)
    tag = f'curve={curve} passphrase={p["t"]}:{p["name"]}'
    k = Key.from_encoded_key(CC.encoded_sk(curve, secret))
    try:
        enc = k.secret_key(pw)
        enc2 = k.secret_key(pw)
    except Exception as e:  # noqa
        return [_res(O_ENC_SAFE, False, f'secret_key(passphrase {p["name"]}) raised {CC.exc_text(e)}', tag + ' ' + type(e).__name__)]
    out = [_res(O_ENC_SAFE, True)]
    try:
        kind, raw = B58.decode(enc)
    except ValueError as e:
        return out + [_res(O_ENC, False, f'export {enc!r} is not a Tezos key encoding ({e})', tag + ' undecodable')]
    want_kind = ESK_KIND[curve] if len(pw) else CC.SK_KIND[curve]
    bad = []
    if kind != want_kind:
        bad.append(f'export kind {kind}, expected {want_kind}')
    alt_pw = pw.encode() if isinstance(pw, str) else None
    for label, e_, pw_ in (('same passphrase', enc, pw), ('second export', enc2, pw), ('utf-8 bytes of the passphrase', enc, alt_pw)):
        if pw_ is None:
            continue
        try:
            back = Key.from_encoded_key(e_, passphrase=pw_)
            if _ident(back) != _ident(k):
                bad.append(f'{label}: imported key differs (pk {back.public_key()} vs {k.public_key()})')
        except Exception as e:  # noqa
            bad.append(f'{label}: import raised {CC.exc_text(e)}')
    out.append(_res(O_ENC, not bad, f'export {enc[:14]}.. with passphrase {p["name"]}: {bad}', tag))
    return out


# ---------------------------------------------------------------------------------------- recorded
RECORDED_TRIPLES = [
    ('edsk3nM41ygNfSxVU4w1uAW3G9EnTQEB5rjojeZedLTGmiGRcierVv', 'edpku976gpuAD2bXyx1XGraeKuCo1gUZ3LAJcHM12W1ecxZwoiu22R', 'tz1eKkWU5hGtfLUiqNpucHrXymm83z3DG9Sq'),
    ('spsk1zkqrmst1yg2c4xi3crWcZPqgdc9KtPtb9SAZWYHAdiQzdHy7j', 'sppk7aMNM3xh14haqEyaxNjSt7hXanCDyoWtRcxF8wbtya859ak6yZT', 'tz28YZoayJjVz2bRgGeVjxE8NonMiJ3r2Wdu'),
    ('p2sk3PM77YMR99AvD3fSSxeLChMdiQ6kkEzqoPuSwQqhPsh29irGLC', 'p2pk679D18uQNkdjpRxuBXL5CqcDKTKzsiXVtc9oCUT6xb82zQmgUks', 'tz3agP9LGe2cXmKQyYn6T68BHKjjktDbbSWX'),
    ('p2sk2rHNfHbuqq1Q6RZAnXfwoA3fFk1xtUFPrNVj7mhwxmvY4xmrEd', 'p2pk663exKaDHnzFmUeBsmYjKUMJYPyW1WQJzmhyYgNrUuo5Ef9SXxG', 'tz3VqqyCrvZni4jbxVrzG2EeVQ97D9LARjJz'),
    ('p2sk2Md6rioE62a7hVdD8xdYGDLH2erDbAcD4i15e8DSpnHruhVHBw', 'p2pk66yEDuRC5RLHpVj8hvAS5fr8HnU2YsLvFNdwQoW3jH8WUynMwGG', 'tz3Q2KTKWw3xqiowvfX4N7gyyAfCz8hTvcnk'),
    ('BLsk1ijYmTDL6hfUvrFCqgwbetg6FTpHLbzPDKLAfP9tB9Cej8dME5', 'BLpk1q8T9TqRSNTacJU1WvTVtj62LZ8WZtGzZ3tQoQANzoXHwAPtxpJCY79TfoNu2m9N6RbFfh7s', 'tz4F76GBmuLgXvUjLb2gfeBeM6fBf6EsuD1T'),
    ('BLsk1X2dnEkx4KemkR5Q5j1agrstAfZxX1pXUVDLUCzg6bQfTXkv5u', 'BLpk1mN7zNwSvC7KLkhJwUuWm4riPqtpCXDqT662Ffob3Vo3LcmCTfnkzo5LGFKG24L9xG3d1SeW', 'tz4MQK3m8tqP7RrvZixbyGjY4BGRXp52XMVW'),
]
RECORDED_ENCRYPTED = [
    ('edesk1zxaPJkhNGSzgZDDSphvPzSNrnbmqes8xzUrw1wdFxdRT7ePiQz8D2Q18fMjn6fC9ZRS2rUbg8d8snxxznE', 'qqq', 'edpktmNJub2v7tVjSU8nA9jZrdV5JezmFtZA4yd3jj18i6VKcCJzdo'),
    ('spesk21cruoqtYmxfq5fpkXiZZRLRw4vh7VFJauGCAgHxZf3q6Q5LTv9m9dnMxyVjna6RzWQL45q4ppGLh97xZpV', 'qqq', 'sppk7Zbcqfy67b6pRMAKax5QKzAxTQUxmfQcCuvn1QMFQsXqy1NkSkz'),
    ('p2esk1rqdHRPz4xQh8uP8JaWSVnGFTKxkh2utdjK5CPDTXAzzh5sXnnobLkGrXEZzGhCKFDSjv8Ggrjt7PnobRzs', 'qqq', 'p2pk68Ky2h9UZZ4jUYws8mU8Cazhu4H1LdK22wD8HgDPRSvsJPBDtJ7'),
    ('BLesk1a3e2vNGbbPV5rFRHZZCHvZEvvtGP5Puer4yRfRVLR8E1xVyk5owiUeudZcaa31mGDmvbr9LH6ZPTUdi66z', 'qqq', 'BLpk1kuaZeC775wf3VtwYXEipCVK1jkPdu7xcroNCw1kKci7ncaTRQ1ehCCpdiye1BugTMjWx1Xx'),
    ('edesk1UrFQK6xJM6SYdLxMQbyKaaYQmzYVvQRpJXUmxj3apZ1ufRu4aHSTqWrJiqcHywSbnF146wkNcpUAW7Qy6H', '12345', None),
]


def validate_oracles():
    """The independent oracles must reproduce the octez-client artefacts; otherwise the harness is wrong (crash, exit 3)."""
    for sk, pk, pkh in RECORDED_TRIPLES:
        kind, secret = B58.decode(sk)
        curve = sk[:2]
        p = SIG.public_key(curve, secret)
        if B58.encode(curve + 'pk', p) != pk or B58.pkh(curve, p) != pkh or B58.encode(kind, secret) != sk:
            raise RuntimeError(f'oracle disagrees with the recorded octez vector {sk}')
    bip39.selfcheck()


def eval_recorded(case):
    from pytezos.crypto.key import Key
    out = []
    if case['which'] == 'triple':
        sk, pk, pkh = RECORDED_TRIPLES[case['i']]
        try:
            k = Key.from_encoded_key(sk)
            got = (k.secret_key(), k.public_key(), k.public_key_hash(), Key.from_encoded_key(pk).public_key_hash())
        except Exception as e:  # noqa
            got = ('raised ' + CC.exc_text(e),)
        out.append(_res(O_RECORDED, got == (sk, pk, pkh, pkh), f'{sk}: got {got}, recorded {(sk, pk, pkh)}', f'recorded {sk[:4]}'))
    else:
        esk, pw, pk = RECORDED_ENCRYPTED[case['i']]
        try:
            k = Key.from_encoded_key(esk, passphrase=pw)
            got = k.public_key()
            _, secret = B58.decode(k.secret_key())
            want = pk or B58.encode(esk[:2] + 'pk', SIG.public_key(esk[:2], secret))
        except Exception as e:  # noqa
            got, want = 'raised ' + CC.exc_text(e), pk
        out.append(_res(O_RECORDED, got == want, f'{esk[:14]}.. decrypted with {pw!r}: public key {got}, recorded {want}', f'recorded {esk[:5]}'))
    return out


# ---------------------------------------------------------------------------------------- mnemonic
def eval_mnemonic(case):
    from pytezos.crypto.key import Key, validate_mnemonic
    words, form = case['words'], case['form']
    arg = ' '.join(words)
    valid = bip39.is_valid(arg)
    tag = f'{case["variation"]} len={len(words)} valid={valid}'
    out = []
    try:
        validate_mnemonic(arg)
        acc, info = True, ''
    except Exception as e:  # noqa
        acc, info = False, CC.exc_text(e)
    out.append(_res(O_MN_VAL, acc == valid, f'validate_mnemonic({arg[:60]!r}..) {"accepts" if acc else "rejects (" + info + ")"}; BIP-39 says valid={valid}', tag))
    marg = list(words) if form == 'list' else arg
    try:
        k = Key.from_mnemonic(marg, validate=True)
        acc, info = (k is not None and k.is_secret), ''
    except Exception as e:  # noqa
        acc, info = False, CC.exc_text(e)
    out.append(_res(O_MN_KEY, acc == valid, f'from_mnemonic({form} form, validate=True) {"accepts" if acc else "rejects (" + info + ")"}; BIP-39 says valid={valid}', tag))
    return out


def eval_determinism(case):
    """Valid mnemonic, every curve: accepted (acceptance clause) and the same key on every call (determinism)."""
    from pytezos.crypto.key import Key
    words, pw, email, curve = case['words'], case['passphrase'], case['email'], case['curve']
    tag = f'curve={curve}'
    calls = [lambda: Key.from_mnemonic(' '.join(words), passphrase=pw, email=email, curve=curve.encode()),
             lambda: Key.from_mnemonic(list(words), passphrase=pw, email=email, curve=curve.encode()),
             lambda: Key.from_mnemonic(' '.join(words), passphrase=pw, email=email, curve=curve.encode(), validate=False)]
    outs = []
    for c in calls:
        try:
            k = c()
            outs.append(('key', _ident(k), k.public_key_hash()))
        except Exception as e:  # noqa
            outs.append(('raised', CC.exc_text(e), type(e).__name__))
    res = []
    rejected = [o for o in outs if o[0] == 'raised']
    res.append(_res(O_MN_KEY, not rejected,
                    f'from_mnemonic(curve={curve}) rejects a BIP-39 valid mnemonic ({" ".join(words)[:50]}.., passphrase {pw!r}, '
                    f'email {email!r}): {rejected[0][1] if rejected else ""}',
                    f'{tag} valid-mnemonic-rejected {rejected[0][2] if rejected else ""}'))
    res.append(_res(O_MN_DET, len(set(outs)) == 1,
                    f'three derivations from the same (mnemonic, email, passphrase) differ: {[o[2] for o in outs]}', tag))
    return res


def eval_case(case):
    return {'derive': eval_derive, 'encrypt': eval_encrypt, 'recorded': eval_recorded,
            'mnemonic': eval_mnemonic, 'determinism': eval_determinism}[case['k']](case)


def eval_chunk(chunk):
    return [(c, eval_case(c)) for c in chunk]


# ------------------------------------------------------------------------------------- enumeration
PASSPHRASES = [
    dict(t='str', name='empty', v=''),
    dict(t='bytes', name='empty-bytes', v=''),
    dict(t='str', name='ascii', v='qqq'),
    dict(t='str', name='ascii-spaces', v=' correct horse  battery staple '),
    dict(t='str', name='unicode', v='пароль-✓-密碼-ñ'),
    dict(t='bytes', name='bytes-nonutf8', v='00ff80fe'),
    dict(t='str', name='long-1000', v='x' * 1000),
    dict(t='str', name='nul-char', v='a\x00b'),
]


def _h(tag):
    return hashlib.sha256(tag.encode()).digest()


def mnemonic_cases(tier, seed):
    thorough = tier == 'thorough'
    wl = bip39.wordlist()
    cases = []
    for ent_len in (16, 20, 24, 28, 32):
        ents = [bytes(ent_len), b'\xff' * ent_len] + [(_h(f'ent-{seed}-{ent_len}-{i}') * 2)[:ent_len] for i in range(6 if thorough else 2)]
        for ei, ent in enumerate(ents):
            words = bip39.from_entropy(ent)
            n = len(words)
            for form in ('str', 'list'):
                cases.append(dict(k='mnemonic', variation='valid', words=words, form=form))
            # single-word substitutions
            nrep = 24 if thorough else 3
            for pos in range(n):
                base = wl.index(words[pos])
                reps = {(base + 1) % 2048, base ^ 1024, base ^ 1}
                j = 0
                while len(reps) < nrep:
                    reps.add(int.from_bytes(_h(f'rep-{seed}-{ent_len}-{ei}-{pos}-{j}')[:2], 'big') % 2048)
                    j += 1
                reps.discard(base)
                for r in sorted(reps):
                    w2 = words[:pos] + [wl[r]] + words[pos + 1:]
                    cases.append(dict(k='mnemonic', variation='substitute', words=w2, form='str'))
            # the whole checksum neighbourhood: every replacement of the last word
            if ei == 0 or (thorough and ei < 4) or (ei == 2 and ent_len in (16, 32)):
                for r in range(2048):
                    if wl[r] != words[-1]:
                        cases.append(dict(k='mnemonic', variation='substitute-last', words=words[:-1] + [wl[r]], form='str'))
            # unknown words
            for pos in (0, n // 2, n - 1):
                for bad in ('xyzzy', '', words[pos].capitalize(), words[pos] + 's1'):
                    cases.append(dict(k='mnemonic', variation='unknown-word', words=words[:pos] + [bad] + words[pos + 1:], form='str'))
            # bad lengths (all words known)
            for m in (0, 1, 9, n - 1, n + 1, n + 3, 27):
                w2 = (words * 3)[:m]
                if len(w2) not in bip39.VALID_LENGTHS:
                    cases.append(dict(k='mnemonic', variation='bad-length', words=w2, form='str' if m else 'list'))
            # valid lengths obtained by truncation / extension (checksum decides)
            for m in bip39.VALID_LENGTHS:
                if m != n:
                    cases.append(dict(k='mnemonic', variation='other-valid-length', words=(words * 3)[:m], form='str'))
            # adjacent transpositions
            for pos in range(n - 1):
                if words[pos] != words[pos + 1]:
                    w2 = list(words)
                    w2[pos], w2[pos + 1] = w2[pos + 1], w2[pos]
                    cases.append(dict(k='mnemonic', variation='transpose', words=w2, form='str'))
            # determinism
            if ei in (0, 2):
                for curve in CC.CURVES:
                    if curve == 'BL' and not (thorough or ent_len == 20):
                        continue
                    for pw, email in (('', ''), ('pass', 'user@example.com'), ('пароль', '')):
                        cases.append(dict(k='determinism', words=words, passphrase=pw, email=email, curve=curve))
    return cases


def enumerate_cases(tier, seed=0):
    thorough = tier == 'thorough'
    chunks = []
    rec = [dict(k='recorded', which='triple', i=i) for i in range(len(RECORDED_TRIPLES))]
    rec += [dict(k='recorded', which='enc', i=i) for i in range(len(RECORDED_ENCRYPTED))]
    chunks.append(rec)
    for curve in CC.CURVES:
        bl = curve == 'BL'
        nk = (24 if bl else 200) if thorough else (6 if bl else 24)
        secrets = CC.secrets_of(curve, nk, seed)
        der = [dict(k='derive', curve=curve, secret=s.hex()) for s in secrets]
        step = 3 if bl else 25
        chunks += [der[i:i + step] for i in range(0, len(der), step)]
        nke = (4 if bl else 8) if thorough else (2 if bl else 3)
        for s in secrets[:nke]:
            chunks.append([dict(k='encrypt', curve=curve, secret=s.hex(), **{'pass': p}) for p in PASSPHRASES])
    mc = mnemonic_cases(tier, seed)
    chunks += [mc[i:i + 1500] for i in range(0, len(mc), 1500)]
    return chunks
