"""Type-directed generator of well-typed Michelson programs, driven ONLY by the typing rules of the reference
(specs/michelson_ref.py: tc_instr / rule) — nothing here looks at pytezos.

A theme = (initial stack types, alphabet, body alphabet).  An alphabet entry is either a concrete instruction
(Micheline JSON) or a *site generator* g(S, G) -> iterable of concrete instructions for the current stack type S
(it reads S to choose type arguments / literals / bodies, which is what makes the generation type-directed).
Programs are all instruction sequences of length 1..L over the alphabet that the typing rules accept from the
initial stack, bodies of control instructions being all accepted sequences of length 0..B over the body alphabet
with the result type the enclosing rule demands.  Nothing after FAILWITH (tail position).

Inputs come from per-type boundary enumerators (`values`), environments from ENVS.
"""
from __future__ import annotations

import random

from specs import michelson_ref as R

FAILED = R.FAILED


def P(prim, *args):
    return {'prim': prim, 'args': list(args)} if args else {'prim': prim}


def I(n):       # noqa: E743
    return {'int': str(n)}


def T(s):
    """tiny type parser for the tables below: 'pair int (map string nat)' -> reference type"""
    toks = s.replace('(', ' ( ').replace(')', ' ) ').split()

    def one(i):
        if toks[i] == '(':
            t, i = app(i + 1)
            assert toks[i] == ')'
            return t, i + 1
        return (toks[i],), i + 1

    def app(i):
        head = toks[i]
        i += 1
        args = []
        while i < len(toks) and toks[i] != ')':
            a, i = one(i)
            args.append(a)
        if head == 'pair':
            return R.pair_t(*args), i
        return (head,) + tuple(args), i
    t, i = app(0)
    assert i == len(toks), s
    return t


TM = R.type_to_micheline

# ----------------------------------------------------------------------------- boundary values per type

ADDRS = ['tz1grSQDByRpnVs7sPtaprNZRp531ZKz6Jmm', 'KT1BEqzn5Wx8uJrZNvuS9DVHmLvG9td3fDLi',
         'tz1Ke2h7sDdakHJQh8WX4Z372du1KChsksyU']

LEAF = {
    'int': [0, 1, -1, 2, -2, 7, 2 ** 63, -(2 ** 63) - 1, 255, -256],
    'nat': [0, 1, 2, 3, 256, 2 ** 64, 5],
    'mutez': [0, 1, 2, 2 ** 63 - 1, 2 ** 62, 1000000],
    'timestamp': [0, 1, -1, 1600000000, 253402300799],
    'string': ['', 'a', 'ab', 'abc', 'b', 'Hello'],
    'bytes': [b'', b'\x00', b'\xff', b'\x00\xff', b'\x01\x02\x03', b'\x80'],
    'bool': [False, True],
    'unit': [()],
    'address': ADDRS,
    'chain_id': ['NetXdQprcVkpaWU', 'NetXSgo1ZT2DRUG'],
}


def lambda_bodies(a, b):
    """a few closed bodies of type a -> b (used as lambda *values*)"""
    out = []
    if a == b:
        out.append([])
    if a == R.T_INT and b == R.T_INT:
        out.append([P('PUSH', TM(a), I(1)), P('ADD')])
        out.append([P('DUP'), P('MUL')])
    if R.pushable(b) and b[0] != 'lambda':
        for v in values(b)[:2]:
            out.append([P('DROP'), P('PUSH', TM(b), R.data_to_micheline(b, v))])
    out.append([P('FAILWITH')] if R.packable(a) else [P('DROP'), P('UNIT'), P('FAILWITH')])
    return out


_VAL_CACHE = {}


def values(t):
    """boundary values of type t (deterministic, small)"""
    if t in _VAL_CACHE:
        return _VAL_CACHE[t]
    k = t[0]
    if k in LEAF:
        out = list(LEAF[k])
    elif k == 'pair':
        a, b = values(t[1]), values(t[2])
        idx = [(0, 0), (1, 1), (0, 1), (1, 0), (2, 2), (1, 2), (2, 0), (3, 3), (0, 3), (4, 1)]
        out = []
        for i, j in idx:
            v = (a[i % len(a)], b[j % len(b)])
            if v not in out:
                out.append(v)
    elif k == 'option':
        out = [None] + [('Some', v) for v in values(t[1])[:4]]
    elif k == 'or':
        a, b = values(t[1]), values(t[2])
        out = [('Left', a[0]), ('Right', b[0]), ('Left', a[1 % len(a)]), ('Right', b[1 % len(b)]), ('Left', a[2 % len(a)])]
        out = [v for i, v in enumerate(out) if v not in out[:i]]
    elif k == 'list':
        e = values(t[1])
        out = [(), (e[0],), (e[1 % len(e)], e[0]), tuple(e[:3]) + (e[0],)]
        out = [v for i, v in enumerate(out) if v not in out[:i]]
    elif k == 'set':
        e = values(t[1])
        out = [R.mk_set(t[1], c) for c in ([], e[:1], _uniq(e[:2]), _uniq(e[:4]))]
        out = [v for i, v in enumerate(out) if v not in out[:i]]
    elif k == 'map':
        ks, vs = values(t[1]), values(t[2])
        out = []
        for n in (0, 1, 2, 4):
            kk = _uniq(ks[:n])
            out.append(R.mk_map(t[1], [(x, vs[(i + n) % len(vs)]) for i, x in enumerate(kk)]))
        out = [v for i, v in enumerate(out) if v not in out[:i]]
    elif k == 'lambda':
        out = [('lam', R.freeze(b), False, ()) for b in lambda_bodies(t[1], t[2])]
    else:
        raise R.Unsupported(f'no value enumerator for {k}')
    _VAL_CACHE[t] = out
    return out


def _uniq(xs):
    out = []
    for x in xs:
        if x not in out:
            out.append(x)
    return out


def input_vectors(types, k, rng):
    """k input vectors for a stack of the given types: all-first, all-second, then seeded picks"""
    pools = [values(t) for t in types]
    out = []
    for j in range(k):
        if j < 2:
            v = tuple(p[j % len(p)] for p in pools)
        else:
            v = tuple(p[rng.randrange(len(p))] for p in pools)
        if v not in out:
            out.append(v)
    return out


ENVS = [
    {},
    dict(amount=1, balance=2 ** 62, now=1600000000, level=0, sender=ADDRS[1], source=ADDRS[2],
         self_address='KT1VG2WtYdSWz5E7chTeAdDPZNy2MpP8pTfL', chain_id='NetXSgo1ZT2DRUG'),
    dict(amount=2 ** 63 - 1, balance=0, now=-1, level=2 ** 31, sender=ADDRS[0], source=ADDRS[0]),
    dict(amount=0, balance=1, now=253402300799, level=1, sender=ADDRS[2], source=ADDRS[1]),
]

# ----------------------------------------------------------------------------- site generators

POOL = [T('int'), T('nat'), T('string'), T('bool'), T('unit'), T('pair int nat'), T('option int')]


def g_push_same(S, G):
    """PUSH of the type on top of the stack (enables COMPARE / ADD / CONS / MEM ... on it)"""
    if S and R.pushable(S[0]) and S[0][0] != 'lambda':
        for v in values(S[0])[:G.width]:
            yield P('PUSH', TM(S[0]), R.data_to_micheline(S[0], v))


def g_push(*specs):
    def g(S, G):
        for ts, idx in specs:
            t = T(ts)
            vs = values(t)
            for i in idx:
                yield P('PUSH', TM(t), R.data_to_micheline(t, vs[i % len(vs)]))
    return g


def g_typed(prim, which='top'):
    """NIL / NONE / EMPTY_SET / LEFT / RIGHT with a type argument read from the stack or the pool"""
    def g(S, G):
        cands = []
        if S:
            cands.append(S[0])
        if which == 'pool':
            cands += POOL[:G.width]
        for t in _uniq(cands):
            if prim == 'EMPTY_SET' and not R.comparable(t):
                continue
            yield P(prim, TM(t))
    return g


def g_empty_map(S, G):
    if len(S) >= 2 and R.comparable(S[0]):
        yield P('EMPTY_MAP', TM(S[0]), TM(S[1]))
    if S and R.comparable(S[0]):
        yield P('EMPTY_MAP', TM(S[0]), TM(R.T_INT))


def g_num(prim, lo, hi_extra=0):
    """PAIR n / UNPAIR n / GET n / UPDATE n / DUP n / DIG n / DUG n / DROP n for every applicable n"""
    def g(S, G):
        top = len(S) + hi_extra
        if prim in ('GET', 'UPDATE', 'UNPAIR'):
            # depth of the comb on top (second for UPDATE)
            i = 1 if prim == 'UPDATE' else 0
            if len(S) <= i:
                return
            t, d = S[i], 0
            while t[0] == 'pair':
                d, t = d + 1, t[2]
            top = 2 * d + 1 if prim != 'UNPAIR' else d + 1
            top = min(top, 7)
        for n in range(lo, min(top, 6) + 1):
            yield P(prim, I(n))
    return g


def _bodies_joinable(G, s1, s2, cap):
    """pairs of bodies for the two branches of IF*: same result stack, or one/both failing"""
    b1, b2 = G.bodies(s1), G.bodies(s2)
    by_out = {}
    for b, o in b2:
        by_out.setdefault(o, []).append(b)
    n = 0
    for i, (b, o) in enumerate(b1):
        partners = list(by_out.get(o, [])) if o != FAILED else []
        partners = partners[i % max(1, len(partners)):][:G.width] if partners else []
        fails = by_out.get(FAILED, [])[:1] if o != FAILED else [x for x, oo in b2 if oo != FAILED][:1] + by_out.get(FAILED, [])[:1]
        for p in partners + fails:
            yield b, p
            n += 1
            if n >= cap:
                return


def g_if(prim):
    def g(S, G):
        try:
            s1, s2 = R._branch_inputs(prim, S)
        except R.RefError:
            return
        for b1, b2 in _bodies_joinable(G, s1, s2, G.site_cap):
            yield P(prim, b1, b2)
    return g


def g_loop(S, G):
    if S and S[0] == R.T_BOOL:
        Rr = tuple(S[1:])
        for b, o in G.bodies(Rr):
            if o == (R.T_BOOL,) + Rr or o == FAILED:
                yield P('LOOP', b)


def g_loop_left(S, G):
    if S and S[0][0] == 'or':
        Rr = tuple(S[1:])
        for b, o in G.bodies((S[0][1],) + Rr):
            if o == tuple(S) or o == FAILED:
                yield P('LOOP_LEFT', b)


def g_iter(S, G):
    if S and S[0][0] in ('list', 'set', 'map'):
        Rr = tuple(S[1:])
        for b, o in G.bodies((R._iter_elt(S[0]),) + Rr):
            if o == Rr or o == FAILED:
                yield P('ITER', b)


def g_map(S, G):
    if S and S[0][0] in ('list', 'map', 'option'):
        Rr = tuple(S[1:])
        elt = S[0][1] if S[0][0] == 'option' else R._iter_elt(S[0])
        for b, o in G.bodies((elt,) + Rr):
            if o != FAILED and len(o) == len(Rr) + 1 and tuple(o[1:]) == Rr:
                yield P('MAP', b)


def g_dip(S, G):
    for n in range(0, min(len(S), 3) + 1):
        for b, o in G.bodies(tuple(S[n:])):
            if o != FAILED and b:
                yield P('DIP', b) if n == 1 and G.flip() else P('DIP', I(n), b)


def g_lambda(S, G):
    args = _uniq(([S[0]] if S else []) + [R.T_INT, T('pair int int')])
    for a in args[:G.width]:
        for b, o in G.bodies((a,)):
            if o == FAILED:
                yield P('LAMBDA', TM(a), TM(R.T_INT), b)
            elif len(o) == 1:
                yield P('LAMBDA', TM(a), TM(o[0]), b)


def g_lambda_exec(S, G):
    """{ LAMBDA a b body ; SWAP ; EXEC } applied to the value on top of the stack (and the LAMBDA_REC analogue)"""
    if not S:
        return
    for gen in (g_lambda, g_lambda_rec):
        for lam in gen(S, G):
            a = R.parse_type(lam['args'][0])
            if a == S[0]:
                yield [lam, P('SWAP'), P('EXEC')]
    if S[0] == R.T_INT:
        for lam in (REC_SUM, REC_CONST):
            yield [lam, P('SWAP'), P('EXEC')]


def g_lambda_rec(S, G):
    for a, r in ((R.T_INT, R.T_INT), (R.T_NAT, T('list nat'))):
        lam = ('lambda', a, r)
        for b, o in G.bodies((a, lam)):
            if o == (r,) or o == FAILED:
                yield P('LAMBDA_REC', TM(a), TM(r), b)


SUM_TO_ZERO = [P('DUP'), P('EQ'), P('IF', [P('DIP', [P('DROP')])],
                                    [P('DUP'), P('PUSH', P('int'), I(1)), P('SWAP'), P('SUB'), P('DIG', I(2)), P('SWAP'), P('EXEC'), P('ADD')])]
# rec f n = if n = 0 then 0 else n + f (n - 1)      body : int : lambda int int -> int   (argument on top)
REC_SUM = P('LAMBDA_REC', P('int'), P('int'), SUM_TO_ZERO)
REC_CONST = P('LAMBDA_REC', P('int'), P('int'), [P('DIP', [P('DROP')]), P('PUSH', P('int'), I(1)), P('ADD')])
REC_SELF = P('LAMBDA_REC', P('unit'), P('nat'), [P('DROP'), P('DROP'), P('PUSH', P('nat'), I(3))])
PUSH_REC = P('PUSH', P('lambda', P('int'), P('int')), P('Lambda_rec', [P('DIP', [P('DROP')]), P('PUSH', P('int'), I(1)), P('ADD')]))
DEC_LOOP = P('LOOP', [P('PUSH', P('int'), I(1)), P('SWAP'), P('SUB'), P('DUP'), P('GT')])      # int:S -> int:S counts down to <= 0
COUNT_LEFT = P('LOOP_LEFT', [P('DUP'), P('PUSH', P('nat'), I(3)), P('COMPARE'), P('LE'),
                             P('IF', [P('RIGHT', P('nat'))], [P('PUSH', P('nat'), I(1)), P('ADD'), P('LEFT', P('nat'))])])


def S_(*names):
    return [P(n) for n in names]


def N_(prim, *ns):
    return [P(prim, I(n)) for n in ns]


class Theme:
    def __init__(self, name, stacks, alphabet, body=None, envs=1):
        self.name, self.stacks, self.alphabet, self.body, self.envs = name, [tuple(T(t) for t in s) for s in stacks], alphabet, body or [], envs


STACK_OPS = S_('DROP', 'DUP', 'SWAP') + N_('DROP', 0, 1, 2, 3) + N_('DUP', 1, 2, 3, 4) + N_('DIG', 0, 1, 2, 3) + N_('DUG', 0, 1, 2, 3)

THEMES = [
    Theme('stack', [['int', 'nat', 'string', 'bool'], ['unit'], []],
          STACK_OPS + [g_dip, g_push(('int', [5]), ('string', [3]))],
          body=S_('DROP', 'DUP', 'SWAP') + N_('DIG', 2) + N_('DUG', 2) + [g_push(('int', [5])), g_dip]),
    Theme('control', [['bool', 'int', 'int'], ['option int', 'int'], ['or int string', 'int'], ['list int', 'int'],
                      ['set string', 'nat'], ['map string int', 'int'], ['int', 'int'], ['or nat nat'], ['option (pair int string)', 'string']],
          [g_if('IF'), g_if('IF_NONE'), g_if('IF_LEFT'), g_if('IF_CONS'), g_loop, g_loop_left, g_iter, g_map, g_dip,
           DEC_LOOP, COUNT_LEFT, P('FAILWITH')] + S_('DROP', 'SWAP', 'DUP', 'ADD', 'GT', 'EQ', 'SOME', 'CDR', 'CAR', 'SIZE', 'PAIR', 'UNPAIR')
          + [g_push(('int', [1]), ('bool', [0, 1]), ('string', [1]))],
          body=S_('DROP', 'SWAP', 'DUP', 'ADD', 'CAR', 'CDR', 'CONS', 'SOME', 'SIZE', 'CONCAT', 'PAIR', 'NEG') + [P('FAILWITH'), g_push(('int', [1, 2]), ('bool', [0]), ('string', [2])),
                                                                                 P('LEFT', P('string')), P('RIGHT', P('int')), P('RIGHT', P('nat')), P('LEFT', P('nat'))]),
    Theme('lambdas', [['int', 'int'], ['pair int int', 'int'], ['lambda int int', 'int'], ['lambda (pair int string) int', 'int', 'string'],
                      ['unit'], ['nat']],
          [g_lambda, g_lambda_rec, g_lambda_exec, REC_SUM, REC_CONST, REC_SELF, PUSH_REC, P('EXEC'), P('APPLY'), g_dip, g_push_same] + S_('SWAP', 'DUP', 'DROP', 'PAIR', 'ADD', 'UNIT')
          + N_('DUP', 2, 3) + N_('DIG', 2) + [g_push(('int', [3, 5]), ('string', [1]), ('lambda int int', [1, 3]))],
          body=S_('DROP', 'DUP', 'SWAP', 'ADD', 'MUL', 'CAR', 'CDR', 'UNPAIR', 'PAIR', 'EXEC', 'NEG', 'NIL_NAT', 'CONS') + N_('DUP', 2) + [P('FAILWITH'), g_push(('int', [1]), ('nat', [1])), P('DIP', [P('DROP')])]),
    Theme('structures', [['int', 'nat', 'string'], ['pair int nat string bool', 'bytes'], ['pair (pair int nat) (pair string (pair bool unit))', 'int'],
                         ['option int', 'int'], ['list string', 'string'], ['set int', 'int', 'bool'], ['map string int', 'string', 'option int'],
                         ['map (pair int int) string', 'pair int int', 'option string'], ['set (or int string)', 'or int string', 'bool'],
                         ['map (option nat) nat', 'option nat', 'option nat'], ['or int string']],
          S_('PAIR', 'UNPAIR', 'CAR', 'CDR', 'SOME', 'CONS', 'SIZE', 'MEM', 'GET', 'UPDATE', 'GET_AND_UPDATE', 'SWAP', 'DUP', 'PACK')
          + [g_num('PAIR', 2), g_num('UNPAIR', 2), g_num('GET', 0), g_num('UPDATE', 0), g_num('DUP', 2), g_num('DIG', 1),
             g_typed('NIL'), g_typed('NONE'), g_typed('EMPTY_SET'), g_empty_map, g_typed('LEFT', 'pool'), g_typed('RIGHT', 'pool'),
             g_push_same, g_map, g_iter, g_if('IF_NONE'), g_if('IF_LEFT'), g_if('IF_CONS')],
          body=S_('DROP', 'DUP', 'SWAP', 'CAR', 'CDR', 'SOME', 'PAIR', 'UNPAIR', 'SIZE', 'CONS') + [g_push(('int', [1]), ('nat', [2]))]),
    Theme('strings', [['string', 'string', 'nat', 'nat'], ['bytes', 'bytes', 'nat', 'nat'], ['nat', 'nat', 'string'], ['nat', 'nat', 'bytes'],
                      ['list string', 'string'], ['list bytes'], ['bytes']],
          S_('CONCAT', 'SLICE', 'SIZE', 'SWAP', 'DUP', 'CONS', 'BLAKE2B', 'SHA256', 'SHA512', 'SHA3', 'KECCAK', 'PACK', 'COMPARE', 'AND', 'OR', 'XOR', 'NOT')
          + N_('DIG', 2, 3) + N_('DUP', 2, 3) + [g_push(('nat', [0, 1, 2, 3]), ('string', [0, 3]), ('bytes', [0, 4])), g_typed('NIL'), g_if('IF_NONE')],
          body=S_('DROP', 'SIZE', 'CONCAT') + [g_push(('string', [1]), ('bytes', [1]), ('nat', [0]))]),
    Theme('arithmetic', [['int', 'int'], ['int', 'nat'], ['nat', 'int'], ['nat', 'nat'], ['mutez', 'mutez'], ['mutez', 'nat'], ['nat', 'mutez'],
                         ['timestamp', 'int'], ['int', 'timestamp'], ['timestamp', 'timestamp'], ['bool', 'bool'], ['string', 'string'],
                         ['bytes', 'bytes'], ['pair int nat', 'pair int nat'], ['option int', 'option int'], ['or nat bool', 'or nat bool'], ['unit', 'unit']],
          S_('ADD', 'SUB', 'MUL', 'EDIV', 'ABS', 'NEG', 'ISNAT', 'INT', 'COMPARE', 'EQ', 'NEQ', 'LT', 'GT', 'LE', 'GE', 'AND', 'OR', 'XOR', 'NOT',
             'LSL', 'LSR', 'SUB_MUTEZ', 'SWAP', 'DUP') + N_('DUP', 2) + [g_push_same, g_if('IF_NONE'), g_if('IF')],
          body=S_('DROP', 'UNPAIR', 'ADD', 'CAR', 'CDR') + [g_push(('int', [1]), ('nat', [1]))]),
    Theme('environment', [[], ['mutez'], ['timestamp'], ['address'], ['nat']],
          S_('AMOUNT', 'BALANCE', 'SENDER', 'SOURCE', 'NOW', 'LEVEL', 'CHAIN_ID', 'SELF_ADDRESS', 'UNIT', 'COMPARE', 'ADD', 'SUB', 'SUB_MUTEZ', 'PAIR',
             'SWAP', 'EQ', 'EDIV', 'SOME') + [g_push(('int', [1]), ('mutez', [1])), g_if('IF')],
          body=S_('AMOUNT', 'NOW', 'SENDER', 'LEVEL', 'DROP') + [g_push(('int', [1]))], envs=4),
]

# C02: type shapes — nested pairs / unions / options as keys and elements; collection transformers keep key/element types
SHAPES = ['map (pair int int) int', 'map (pair int (pair nat string)) (pair int int)', 'map (or int string) nat', 'map (option int) string',
          'map string (pair int nat)', 'map int (option (pair int int))', 'list (pair int string)', 'list (or int (pair nat nat))',
          'list (option (option int))', 'list (list int)', 'list (map string int)', 'set (pair int int)', 'set (option (pair int nat))',
          'set (or unit (or int string))', 'option (pair int (pair nat string))', 'option (map (pair int int) int)', 'option (or int string)',
          'or (pair int int) (list int)', 'pair (pair int nat) (pair string bool)', 'map (pair (pair int int) (or nat string)) (list int)',
          'list int', 'map string int', 'option int', 'set int']

C02_THEMES = [
    Theme('shapes', [[s, 'int'] for s in SHAPES],
          [g_map, g_iter, g_if('IF_NONE'), g_if('IF_LEFT'), g_if('IF_CONS'), g_typed('NIL'), g_typed('NONE'), g_typed('EMPTY_SET'), g_empty_map,
           g_typed('LEFT', 'pool'), g_typed('RIGHT', 'pool'), g_push_same, g_dip]
          + S_('SOME', 'CONS', 'PAIR', 'UNPAIR', 'CAR', 'CDR', 'DUP', 'SWAP', 'SIZE', 'MEM', 'GET', 'UPDATE', 'GET_AND_UPDATE', 'DROP') + N_('DUP', 2) + N_('DIG', 2),
          body=S_('DROP', 'DUP', 'SWAP', 'CAR', 'CDR', 'SOME', 'PAIR', 'UNPAIR', 'CONS', 'SIZE', 'UNIT', 'ADD', 'NEG', 'ISNAT', 'ABS')
          + [g_push(('int', [1]), ('string', [1]), ('bool', [1])), g_typed('NIL'), g_typed('NONE'), g_typed('LEFT', 'pool'), P('FAILWITH')]),
    Theme('shape-keys', [['map (pair int int) int', 'pair int int', 'option int'], ['set (or int string)', 'or int string', 'bool'],
                         ['map (option (pair int nat)) string', 'option (pair int nat)', 'option string'], ['set (pair int (pair nat string))', 'pair int (pair nat string)', 'bool'],
                         ['list (pair int int)', 'pair int int']],
          S_('MEM', 'GET', 'UPDATE', 'GET_AND_UPDATE', 'SWAP', 'DUP', 'CONS', 'SOME', 'SIZE', 'PAIR', 'UNPAIR') + N_('DUP', 2, 3) + N_('DIG', 2) + N_('DUG', 2)
          + [g_map, g_iter, g_push_same, g_typed('EMPTY_SET'), g_empty_map, g_typed('NIL'), g_if('IF_NONE'), g_if('IF_CONS')],
          body=S_('DROP', 'DUP', 'CAR', 'CDR', 'SOME', 'PAIR', 'UNPAIR', 'SWAP', 'CONS') + [g_push(('int', [1]))]),
]

# C02: UPDATE n replacing a component (odd n) or a right sub-comb (even n) by a value whose type has the SAME outer
# constructor as the replaced part but different arguments; the static type of the result must follow the new value
KIND_AB = [('option nat', 'option string'), ('list nat', 'list bool'), ('set nat', 'set string'), ('map string nat', 'map string bool'),
           ('or int nat', 'or string nat'), ('pair int nat', 'pair string bool'), ('lambda int int', 'lambda int string')]


def _comb(parts):
    return 'pair ' + ' '.join(p if ' ' not in p else f'({p})' for p in parts)


UPDATE_STACKS = []
for _a, _b in KIND_AB:
    for _n in (2, 3, 4):
        UPDATE_STACKS.append([_b, _comb([_a] * _n)])                       # same outer constructor as every component
        UPDATE_STACKS.append(['pair string bool', _comb([_a] * _n)])        # same outer constructor (pair) as every right sub-comb
    UPDATE_STACKS.append([_b, _comb([a for a, _ in KIND_AB][:4])])
    UPDATE_STACKS.append([_b, _comb([a for a, _ in KIND_AB][3:])])
UPDATE_STACKS.append(['pair (option string) (list bool)', 'pair int (option nat) (list nat)'])
UPDATE_STACKS.append(['pair string (pair bool unit)', 'pair (pair int nat) (pair int (pair nat bytes))'])

C02_THEMES += [
    Theme('update-comb', UPDATE_STACKS,
          [g_num('UPDATE', 0), g_num('GET', 0), g_num('UNPAIR', 2)] + S_('SWAP', 'DUP', 'PAIR', 'CAR', 'CDR', 'SOME') + N_('DUP', 2),
          body=S_('DROP', 'DUP')),
    Theme('map-update', [['string', 'option (option nat)', 'map string (option nat)'], ['string', 'option (list nat)', 'map string (list nat)'],
                         ['int', 'option (pair int nat)', 'map int (pair int nat)'], ['string', 'option (or int nat)', 'map string (or int nat)'],
                         ['nat', 'option (map string nat)', 'map nat (map string nat)'], ['string', 'option (set nat)', 'map string (set nat)'],
                         ['pair int int', 'option (lambda int int)', 'map (pair int int) (lambda int int)']],
          S_('UPDATE', 'GET_AND_UPDATE', 'GET', 'MEM', 'SWAP', 'DUP', 'PAIR', 'SOME', 'SIZE') + N_('DUP', 2, 3) + N_('DIG', 2) + N_('DUG', 2)
          + [g_if('IF_NONE'), g_iter, g_map],
          body=S_('DROP', 'DUP', 'CAR', 'CDR', 'SOME', 'SWAP')),
]

# C17: pair / option / or / collection manipulation on comb types (annotations are added by bounded/C17_annot.py)
C17_THEMES = [
    Theme('combs', [['pair int nat string', 'int'], ['int', 'pair int nat string bool'], ['pair (pair int nat) string', 'int'],
                    ['pair int (or nat string) (option (pair int int))'], ['list (pair int nat string)', 'pair int nat string'],
                    ['map (pair int nat) (pair string bool unit)', 'pair int nat'], ['or (pair int nat string) (pair int int)'],
                    ['option (pair int nat string bytes)'], ['pair int nat string', 'pair int nat string'], ['int', 'nat', 'string', 'bool'],
                    ['pair (pair int nat string bool) int'], ['or (pair int nat string bool) (list (pair int nat string bool))']],
          S_('CAR', 'CDR', 'UNPAIR', 'PAIR', 'PACK', 'DUP', 'SWAP', 'SOME', 'COMPARE', 'CONS', 'GET', 'MEM', 'SIZE')
          + [g_num('UNPAIR', 2), g_num('GET', 0), g_num('UPDATE', 0), g_num('PAIR', 2), g_push_same, g_if('IF_LEFT'), g_if('IF_NONE'), g_if('IF_CONS'),
             g_map, g_iter, g_typed('LEFT', 'pool'), g_typed('RIGHT', 'pool'), g_typed('NIL'), g_typed('NONE'), g_typed('EMPTY_SET'), g_empty_map, g_lambda_exec],
          body=S_('CAR', 'CDR', 'DROP', 'DUP', 'UNPAIR', 'PACK', 'SOME', 'PAIR', 'SWAP') + N_('GET', 1, 2, 3, 4) + N_('UNPAIR', 3) + N_('PAIR', 3)),
]

NIL_NAT = P('NIL', P('nat'))


def _fix(ins):
    """alphabet shorthand: the pseudo primitive NIL_NAT"""
    if isinstance(ins, dict) and ins.get('prim') == 'NIL_NAT':
        return NIL_NAT
    return ins


class Gen:
    """Enumerator for one theme.  groups(S) = for every alphabet entry the list of concrete instructions it offers on
    stack type S that the reference typing rules accept (with the resulting stack type)."""

    def __init__(self, theme, body_len, width, site_cap, nest, rng):
        self.t, self.body_len, self.width, self.site_cap, self.nest, self.rng = theme, body_len, width, site_cap, nest, rng
        self._bodies, self._groups = {}, {}
        self._depth = 0
        self._flip = 0

    def flip(self):
        self._flip ^= 1
        return self._flip

    def groups(self, which, S):
        key = (which, S, self._depth)
        if key not in self._groups:
            out = []
            for a in (self.t.alphabet if which == 'top' else self.t.body):
                items = list(a(S, self)) if callable(a) else [_fix(a)]
                ok = []
                for ins in items:
                    try:
                        ok.append((ins, R.tc_instr(R.freeze(ins), S)))
                    except R.RefError:
                        continue
                if ok:
                    out.append(ok)
            self._groups[key] = out
        return self._groups[key]

    def bodies(self, S):
        """all bodies of length 0..body_len over the body alphabet accepted from S, with their result stacks"""
        key = (S, self._depth)
        if key in self._bodies:
            return self._bodies[key]
        out = [([], tuple(S))]
        if self._depth < self.nest:
            self._depth += 1
            try:
                out += list(self._seqs('body', tuple(S), self.body_len))
            finally:
                self._depth -= 1
        self._bodies[key] = out
        return out

    def _seqs(self, which, S, max_len, prefix=()):
        for grp in self.groups(which, S):
            for ins, S2 in grp:
                prog = list(prefix) + [ins]
                yield prog, S2
                if len(prog) < max_len and S2 != FAILED:
                    yield from self._seqs(which, S2, max_len, prog)

    def exhaustive(self, S0, max_len):
        """every accepted program of length 1..max_len"""
        yield from self._seqs('top', tuple(S0), max_len)

    def walk(self, S0, length):
        """one seeded type-directed walk: at each step an alphabet entry is drawn uniformly among those applicable to the
        current stack type, then one of the instructions it offers"""
        S, prog = tuple(S0), []
        for _ in range(length):
            if S == FAILED:
                break
            grps = self.groups('top', S)
            if not grps:
                break
            grp = grps[self.rng.randrange(len(grps))]
            ins, S = grp[self.rng.randrange(len(grp))]
            prog.append(ins)
        return prog, S


def enumerate_programs(theme, exhaustive_len, walk_len, n_walks, body_len, width=2, site_cap=12, nest=1, seed=0):
    """-> (list of (S0, program, S_final), exhaustive_count): for every initial stack of the theme all programs of
    length <= exhaustive_len plus n_walks seeded walks of length exhaustive_len+1 .. walk_len (duplicates removed)"""
    out, seen, n_ex = [], set(), 0
    for si, S0 in enumerate(theme.stacks):
        g = Gen(theme, body_len, width, site_cap, nest, random.Random(f'{seed}/{theme.name}/{si}'))
        for prog, Sf in g.exhaustive(S0, exhaustive_len):
            out.append((S0, prog, Sf))
            seen.add((S0, R.freeze(prog)))
            n_ex += 1
        tries = 0
        want = len(out) + n_walks
        while len(out) < want and tries < 4 * n_walks and walk_len > exhaustive_len:
            tries += 1
            prog, Sf = g.walk(S0, g.rng.randrange(exhaustive_len + 1, walk_len + 1))
            key = (S0, R.freeze(prog))
            if len(prog) > exhaustive_len and key not in seen:
                seen.add(key)
                out.append((S0, prog, Sf))
    return out, n_ex
