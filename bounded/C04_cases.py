"""C04 — PACK / UNPACK on the real MichelsonType.pack / unpack and the PACK / UNPACK instructions against specs/pack.py.

Types: the packable members of bounded/typegen.type_families (leaves, every constructor over every leaf, all
structures of depth <= 2 over a small alphabet + a sample of depth 3, right combs of length 2..6 in n-ary / nested /
annotated notation, options, collections incl. composite keys, lambdas) with typegen's boundary values.
Cases (JSON-able):  {'k':'pack', 'ty': type expr, 'v': neutral Micheline value}
                    {'k':'mut',  'ty': ..., 'v': ..., 'm': mutation descriptor}
`eval_case(case)` -> list of {oid, ok, info, wclass}.
"""
import hashlib
import json

from specs import micheline_bin as MB
from specs import pack as P
from specs import zarith

O_PACK = 'MichelsonType.pack::ensures.05_then_optimized_binary_micheline'
O_COMB = 'MichelsonType.pack::ensures.comb_of_4_or_more_is_a_sequence'
O_LEGACY = 'MichelsonType.pack::ensures.legacy_mode_keeps_nested_pairs'
O_INSTR = 'PACK::ensures.same_bytes_as_pack'
O_RT = 'MichelsonType.unpack::ensures.unpack_of_pack_is_the_value'
O_RT_I = 'UNPACK::ensures.Some_value_on_packed_bytes'
O_SAFE = 'UNPACK::safety.no_exception'
O_ONLY = 'UNPACK::ensures.Some_only_if_valid_binary_micheline_of_the_type'
O_VAL = 'UNPACK::ensures.decoded_value'


def _res(oid, ok, info='', wclass=''):
    return dict(oid=oid, ok=bool(ok), info=info, wclass=wclass)


def strip(ty):
    out = {'prim': ty['prim']}
    if ty.get('args'):
        out['args'] = [strip(a) for a in ty['args']]
    return out


def has_annots(ty):
    return bool(ty.get('annots')) or any(has_annots(a) for a in ty.get('args', []))


def max_comb(ty):
    """largest right-comb length in the type"""
    m = 0
    if ty['prim'] == 'pair':
        n, t = 1, ty
        while t['prim'] == 'pair':
            a = t['args']
            n += len(a) - 1
            t = a[-1]
        m = n
    return max([m] + [max_comb(a) for a in ty.get('args', [])])


def tsig(ty, depth=0):
    if not ty.get('args'):
        return ty['prim']
    if depth >= 2:
        return ty['prim'] + '(..)'
    return ty['prim'] + '(' + ','.join(tsig(a, depth + 1) for a in ty['args']) + ')'


def real_type(ty):
    from pytezos.michelson.types.base import MichelsonType
    return MichelsonType.match(ty)


def run_instr(instr, item):
    """-> (error text | None, top item)"""
    from pytezos.context.impl import ExecutionContext
    from pytezos.michelson.micheline import MichelsonRuntimeError
    from pytezos.michelson.sections import CodeSection
    from pytezos.michelson.stack import MichelsonStack
    st = MichelsonStack()
    st.push(item)
    try:
        CodeSection.match([instr]).args[0].execute(st, [], ExecutionContext())
    except MichelsonRuntimeError as e:
        return f'{type(e).__name__}{e.args!s:.200}', None
    except Exception as e:  # noqa
        return f'{type(e).__name__}: {e!s:.200}', None
    if len(st.items) != 1:
        return f'stack depth {len(st.items)}', None
    return None, st.items[0]


def opt_of(item):
    return MB.normalize(item.to_micheline_value(mode='optimized'))


def eval_pack(case):
    from pytezos.michelson.types import BytesType
    ty, v = case['ty'], case['v']
    sty = strip(ty)
    tag = ('annotated comb ' if has_annots(ty) and max_comb(ty) >= 3 else '') + tsig(sty)
    big = max_comb(sty) >= 4
    want_norm = P.optimized(sty, v)
    want = b'\x05' + MB.enc(want_norm)
    want_nested = P.pack(sty, v, 'nested')
    out = []
    try:
        T = real_type(ty)
        val = T.from_micheline_value(v)
        got = val.pack()
    except Exception as e:  # noqa
        return [_res(O_PACK, False, f'pack of {json.dumps(v)[:120]} : {tsig(sty)} raised {type(e).__name__}: {e!s:.160}', tag + ' raises')]
    if got != want and big and got == want_nested:
        out.append(_res(O_COMB, False, f'pack of a comb of >= 4 elements gives nested pairs 0x{got.hex()[:60]}.., expected the sequence form 0x{want.hex()[:60]}..', tag))
    elif big:
        out.append(_res(O_COMB, got == want, f'pack({json.dumps(v)[:100]} : {tsig(sty)}) = 0x{got.hex()[:80]}.., expected 0x{want.hex()[:80]}..', tag + ' wrong-bytes'))
    else:
        out.append(_res(O_PACK, got == want, f'pack({json.dumps(v)[:100]} : {tsig(sty)}) = 0x{got.hex()[:80]}.., expected 0x{want.hex()[:80]}..', tag + ' wrong-bytes'))
    try:
        leg = val.pack(legacy=True)
        out.append(_res(O_LEGACY, leg == want_nested, f'pack(legacy=True) = 0x{leg.hex()[:80]}.., expected nested pairs 0x{want_nested.hex()[:80]}..', tag + ' legacy'))
    except Exception as e:  # noqa
        out.append(_res(O_LEGACY, False, f'pack(legacy=True) raised {type(e).__name__}: {e!s:.120}', tag + ' legacy raises'))
    err, top = run_instr({'prim': 'PACK'}, T.from_micheline_value(v))
    ok = err is None and isinstance(top, BytesType) and bytes(top) == got
    out.append(_res(O_INSTR, ok, f'PACK -> {err or "0x" + bytes(top).hex()[:60]}, pack() = 0x{got.hex()[:60]}', tag + ' instr'))
    # unpack(pack(v)) == v, classmethod and instruction, on the reference bytes
    for label, data in (('seq', want),) + ((('nested', want_nested),) if want_nested != want else ()):
        try:
            back = T.unpack(data)
            okb = opt_of(back) == want_norm
            info = f'unpack(0x{data.hex()[:60]}..) reads as {json.dumps(opt_of(back))[:120]}, expected {json.dumps(want_norm)[:120]}'
        except Exception as e:  # noqa
            okb, info = False, f'unpack(0x{data.hex()[:60]}..) at {tsig(sty)} raised {type(e).__name__}: {e!s:.140}'
        out.append(_res(O_RT, okb, info, tag + f' {label}-form'))
        err, top = run_instr({'prim': 'UNPACK', 'args': [ty]}, BytesType.from_value(data))
        if err is not None:
            out.append(_res(O_SAFE, False, f'UNPACK {tsig(sty)} on 0x{data.hex()[:60]}.. raised {err}', tag + ' valid-pack'))
        else:
            try:
                oki = (not top.is_none()) and opt_of(top.get_some()) == want_norm
                info = f'UNPACK {tsig(sty)} on its own pack 0x{data.hex()[:60]}.. -> {"None" if top.is_none() else json.dumps(opt_of(top.get_some()))[:100]}'
            except Exception as e:  # noqa
                oki, info = False, f'UNPACK result unreadable: {type(e).__name__}: {e!s:.100}'
            out.append(_res(O_RT_I, oki, info, tag + f' {label}-form'))
    return out


# -------------------------------------------------------------------------------------------------- mutations
def int_offsets(e, base=0):
    """offsets (in enc(e)) of the zarith payload of every int node: [(start, length)]"""
    out = []
    if isinstance(e, list):
        p = base + 5
        for x in e:
            out += int_offsets(x, p)
            p += len(MB.enc(x))
        return out
    if 'int' in e:
        return [(base + 1, len(zarith.enc_int(int(e['int']))))]
    if 'prim' in e:
        args = e.get('args') or []
        p = base + 2 + (4 if len(args) > 2 else 0)
        for x in args:
            out += int_offsets(x, p)
            p += len(MB.enc(x))
    return out


def mutations(data: bytes, norm, tier, seed_key):
    """-> list of (descriptor, bytes)"""
    thorough = tier == 'thorough'
    n = len(data)
    out = []
    cuts = list(range(n)) if n <= (96 if thorough else 40) else sorted({0, 1, 2, 5, 6, n - 1, n - 2} | {(n * j) // 24 for j in range(24)})
    for c in cuts:
        out.append((dict(op='truncate', to=c), data[:c]))
    for b in (0x00, 0xFF, 0x05, 0x03):
        out.append((dict(op='extend', byte=b), data + bytes([b])))
    pos = list(range(n)) if n <= (64 if thorough else 28) else sorted({0, 1, 2, 3, 4, 5, 6, n - 1, n - 2, n - 3} | {(n * j) // (40 if thorough else 16) for j in range(40 if thorough else 16)})
    for i in pos:
        for nv in sorted({data[i] ^ 0x01, data[i] ^ 0x80, 0x00, 0xFF, (data[i] + 1) & 0xFF} - {data[i]}):
            out.append((dict(op='byte', pos=i, value=nv), data[:i] + bytes([nv]) + data[i + 1:]))
    # non-minimal integers: the last zarith group gets its continuation bit and a zero group follows.  Length prefixes of the
    # enclosing sequences are left as they are (so the result is also length-inconsistent) or patched (pure non-minimal int)
    for k, (st, ln) in enumerate(int_offsets(norm, 1)[: (12 if thorough else 4)]):
        z = bytearray(data[st:st + ln])
        z[-1] |= 0x80
        bad = data[:st] + bytes(z) + b'\x00' + data[st + ln:]
        out.append((dict(op='nonminimal_int', index=k, patched=False), bad))
        out.append((dict(op='nonminimal_int', index=k, patched=True), patch_lengths(norm, k)))
    return out


def patch_lengths(norm, k):
    """encode norm with its k-th int node non-minimal, all enclosing length prefixes consistent"""
    counter = [0]

    def enc(e):
        if isinstance(e, list):
            body = b''.join(enc(x) for x in e)
            return b'\x02' + len(body).to_bytes(4, 'big') + body
        if 'int' in e:
            z = bytearray(zarith.enc_int(int(e['int'])))
            if counter[0] == k:
                z[-1] |= 0x80
                z += b'\x00'
            counter[0] += 1
            return b'\x00' + bytes(z)
        if 'prim' in e and e.get('args'):
            args = e['args']
            table = MB.prim_table()
            p = table[e['prim']]
            if len(args) <= 2:
                return bytes([3 + 2 * len(args)]) + p + b''.join(enc(x) for x in args)
            body = b''.join(enc(x) for x in args)
            return b'\x09' + p + len(body).to_bytes(4, 'big') + body + bytes(4)
        return MB.enc(e)
    return b'\x05' + enc(norm)


def apply_mutation(data, norm, m):
    if m['op'] == 'truncate':
        return data[:m['to']]
    if m['op'] == 'extend':
        return data + bytes([m['byte']])
    if m['op'] == 'byte':
        return data[:m['pos']] + bytes([m['value']]) + data[m['pos'] + 1:]
    if m['op'] == 'nonminimal_int':
        if m['patched']:
            return patch_lengths(norm, m['index'])
        st, ln = int_offsets(norm, 1)[m['index']]
        z = bytearray(data[st:st + ln])
        z[-1] |= 0x80
        return data[:st] + bytes(z) + b'\x00' + data[st + ln:]
    raise KeyError(m['op'])


def eval_mut(case):
    from pytezos.michelson.types import BytesType
    ty, v, m = case['ty'], case['v'], case['m']
    sty = strip(ty)
    norm = P.optimized(sty, v)
    d = apply_mutation(b'\x05' + MB.enc(norm), norm, m)
    verdict = P.strict_unpack(sty, d)
    tag = f'{m["op"]} {tsig(sty)}'
    err, top = run_instr({'prim': 'UNPACK', 'args': [ty]}, BytesType.from_value(d))
    if err is not None:
        return [_res(O_SAFE, False, f'UNPACK {tsig(sty)} on 0x{d.hex()[:80]} ({m}) raised {err}', tag + ' raises')]
    out = [_res(O_SAFE, True)]
    try:
        got = None if top.is_none() else opt_of(top.get_some())
    except Exception as e:  # noqa
        return out + [_res(O_VAL, False, f'UNPACK result unreadable: {type(e).__name__}: {e!s:.100}', tag + ' unreadable')]
    if verdict[0] == 'undecided':
        return out
    if got is not None:
        reason = verdict[1].split(':')[0] + ':' + verdict[1].split(':')[1].strip().split(' ')[0] if verdict[0] == 'none' and ':' in verdict[1] else (verdict[1] if verdict[0] == 'none' else '')
        out.append(_res(O_ONLY, verdict[0] == 'some',
                        f'UNPACK {tsig(sty)} on 0x{d.hex()[:80]} ({m}) returns Some {json.dumps(got)[:100]}; the strict decoder rejects it: {verdict[1] if verdict[0] == "none" else ""}',
                        f'{m["op"]} accepted {reason} [{leaf_kind(sty)}]'))
        if verdict[0] == 'some':
            out.append(_res(O_VAL, got == verdict[1], f'UNPACK {tsig(sty)} on 0x{d.hex()[:80]} -> {json.dumps(got)[:100]}, the reference decodes {json.dumps(verdict[1])[:100]}', tag + ' value'))
    return out


def leaf_kind(ty):
    ps = set()

    def go(t):
        if not t.get('args'):
            ps.add(t['prim'])
        for a in t.get('args', []):
            go(a)
    go(ty)
    return ','.join(sorted(ps))[:60]


def eval_case(case):
    return eval_pack(case) if case['k'] == 'pack' else eval_mut(case)


def eval_chunk(chunk):
    return [(c, eval_case(c)) for c in chunk]


# ------------------------------------------------------------------------------------------------ enumeration
def packable_types(tier, seed):
    from bounded import typegen as G
    fams = G.type_families(tier, seed)
    seen, out = set(), []
    for name, tys in fams.items():
        for t in tys:
            e = t.expr()
            if not P.packable(strip(e)):
                continue
            if any(x.prim in ('chest', 'chest_key') for x in t.walk()):
                continue
            if t.depth() > 3 and name not in ('combs',):
                continue
            k = json.dumps(e, sort_keys=True)
            if k not in seen:
                seen.add(k)
                out.append((name, t))
    return out


def enumerate_cases(tier, seed=0):
    from bounded import typegen as G
    thorough = tier == 'thorough'
    kvals = 6 if thorough else 3
    types = packable_types(tier, seed)
    pack_cases, bases = [], []
    skipped = 0
    for name, t in types:
        e = t.expr()
        try:
            vals = G.values(t, kvals, full_leaves=(name == 'leaf'))
        except Exception:  # noqa
            skipped += 1
            continue
        for i, v in enumerate(vals):
            nv = G.neutral(t, v)
            try:
                P.optimized(strip(e), nv)
            except (P.IllTyped, P.Undecided):
                skipped += 1          # generator value outside the oracle's certain domain (e.g. non-printable string)
                continue
            pack_cases.append(dict(k='pack', ty=e, v=nv, fam=name))
            if i == (len(pack_cases) % max(1, len(vals))) or name in ('leaf', 'combs'):
                bases.append((name, e, nv))
    # mutation bases: all leaves and combs, a seeded spread of the rest
    def h(x):
        return hashlib.sha256((str(seed) + json.dumps(x[1], sort_keys=True) + json.dumps(x[2], sort_keys=True)).encode()).digest()
    pri = [b for b in bases if b[0] == 'leaf']
    rest = sorted([b for b in bases if b[0] != 'leaf'], key=h)
    nb = 1200 if thorough else 150
    chosen = (pri[: nb // 2] if len(pri) > nb // 2 else pri)
    chosen += rest[: nb - len(chosen)]
    mut_cases = []
    for name, e, nv in chosen:
        norm = P.optimized(strip(e), nv)
        data = b'\x05' + MB.enc(norm)
        if len(data) > 400:
            continue
        for m, _ in mutations(data, norm, tier, seed):
            mut_cases.append(dict(k='mut', ty=e, v=nv, m=m))
    info = dict(types=len(types), pack_cases=len(pack_cases), mutation_bases=len(chosen), mutation_cases=len(mut_cases), generator_values_outside_oracle=skipped)
    cases = pack_cases + mut_cases
    return [cases[i:i + 400] for i in range(0, len(cases), 400)], info
