"""C25 helper — runs call sequences of the real pytezos client (OperationGroup.fill / autofill / sign /
inject / send, ExecutionContext.get_counter / set_counter / reset / get_counter_offset) against the
simulated node of specs/C25_node.py and evaluates the contracts with ghost node state.

Call alphabet (acts on the *current* group `g` of the one account):
    N1 N2 N3   build a new group of 1..3 transactions (unfilled); it becomes the current group
    NR         build a new group  reveal + transaction  (an account that was never revealed; every manager content takes a counter);
               only in the additional runs of props/C25.py (alphabet SYMS_REVEAL), not in the main enumeration
    F          g = g.fill()
    A          g = g.autofill()
    S          g = g.sign()
    I+ / I-    g.inject()            the node accepts / refuses (scenario decides, not the counters)
    X+ / X-    g.send()              autofill + sign + inject in one call, node accepts / refuses
    J+ / J-    g.inject(prevalidate=False)      the asynchronous injection RPC (no pre-validation), accepted / failing
    Y+ / Y-    g.send_async(ttl, counter=C+P+1, gas_limit, storage_limit)   fill + sign + inject(prevalidate=False) in one call with the
               counter a careful caller passes (node counter + pending + 1 at the time of the call), accepted / failing
               (J, Y: only in the additional runs over SYMS_ASYNC - mixed injection entry points on ONE shared context)
    B          new block: every pending operation is included, counters advance, mempool is emptied

requires (sequences are enumerated only when every call satisfies them):
    F, A, X±   a current group exists and has not been injected successfully
    S          … and it has been filled (fill or autofill returned) since it was built
    I±         … and sign() was the last transforming call on it (a signed, unmodified group)
A call of fill / autofill / send may raise RpcError (e.g. the node's simulation refuses the counter);
that is allowed by the property (nothing is injected); the group is then left as it was.

ensures — the property: at every injection RPC the payload carries the counters
    C + P + 1 .. C + P + k     C = account counter in the node's head, P = number of contents of the
                               account pending in the mempool (applied/unprocessed), k = #contents.
Supporting contracts (counter allocator, stated on results only, never on the cache attribute):
    get_counter          first call after construction / reset() / an injection attempt (accepted or refused) /
                         set_counter(c): node counter + 1 (resp. c + 1); every further call: previous result + 1
    get_counter_offset   == P
"""
from __future__ import annotations

from specs import C25_node as N

SECRET = 'edsk3gUfUPyBSfrS9CCgmCiQsTCHGkviBDusMxDJstFtojtc1zcpsh'
SYMS = ['N1', 'N2', 'N3', 'F', 'A', 'S', 'I+', 'I-', 'X+', 'X-', 'B']
SYMS_REVEAL = ['NR', 'F', 'A', 'S', 'I+', 'I-', 'X+', 'X-', 'B']
# every injection entry point of OperationGroup on one shared context: inject(prevalidate=True/False), send(), send_async(counter=..)
SYMS_ASYNC = ['N1', 'N2', 'F', 'A', 'S', 'I+', 'I-', 'J+', 'J-', 'X+', 'X-', 'Y+', 'Y-', 'B']

_KEY = None


def key():
    global _KEY
    if _KEY is None:
        from pytezos.crypto.key import Key
        import pytezos.rpc.query as q
        # every RpcQuery object renders its interactive help text on construction (~60% of the run time);
        # the text is irrelevant to the calls under contract and is stubbed out
        q.format_docstring = lambda *a, **k: ''
        _KEY = Key.from_encoded_key(SECRET)
    return _KEY


# ----------------------------------------------------------------------------- static well-formedness
def step_flags(flags, sym):
    """flags = (has_group, filled, signed, injected) under the assumption that every call returns."""
    has, filled, signed, injected = flags
    if sym[0] == 'N':
        return (True, False, False, False)
    if sym == 'B':
        return flags
    if not has or injected:
        return None
    if sym in ('F', 'A'):
        return (True, True, False, False)
    if sym == 'S':
        return (True, True, True, False) if filled else None
    if sym in ('I+', 'I-', 'J+', 'J-'):
        if not signed:
            return None
        return (True, filled, signed, sym[1] == '+')
    if sym in ('X+', 'X-', 'Y+', 'Y-'):
        return (True, filled, signed, sym[1] == '+')
    raise ValueError(sym)


def sequences(max_len, syms=None):
    """All well-formed call sequences of length 1..max_len (over SYMS, or over the given alphabet)."""
    out = []
    SYMS = syms or globals()['SYMS']

    def rec(seq, flags):
        if seq:
            out.append(tuple(seq))
        if len(seq) == max_len:
            return
        for s in SYMS:
            f2 = step_flags(flags, s)
            if f2 is not None:
                rec(seq + [s], f2)

    rec([], (False, False, False, False))
    return out


# ----------------------------------------------------------------------------- initial node / client states
COUNTERS = [0, 126]                                  # 126: a batch of 3 crosses the 1-byte zarith boundary 127|128
# additional node counters for the shorter additional runs (props/C25.py): an account that never sent anything (0, in the quick
# tier too) and a counter of many digits (9 zarith bytes; beyond 2^53, where a float would lose the last digits)
EXTRA_CONFIGS = [(0, 'p0', 'fresh'), (0, 'p3', 'after-refused'), (2 ** 62 + 1, 'p3', 'fresh'), (2 ** 62 + 1, 'p1+refused', 'after-included')]
ASYNC_CONFIGS = [(126, 'p0', 'fresh'), (126, 'p3', 'fresh'), (0, 'p1+refused', 'after-refused')]
REVEAL_CONFIGS = [(126, 'p3', 'fresh'), (0, 'p1+refused', 'after-refused'), (126, 'p0', 'after-included')]
PENDING = {'p0': ((), ()), 'p1+refused': ((1,), (1,)), 'p3': ((2, 1), ())}   # (pending groups, refused groups) of the account
PRELUDES = {'fresh': (), 'after-included': ('N1', 'A', 'S', 'I+', 'B'), 'after-refused': ('N1', 'A', 'S', 'I-')}


def configs():
    return [(c, p, pre) for c in COUNTERS for p in PENDING for pre in PRELUDES]


# ----------------------------------------------------------------------------- one run
class Ghost:
    """Ghost bookkeeping of the counter allocator (for the supporting contracts and the witness class)."""

    def __init__(self):
        self.prev = None            # last result of get_counter since the last (re)initialisation
        self.base = None            # value installed by set_counter
        self.alloc_since_reset = 0
        self.failures = []


def run_sequence(cfg, seq, stop_at_first=True):
    """Returns dict(violations=[...], injections=n, raised=[...], steps_done=n, log=[...])."""
    from pytezos.context.impl import ExecutionContext
    from pytezos.operation.group import OperationGroup
    from pytezos.rpc.errors import RpcError
    from pytezos.rpc.shell import ShellQuery

    c0, pname, prename = cfg
    pend, refused = PENDING[pname]
    k = key()
    pkh = k.public_key_hash()
    st = N.SimState(pkh, c0, pending_groups=pend, refused_groups=refused)
    outcomes = []
    ctx = ExecutionContext(shell=ShellQuery(N.make_node(st, outcomes)), key=k)
    gh = Ghost()
    viol = []

    # ---- supporting contracts: wrappers around the real bound methods of this context instance
    real_get, real_set, real_reset, real_off = ctx.get_counter, ctx.set_counter, ctx.reset, ctx.get_counter_offset

    def get_counter():
        r = real_get()
        want = (gh.prev + 1) if gh.prev is not None else ((gh.base + 1) if gh.base is not None else st.counter + 1)
        if r != want:
            viol.append(dict(clause='ExecutionContext.get_counter::ensures.next_counter',
                             detail=f'get_counter() returned {r}, expected {want} '
                                    f'({"previous result + 1" if gh.prev is not None else "node counter + 1 after (re)initialisation"})',
                             wclass='first call after reset does not read the node' if gh.prev is None else 'not previous + 1'))
        gh.prev = r
        gh.alloc_since_reset += 1
        return r

    def set_counter(c):
        real_set(c)
        gh.prev, gh.base = None, c

    def reset():
        real_reset()
        gh.prev, gh.base, gh.alloc_since_reset = None, None, 0

    def get_counter_offset():
        r = real_off()
        want = st.pending_count()
        if r != want:
            viol.append(dict(clause='ExecutionContext.get_counter_offset::ensures.pending_count',
                             detail=f'get_counter_offset() returned {r}, the mempool holds {want} pending contents of the account',
                             wclass=f'offset {r} for {want} pending'))
        return r

    ctx.get_counter, ctx.set_counter, ctx.reset, ctx.get_counter_offset = get_counter, set_counter, reset, get_counter_offset

    g = None
    flags = (False, False, False, False)
    info = dict(path='', pending_at_fill=0, alloc_before=0)
    raised = []
    log = []
    n_inj = 0
    full = list(PRELUDES[prename]) + list(seq)
    done = 0
    for idx, sym in enumerate(full):
        f2 = step_flags(flags, sym)
        if f2 is None:
            break                           # requires no longer holds (an earlier call raised): stop here
        in_prelude = idx < len(PRELUDES[prename])
        try:
            if sym[0] == 'N':
                g = OperationGroup(context=ctx)
                if sym == 'NR':
                    g = g.reveal().transaction(destination=N.OTHER, amount=1)
                else:
                    for j in range(int(sym[1])):
                        g = g.transaction(destination=N.OTHER, amount=j + 1)
                info = dict(path='', pending_at_fill=None, alloc_before=None)
            elif sym == 'B':
                st.new_block()
            elif sym in ('F', 'A'):
                if info['pending_at_fill'] is None:
                    info['pending_at_fill'] = st.pending_count()
                    info['alloc_before'] = gh.alloc_since_reset
                g = g.fill() if sym == 'F' else g.autofill()
                info['path'] += sym
            elif sym == 'S':
                g = g.sign()
            else:
                ok = sym[1] == '+'
                outcomes[:] = [ok]
                before = len(st.injections)
                inj_info = info if sym[0] in 'IJ' else dict(info, path=info['path'] + sym[0])   # send / send_async fill a private copy
                if inj_info['pending_at_fill'] is None:
                    inj_info['pending_at_fill'], inj_info['alloc_before'] = st.pending_count(), gh.alloc_since_reset
                try:
                    if sym[0] == 'I':
                        g.inject()
                    elif sym[0] == 'J':
                        g.inject(prevalidate=False)
                    elif sym[0] == 'Y':
                        # the counter a careful caller passes: the account's next counter at this moment
                        g.send_async(ttl=5, counter=st.counter + st.pending_count() + 1, gas_limit=3040, storage_limit=257)
                    else:
                        g.send()
                finally:
                    if len(st.injections) > before:
                        # specified effect of an injection attempt (accepted or refused): the allocator is
                        # re-initialised, the next get_counter reads the node (ghost follows the SPEC, not the code)
                        gh.prev, gh.base, gh.alloc_since_reset = None, None, 0
                        n_inj += 1
                        rec = st.injections[-1]
                        if rec['counters'] != rec['expected']:
                            # (inside the prelude: step 0, the witness is the configuration alone)
                            viol.append(dict(_inject_violation(rec, inj_info, sym), step=max(0, idx - len(PRELUDES[prename]) + 1)))
            flags = f2
        except RpcError as e:
            raised.append((idx, sym, 'RpcError'))
            if sym in ('I-', 'X-', 'J-', 'Y-') and flags is not None:
                flags = step_flags(flags, sym) or flags
            # fill / autofill / send refused by the node: the current group is unchanged
        except Exception as e:      # the client raised something else: recorded, never a violation by itself
            raised.append((idx, sym, f'{type(e).__name__}: {e}'))
            break
        for v in viol:
            v.setdefault('step', max(0, idx - len(PRELUDES[prename]) + 1))
        done = idx + 1
        log.append((sym, [c.get('counter') for c in g.contents] if g is not None else None))
        if viol and stop_at_first:
            break
    return dict(violations=viol, injections=n_inj, raised=raised, steps_done=done, log=log,
                requests=len(st.requests))


def _inject_violation(rec, info, sym):
    got, exp = rec['counters'], rec['expected']
    consecutive = all(b == a + 1 for a, b in zip(got, got[1:]))
    delta = got[0] - exp[0]
    path = info['path'] or '-'
    pf = info['pending_at_fill'] or 0
    ab = info['alloc_before'] or 0
    only_fill = set(path) <= {'F', 'Y'}          # send_async = fill + sign + inject: a fill()-only path as well
    if not consecutive:
        wc = f'non-consecutive counters (path {_shape(path)})'
    elif only_fill and ab == 0 and pf > 0 and delta == -pf:
        wc = 'fill-only path: counters ignore the operations pending in the mempool'
    elif only_fill and pf == 0 and ab > 0 and delta >= ab:
        # delta > ab: further counters were handed out after this group's first fill attempt and before the fill that gave it its
        # counters (e.g. an autofill of the same unfilled group refused by the node) — the allocator only ever returns previous + 1
        # (proved in the P part), so every positive delta on this path is counters handed out to fills that were never injected
        wc = 'fill-only path: counter cache was advanced by an earlier filled group that was never injected'
    elif only_fill and pf > 0 and ab > 0 and delta >= ab - pf:
        wc = 'fill-only path: pending mempool operations ignored and cache advanced by a never-injected group'
    else:
        wc = f'unexplained: path {_shape(path)} delta {delta:+d} pending_at_fill {pf} allocated_before {ab}'
    return dict(clause='OperationGroup.inject::ensures.next_counters',
                detail=f'injected counters {got}, node counter {rec["node_counter"]} + {rec["pending"]} pending '
                       f'=> expected {exp} (group path {path}, {pf} pending when first filled, '
                       f'{ab} counters handed out before since the last reset)',
                wclass=wc)


def _shape(path):
    out = ''
    for ch in path:
        if not out or out[-1] != ch:
            out += ch
    return out


def work(task):
    cfg, seqs = task
    n = 0
    inj = 0
    classes = {}
    fails = []
    other_exc = {}
    rpc_raised = 0
    for seq in seqs:
        r = run_sequence(cfg, seq)
        n += 1
        inj += r['injections']
        rpc_raised += sum(1 for x in r['raised'] if x[2] == 'RpcError' and x[1] not in ('I-', 'X-', 'J-', 'Y-'))
        for x in r['raised']:
            if x[2] != 'RpcError':
                other_exc[x[2][:120]] = other_exc.get(x[2][:120], 0) + 1
        key_ = repr((cfg[1], cfg[2], _abstract(seq)))
        classes[key_] = classes.get(key_, 0) + 1
        for v in r['violations']:
            fails.append(dict(v, cfg=list(cfg), seq=list(seq)[:v.get('step', len(seq))]))
    return n, inj, classes, fails, other_exc, rpc_raised


def _abstract(seq):
    """abstraction class of a sequence: sizes forgotten, runs of the same call collapsed"""
    out = []
    for s in seq:
        a = s if s == 'NR' else ('N' if s[0] == 'N' else s)
        if not out or out[-1] != a:
            out.append(a)
    return ''.join(out)
