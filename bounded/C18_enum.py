"""C18 — enumeration of Michelson expressions (sorted by the grammar of specs/C18_michelson_grammar.py),
evaluation of the round-trip contract on the real formatter / parser, and minimisation of failing inputs.

Contract evaluated by `roundtrip(e, layout)`:
    text = micheline_to_michelson(e, inline=..., wrap=...)      must not raise
    back = michelson_to_micheline(text [, parser])               must not raise
    back == canon(e)      where canon only drops empty `args` / `annots` lists (absent == empty in Micheline)
"""
from __future__ import annotations
import itertools
import json
from specs import C18_michelson_grammar as G

LAYOUTS = ('inline', 'multiline')

# ------------------------------------------------------------------------------------------------ fillers
UNIT_T = {'prim': 'unit'}
FILL = {
    'T': {'prim': 'unit'},
    'D': {'int': '1'},
    'N': {'int': '2'},
    'STR': {'string': 'v'},
    'SEQI': [],
    'SCRIPT': [{'prim': 'parameter', 'args': [{'prim': 'unit'}]}, {'prim': 'storage', 'args': [{'prim': 'unit'}]},
               {'prim': 'code', 'args': [[]]}],
}
# long fillers push the text over format.line_size (100 columns) so that the multi-line branches run
LONG = {
    'T': {'prim': 'unit', 'annots': [':' + 'long_type_annotation_' * 5]},
    'D': {'string': 'long string literal ' * 6},
    'SEQI': [{'prim': 'PUSH', 'args': [{'prim': 'string'}, {'string': 'long string literal ' * 6}]}, {'prim': 'DROP'}],
}


def mk(prim, args=(), annots=()):
    n = {'prim': prim}
    if args:
        n['args'] = list(args)
    if annots:
        n['annots'] = list(annots)
    return n


def canon(e):
    if isinstance(e, list):
        return [canon(x) for x in e]
    if isinstance(e, dict) and 'prim' in e:
        n = {'prim': e['prim']}
        if e.get('args'):
            n['args'] = [canon(a) for a in e['args']]
        if e.get('annots'):
            n['annots'] = list(e['annots'])
        return n
    return e


def live_prims():
    from pytezos.michelson.tags import prim_tags
    return [p for p in prim_tags]


# ------------------------------------------------------------------------------------------------ contract evaluation
_PARSER = None


def _parser():
    global _PARSER
    if _PARSER is None:
        from pytezos.michelson.parse import MichelsonParser
        _PARSER = MichelsonParser()
    return _PARSER


def roundtrip(e, layout, default_parser=False, wrap=False):
    """-> (ok, clause, info, text)"""
    from pytezos.michelson.format import micheline_to_michelson
    from pytezos.michelson.parse import michelson_to_micheline
    try:
        text = micheline_to_michelson(e, inline=(layout == 'inline'), wrap=wrap)
    except Exception as x:  # noqa
        return False, 'micheline_to_michelson::safety.no_exception', f'formatter raised {type(x).__name__}: {x}', None
    try:
        back = michelson_to_micheline(text) if default_parser else michelson_to_micheline(text, parser=_parser())
    except Exception as x:  # noqa
        return False, 'michelson_to_micheline::safety.parses_formatter_output', \
            f'parser raised {type(x).__name__}: {x} on text {text!r}', text
    want = canon(e)
    if back != want:
        return False, 'roundtrip::ensures.same_expression', f'text {text!r} parses to {back!r}, expected {want!r}', text
    return True, '', '', text


# ------------------------------------------------------------------------------------------------ minimisation
def _subst_candidates(e):
    """Smaller variants of e (one step)."""
    if isinstance(e, list):
        for i in range(len(e)):
            yield e[:i] + e[i + 1:]
        for i, x in enumerate(e):
            for y in _subst_candidates(x):
                yield e[:i] + [y] + e[i + 1:]
    elif isinstance(e, dict) and 'prim' in e:
        args = e.get('args') or []
        for a in args:                      # hoist a child
            yield a
        if e.get('annots'):
            yield {k: v for k, v in e.items() if k != 'annots'}
            if len(e['annots']) > 1:
                for i in range(len(e['annots'])):
                    yield {**e, 'annots': e['annots'][:i] + e['annots'][i + 1:]}
        for i, a in enumerate(args):
            for simple in ({'prim': 'unit'}, {'int': '1'}, []):
                if a != simple:
                    yield {**e, 'args': args[:i] + [simple] + args[i + 1:]}
            for y in _subst_candidates(a):
                yield {**e, 'args': args[:i] + [y] + args[i + 1:]}
        if len(args) > 1:
            for i in range(len(args)):
                yield {**e, 'args': args[:i] + args[i + 1:]}
    elif isinstance(e, dict):
        if 'string' in e and len(e['string']) > 1:
            s = e['string']
            yield {'string': s[:len(s) // 2]}
            yield {'string': s[len(s) // 2:]}
            yield {'string': s[1:]}
            yield {'string': s[:-1]}
        if 'int' in e and e['int'] not in ('0', '1'):
            yield {'int': '1'}
        if 'bytes' in e and e['bytes']:
            yield {'bytes': ''}


def _kind(e):
    if isinstance(e, list):
        return 'seq'
    return 'prim' if 'prim' in e else next(iter(e))


def _size(e):
    if isinstance(e, list):
        return 1 + sum(_size(x) for x in e)
    if isinstance(e, dict) and 'prim' in e:
        return 1 + sum(_size(a) for a in e.get('args') or []) + len(e.get('annots') or [])
    if isinstance(e, dict) and 'string' in e:
        return 1 + len(e['string'])
    return 1


def minimise(e, layout, clause, wrap=False, budget=400):
    """Greedy shrinking keeping the same failing clause.  The result is only used to *describe* the failure."""
    cur = e
    steps = 0
    improved = True
    while improved and steps < budget:
        improved = False
        for cand in sorted(_subst_candidates(cur), key=_size):
            steps += 1
            if steps >= budget:
                break
            if _size(cand) >= _size(cur) or not in_domain_top(cand):
                continue
            ok, cl, _, _ = roundtrip(cand, layout, wrap=wrap)
            if not ok and cl == clause:
                cur = cand
                improved = True
                break
    return cur


def skeleton(e):
    """Stable description of a (minimised) failing expression: primitives, annotation sigils, literal kinds."""
    if isinstance(e, list):
        return '{' + ';'.join(skeleton(x) for x in e) + '}'
    if isinstance(e, dict) and 'prim' in e:
        s = e['prim']
        if e.get('annots'):
            s += ''.join(a[:1] if len(a) < 2 or a[1:].replace('_', 'a').isalnum() else f'[{a}]' for a in e['annots'])
        if e.get('args'):
            s += '(' + ','.join(skeleton(a) for a in e['args']) + ')'
        return s
    if isinstance(e, dict):
        k = next(iter(e))
        v = e[k]
        if k == 'string':
            return 'str' if all(32 <= ord(c) < 127 and c not in '"\\' for c in v) else 'str[' + json.dumps(v)[1:-1][:20] + ']'
        if k == 'int':
            return 'int' if v.lstrip('-').isdigit() and v == str(int(v)) else f'int[{v[:12]}]'
        return k
    return repr(e)


def in_domain_top(e):
    """A top-level list made only of section keywords must be a complete script (see the contract's requires)."""
    if isinstance(e, list) and e and all(isinstance(x, dict) and x.get('prim') in ('parameter', 'storage', 'code', 'view')
                                         for x in e):
        names = [x['prim'] for x in e]
        return all(names.count(k) == 1 for k in ('parameter', 'storage', 'code'))
    return True


def describe(m, layout, wrap=False):
    """Class of a minimised failing expression.  If it contains an argument (a primitive application with
    annotations or arguments) that still fails when it is the only argument of a neutral one-argument primitive
    (type `option`, data `Some`) and does not fail on its own at top level, the class names only that argument
    (primitive, annotated?, has arguments?) — independent of the parent it was found under."""
    def fails(x):
        return not roundtrip(x, layout)[0]

    def walk(n):
        if isinstance(n, list):
            for x in n:
                yield from walk(x)
        elif isinstance(n, dict) and 'prim' in n:
            for c in n.get('args') or []:
                if isinstance(c, dict) and 'prim' in c and (c.get('args') or c.get('annots')):
                    yield c
                yield from walk(c)
    def annotated(n):
        if isinstance(n, list):
            for x in n:
                yield from annotated(x)
        elif isinstance(n, dict) and 'prim' in n:
            for a in n.get('annots') or []:
                yield a
            for c in n.get('args') or []:
                yield from annotated(c)
    for a in sorted(set(annotated(m))):
        if any(ch in a[1:] for ch in '@%:') and a not in ('@%', '@%%', '%@') and fails(mk('int', [], [a])) \
                and not fails(mk('int', [], [a[0] + 'x'])):
            return f'annotation with an inner sigil character: {a}'
    for c in walk(m):
        if fails(mk('option', [c])) and fails(mk('Some', [c])) and not fails(c):
            return (f"unparenthesised argument: {c['prim']}"
                    f"{'+annots' if c.get('annots') else ''}{'+args' if c.get('args') else ''}")
    return skeleton(m)


# ------------------------------------------------------------------------------------------------ part A
ANN_T = [[], ['%a'], [':t'], ['%a', ':t'], [':t', '%a'], ['%a', '%b'], ['%a', ':t', '@v']]
ANN_I = [[], ['@v'], ['%a'], ['@v', '%a'], ['%a', '%b'], [':t'], ['@v', ':t', '%a']]
ANN_SPECIAL = [['%@'], ['@%'], ['@%%'], ['%'], ['@'], [':'], ['%a.b_1'], ['%1x'], ['@_'], ['%', '%b'], ['@', '@'],
               ['%a%b'], ['@a@b'], [':t%x']]


def instances(prim, long=False):
    """Minimal well-sorted applications of prim: one per admissible argument tuple."""
    sort, tuples = G.signature(prim)
    fill = {**FILL, **LONG} if long else FILL
    out = []
    for tup in tuples:
        out.append((sort, tup, mk(prim, [fill.get(s, FILL.get(s)) for s in tup])))
    return out


def slots(sort, prims):
    """All (prim, tuple, index) whose argument slot has the given sort."""
    out = []
    for q in prims:
        if not G.is_prim_identifier(q):
            continue
        qs, tuples = G.signature(q)
        for tup in tuples:
            for i, s in enumerate(tup):
                if s == sort:
                    out.append((q, qs, tup, i))
    return out


def embed(qs, node):
    """Put a context node of sort qs where it may legally stand at top level."""
    if qs in ('T', 'D'):
        return node
    if qs == 'ELT':
        return [node, mk('Elt', [{'int': '9'}, {'int': '9'}])]
    if qs in ('I', 'ANY'):
        return [node, mk('DROP')]
    if qs == 'K':
        secs = {'parameter': mk('parameter', [UNIT_T]), 'storage': mk('storage', [UNIT_T]), 'code': mk('code', [[]])}
        if node['prim'] == 'view':
            return [secs['parameter'], secs['storage'], secs['code'], node]
        secs[node['prim']] = node
        return list(secs.values())
    if qs == 'X':
        return [node, mk('DROP')]
    raise ValueError(qs)


def with_ann(node, ann):
    if not ann:
        return node
    return {**node, 'annots': list(ann)}


def part_a_cases(prim, prims, long_fill=False):
    """Every placement of (every minimal instance of) `prim` in every argument slot / sequence position that
    admits its sort, with every annotation set.  Yields (label, expr)."""
    if not G.is_prim_identifier(prim):
        return
    sort, _ = G.signature(prim)
    child_sorts = ['T', 'D', 'I'] if sort == 'ANY' else [sort]
    fill = {**FILL, **LONG} if long_fill else FILL
    for _, tup, inst in instances(prim, long_fill):
        for csort in child_sorts:
            anns = {'T': ANN_T, 'I': ANN_I, 'K': [[]], 'D': [[]], 'ELT': [[]], 'X': [[], ['@v']]}[csort]
            if sort == 'ANY':
                anns = [[]]
            for ann in anns:
                child = with_ann(inst, ann)
                a = ''.join(x[0] for x in ann)
                # the expression on its own, at top level
                if csort in ('T', 'D'):
                    yield f'{prim}/{len(tup)}{a} root', child
                if csort in ('T', 'D'):
                    for q, qs, qtup, i in slots(csort, prims):
                        for qann in ([], ['%q'] if qs == 'T' else ['@q']) if qs in ('T', 'I') else ([],):
                            args = [fill.get(s, FILL.get(s)) for s in qtup]
                            args[i] = child
                            yield (f'{prim}/{len(tup)}{a} in {q}/{len(qtup)}#{i}{"+ann" if qann else ""}',
                                   embed(qs, with_ann(mk(q, args), qann)))
                    if csort == 'D':
                        yield f'{prim}/{len(tup)} in data-seq', [child, {'int': '1'}]
                        yield f'{prim}/{len(tup)} in data-seq-last', [{'string': 'x'}, child]
                        yield f'{prim}/{len(tup)} in data-seq-only', [child]
                elif csort in ('I', 'X'):
                    d = mk('DROP')
                    bodies = [('only', [child]), ('first', [child, d]), ('last', [d, child]), ('middle', [d, child, d]),
                              ('nested', [[child]]), ('after-nested', [[d], child])]
                    for pos, body in bodies:
                        yield f'{prim}/{len(tup)}{a} root-seq {pos}', body
                    if csort == 'I':
                        yield f'{prim}/{len(tup)}{a} root', child
                        for q, qs, qtup, i in slots('SEQI', prims):
                            for pos, body in bodies[:4]:
                                args = [fill.get(s, FILL.get(s)) for s in qtup]
                                args[i] = body
                                yield f'{prim}/{len(tup)}{a} in {q}/{len(qtup)}#{i} {pos}', embed(qs, mk(q, args))
                elif csort == 'ELT':
                    yield f'{prim} in map literal', [child]
                    yield f'{prim} in map literal x2', [child, mk('Elt', [{'string': 'k'}, mk('Some', [{'int': '1'}])])]
                    yield f'{prim} in PUSH map', [mk('PUSH', [mk('map', [mk('int'), mk('int')]), [child, child]])]
                elif csort == 'K':
                    yield f'{prim} in script', embed('K', child)
                    yield f'{prim} in script+view', embed('K', child) + [mk('view', [{'string': 'w'}, UNIT_T, UNIT_T, []])] \
                        if prim != 'view' else embed('K', child) + [child]
                    yield (f'{prim} in CREATE_CONTRACT',
                           [mk('CREATE_CONTRACT', [embed('K', child)]), mk('DROP')])


# ------------------------------------------------------------------------------------------------ part B: by size
# reduced alphabet: one representative per class the formatter/parser distinguish
#   (label, annots, child sorts); leaves have child sorts ()
REDUCED = {
    'T': [('int', [], ()), ('int', ['%a'], ()), ('chest', [], ()), ('chest', ['%a'], ()),
          ('option', [], ('T',)), ('option', ['%o', ':t'], ('T',)),
          ('pair', [], ('T', 'T')), ('pair', [':p'], ('T', 'T', 'T')),
          ('sapling_state', [], ('N',)), ('constant', [], ('STR',))],
    'D': [('Unit', [], ()), ('Some', [], ('D',)), ('Pair', [], ('D', 'D')), ('Lambda_rec', [], ('SEQI',)),
          ('constant', [], ('STR',))],
    'ELT': [('Elt', [], ('D', 'D'))],
    'I': [('DROP', [], ()), ('CAR', ['@v', '%a'], ()), ('DIP', [], ('N', 'SEQI')), ('PUSH', [], ('T', 'D')),
          ('PUSH', ['@v'], ('T', 'D')), ('IF', [], ('SEQI', 'SEQI')), ('LAMBDA', ['@l'], ('T', 'T', 'SEQI')),
          ('NIL', [], ('T',)), ('EMPTY_MAP', [':m'], ('T', 'T')), ('constant', [], ('STR',))],
}
LITERALS = {
    'D': [{'int': '-1'}, {'string': 'a"\\\n'}, {'bytes': '00ff'}],
    'N': [{'int': '2'}],
    'STR': [{'string': 's'}],
}
SEQ_OF = {'D': ('D', 'ELT', 'I'), 'I': ('I',), 'SEQI': ('I',)}     # which sequences stand for a value of the sort


class Gen:
    """gen.of(sort, n): all expressions of `sort` with exactly n nodes over the (possibly filtered) reduced alphabet."""

    def __init__(self, excluded=()):
        self.excluded = set(excluded)       # {(sort, prim, annotated?)} classes dropped from the alphabet
        self.memo = {}

    def prods(self, sort):
        for p, ann, kids in REDUCED.get(sort, []):
            if (sort, p, bool(ann)) in self.excluded:
                continue
            yield p, ann, kids

    def of(self, sort, n):
        key = (sort, n)
        if key in self.memo:
            return self.memo[key]
        out = []
        seen = set()

        def add(e):
            k = json.dumps(e, sort_keys=True)
            if k not in seen:
                seen.add(k)
                out.append(e)
        if sort == 'SEQI':
            for e in self.seqs('I', n):
                add(e)
        else:
            if n == 1:
                for lit in LITERALS.get(sort, []):
                    add(lit)
            for p, ann, kids in self.prods(sort):
                if not kids:
                    if n == 1:
                        add(mk(p, [], ann))
                    continue
                if n - 1 < len(kids):
                    continue
                for comp in _compositions(n - 1, len(kids)):
                    sets = [self.of(s, c) for s, c in zip(kids, comp)]
                    for ch in itertools.product(*sets):
                        add(mk(p, list(ch), ann))
            for elem in SEQ_OF.get(sort, ()):
                if sort == 'I' and elem == 'I':
                    for e in self.seqs('I', n):      # a nested block { ... } in instruction position
                        add(e)
                elif sort == 'D':
                    for e in self.seqs(elem, n, nonempty=(elem != 'D')):
                        add(e)
        self.memo[key] = out
        return out

    def seqs(self, elem, n, nonempty=False):
        """Sequences with n nodes in total (1 for the sequence itself)."""
        key = ('seq', elem, n, nonempty)
        if key in self.memo:
            return self.memo[key]
        out = []
        if n == 1 and not nonempty:
            out.append([])
        for k in range(1, n):
            for comp in _compositions(n - 1, k):
                sets = [self.of(elem, c) for c in comp]
                for ch in itertools.product(*sets):
                    out.append(list(ch))
        self.memo[key] = out
        return out

    def scripts(self, n):
        """Complete scripts: parameter T ; storage T ; code SEQI   with n nodes below the three sections."""
        for comp in _compositions(n, 3):
            for p, s, c in itertools.product(self.of('T', comp[0]), self.of('T', comp[1]), self.of('SEQI', comp[2])):
                yield [mk('parameter', [p]), mk('storage', [s]), mk('code', [c])]


def _compositions(n, k):
    if k == 1:
        if n >= 1:
            yield (n,)
        return
    for first in range(1, n - k + 2):
        for rest in _compositions(n - first, k - 1):
            yield (first,) + rest


# ------------------------------------------------------------------------------------------------ part C: literals
def literal_cases():
    printable = ''.join(chr(c) for c in range(32, 127))
    strings = ['', ' ', printable, '"', '\\', '\n', '\\n', '\\"', '"\\', 'a"b\\c\nd', '\n\n', '\\\\', '#', '# not a comment',
               '/* not a comment */', ';', '{', '}', '(', ')', '{ DROP }', '0x00', '-1', 'Pair 1 2', '%a', '"""', "'",
               'tab\there', ' leading and trailing ']
    strings += [chr(c) for c in range(32, 127)]
    strings += [a + b for a in '"\\\nx #' for b in '"\\\nx #']
    ints = ['0', '1', '-1', '9', '10', '-10', str(2 ** 31), str(-2 ** 63), str(2 ** 64), str(2 ** 256), str(-2 ** 256),
            '1' + '0' * 120, '-' + '9' * 130]
    byts = ['', '00', 'ff', '00ff', 'deadbeef', 'DEADBEEF', 'aB', '0' * 64, 'ab' * 120]
    lits = [{'string': s} for s in strings] + [{'int': i} for i in ints] + [{'bytes': b} for b in byts]
    for lit in lits:
        k = next(iter(lit))
        tag = f'{k}:{len(lit[k])}'
        yield f'literal {tag} root', lit
        yield f'literal {tag} PUSH', [mk('PUSH', [mk(k if k != 'int' else 'int'), lit])]
        yield f'literal {tag} Pair', mk('Pair', [lit, mk('Some', [lit])])
        yield f'literal {tag} seq', [lit, lit]
        yield f'literal {tag} seq1', [lit]
        yield f'literal {tag} Elt', [mk('Elt', [lit, lit])]
        yield f'literal {tag} nested', [[lit], [[], [lit, {'int': '0'}]]]
        if k == 'string':
            yield f'literal {tag} VIEW', [mk('VIEW', [lit, UNIT_T])]
            yield f'literal {tag} FAILWITH', [mk('PUSH', [mk('string'), lit]), mk('FAILWITH')]
        if k == 'int':
            yield f'literal {tag} DIP', [mk('DIP', [lit, [mk('DROP', [lit])]])]


def annotation_cases():
    for ann in ANN_SPECIAL + ANN_T + ANN_I:
        a = ' '.join(ann)
        yield f'annots [{a}] type root', mk('int', [], ann)
        yield f'annots [{a}] type arg', mk('pair', [mk('int', [], ann), mk('option', [mk('nat', [], ann)], ann)])
        yield f'annots [{a}] parameter', [mk('parameter', [mk('or', [mk('unit', [], ann), mk('nat')], ann)]),
                                          mk('storage', [mk('unit')]), mk('code', [[mk('CAR', [], ann)]])]
        yield f'annots [{a}] instr', [mk('CAR', [], ann), mk('PUSH', [mk('nat', [], ann), {'int': '1'}], ann),
                                      mk('NIL', [mk('operation')], ann), mk('DIP', [[mk('DUP', [], ann)]])]
        yield f'annots [{a}] IF', [mk('IF_LEFT', [[mk('RENAME', [], ann)], [mk('LEFT', [mk('pair', [mk('int'), mk('int')], ann)], ann)]])]
    # empty lists instead of absent keys (the only normalisation the contract allows)
    yield 'empty annots list', {'prim': 'int', 'annots': []}
    yield 'empty args list', {'prim': 'unit', 'args': []}
    yield 'empty args+annots lists', [{'prim': 'DROP', 'args': [], 'annots': []}, {'prim': 'pair', 'args': [
        {'prim': 'int', 'annots': []}, {'prim': 'nat', 'args': []}], 'annots': []}]


def nesting_cases(depth):
    """Nested sequences: all shapes of pure sequences up to `depth` nodes, with a marker leaf."""
    def shapes(n):
        if n == 1:
            yield []
            return
        for k in range(1, n):
            for comp in _compositions(n - 1, k):
                for ch in itertools.product(*[list(shapes(c)) for c in comp]):
                    yield list(ch)
    for n in range(1, depth + 1):
        for s in shapes(n):
            yield f'pure-seq n={n}', s
            yield f'pure-seq n={n} in code', [mk('parameter', [UNIT_T]), mk('storage', [UNIT_T]), mk('code', [s])]
            yield f'pure-seq n={n} in DIP', [mk('DIP', [s])]
            yield f'pure-seq n={n} in PUSH', [mk('PUSH', [mk('list', [mk('list', [mk('int')])]), s])]
            yield f'pure-seq n={n} after DROP', [mk('DROP'), s, mk('DROP')]
