"""C21 — elementary cases for BLS12-381 encodings, ADD / NEG / MUL / PAIRING_CHECK, evaluated through the
real Michelson types and instruction classes against the scalar model of specs/C21_bls_model.

A group element is named by its scalar a (the point a*G of the standard generator; a = 0 is the point
at infinity).  `eval_case(case)` -> list of {oid, ok, info, wclass}.
"""
import functools

from bounded import crypto_common as CC
from specs import C21_bls_model as M

R = M.R

O_RT_V = 'BLS12_381_{}Type.to_point::ensures.from_point(to_point(v))==v'
O_RT_P = 'BLS12_381_{}Type.from_point::ensures.to_point(from_point(P))~P_and_canonical_bytes'
O_INF = 'BLS12_381_{}Type.to_point::ensures.infinity_encoding_decodes_to_infinity'
O_FR = 'BLS12_381_FrType.from_value::ensures.reduced_mod_r_and_32_byte_LE_roundtrip'
O_ADD = 'ADD[{}]::ensures.group_addition'
O_NEG = 'NEG[{}]::ensures.group_inverse'
O_MUL = 'MUL[{}]::ensures.scalar_multiplication'
O_ASSOC = 'ADD[{}]::ensures.associative'
O_DIST = 'MUL[{}]::ensures.distributive'
O_FROP = '{}[fr]::ensures.field_operation_mod_r'
O_PAIR = 'PAIRING_CHECK::ensures.true_iff_product_of_pairings_is_one'


def _res(oid, ok, info='', wclass=''):
    return dict(oid=oid, ok=bool(ok), info=info, wclass=wclass)


def _T(grp):
    from pytezos.michelson.types import BLS12_381_G1Type, BLS12_381_G2Type
    return BLS12_381_G1Type if grp == 'g1' else BLS12_381_G2Type


@functools.lru_cache(maxsize=4096)
def _enc(grp, a):
    return M.enc_g1(M.g1(a)) if grp == 'g1' else M.enc_g2(M.g2(a))


def enc(grp, a):
    return _enc(grp, a % R)


def val(grp, a):
    return _T(grp).from_value(enc(grp, a))


def fr(v):
    from pytezos.michelson.types import BLS12_381_FrType
    return BLS12_381_FrType.from_value(v)


def nm(a):
    a %= R
    return 'inf' if a == 0 else (str(a) if a < 16 else ('r-' + str(R - a) if R - a < 16 else 'big'))


def _instr(name):
    from pytezos.michelson.instructions import arithmetic as A
    return {'ADD': A.AddInstruction, 'NEG': A.NegInstruction, 'MUL': A.MulInstruction, 'INT': A.IntInstruction}[name]


def run(name, *items):
    """-> ('ok', item) | ('exc', text)"""
    try:
        (res,) = CC.run_instr(_instr(name), *items)
        return 'ok', res
    except Exception as e:  # noqa
        return 'exc', CC.exc_text(e)


def show(grp, st, res):
    if st != 'ok':
        return 'raised ' + res
    T = _T(grp)
    if type(res) is not T:
        return f'{type(res).__name__}({getattr(res, "value", res)!r:.60})'
    v = bytes(res.value)
    for a in list(range(0, 8)) + [R - i for i in range(1, 8)]:
        if v == enc(grp, a):
            return f'enc({nm(a)}*G)'
    return '0x' + v.hex()[:24] + '..'


def is_elem(grp, st, res, a):
    return st == 'ok' and type(res) is _T(grp) and bytes(res.value) == enc(grp, a)


def infw(*scalars):
    return ' operand=infinity' if any(s % R == 0 for s in scalars) else ''


# ------------------------------------------------------------------------------------------ codecs
def eval_codec(case):
    from py_ecc import optimized_bls12_381 as b
    grp, a = case['grp'], case['a']
    G = grp.upper()
    T = _T(grp)
    v = enc(grp, a)
    tag = f'{grp} a={nm(a)}'
    out = []
    # value -> point -> value
    try:
        x = T.from_value(v)
        x2 = T.from_micheline_value({'bytes': v.hex()})
        pt = x.to_point()
        back = bytes(T.from_point(pt).value)
        ok = back == v and bytes(x2.value) == v
        info = f'from_point(to_point(0x{v.hex()[:16]}..)) = 0x{back.hex()[:16]}..'
    except Exception as e:  # noqa
        ok, info, pt = False, 'raised ' + CC.exc_text(e), None
    out.append(_res(O_RT_V.format(G), ok, info, tag))
    if a % R == 0:
        good = pt is not None and b.is_inf(pt)
        out.append(_res(O_INF.format(G), good, f'to_point(0x40 00..) is not the point at infinity: {str(pt)[:80]}', tag))
    # point -> value -> point, and canonical bytes (against the independent serialization)
    try:
        P = b.multiply(b.G1 if grp == 'g1' else b.G2, a % R)      # assumed contract: py_ecc scalar multiple
        y = T.from_point(P)
        P2 = y.to_point()
        same = (b.is_inf(P) and b.is_inf(P2)) or (not b.is_inf(P) and not b.is_inf(P2) and b.normalize(P) == b.normalize(P2))
        ok = bytes(y.value) == v and same
        info = f'from_point({nm(a)}*G) = 0x{bytes(y.value).hex()[:16]}.. (model 0x{v.hex()[:16]}..), to_point(from_point(P)) ~ P: {same}'
    except Exception as e:  # noqa
        ok, info = False, 'raised ' + CC.exc_text(e)
    out.append(_res(O_RT_P.format(G), ok, info, tag))
    return out


def eval_fr_codec(case):
    from pytezos.michelson.types import BLS12_381_FrType as Fr
    v = case['v']
    want = v % R
    tag = 'fr ' + ('neg' if v < 0 else 'canonical' if v < R else 'ge_r')
    try:
        x = Fr.from_value(v)
        opt = x.to_micheline_value(mode='optimized')
        rd = x.to_micheline_value(mode='readable')
        y = Fr.from_micheline_value(opt)
        z = Fr.from_micheline_value(rd)
        w = Fr.from_python_object(M.fr_bytes(v))
        ok = (x.value == want and opt == {'bytes': M.fr_bytes(v).hex()} and rd == {'int': str(want)}
              and y.value == want and z.value == want and w.value == want and type(y) is Fr and Fr.modulus == R)
        info = f'from_value({v}) -> {x.value}, optimized {opt}, readable {rd}, decoded back {y.value}/{z.value}/{w.value}; expected {want}'
    except Exception as e:  # noqa
        ok, info = False, 'raised ' + CC.exc_text(e)
    return [_res(O_FR, ok, info, tag)]


# -------------------------------------------------------------------------------------- group laws
def eval_add(case):
    grp, a, b = case['grp'], case['a'], case['b']
    st, res = run('ADD', val(grp, a), val(grp, b))
    return [_res(O_ADD.format(grp), is_elem(grp, st, res, a + b),
                 f'ADD {nm(a)}*G {nm(b)}*G -> {show(grp, st, res)}, group law: enc({nm(a + b)}*G)', f'{grp}{infw(a, b)}')]


def eval_neg(case):
    grp, a = case['grp'], case['a']
    st, res = run('NEG', val(grp, a))
    out = [_res(O_NEG.format(grp), is_elem(grp, st, res, -a), f'NEG {nm(a)}*G -> {show(grp, st, res)}, group law: enc({nm(-a)}*G)', f'{grp}{infw(a)}')]
    if st == 'ok' and type(res) is _T(grp):
        st2, res2 = run('ADD', val(grp, a), res)
        out.append(_res(O_NEG.format(grp), is_elem(grp, st2, res2, 0), f'ADD x (NEG x) for x={nm(a)}*G -> {show(grp, st2, res2)}, expected infinity', f'{grp}{infw(a)} x+(-x)'))
    return out


def eval_mul(case):
    grp, a, s = case['grp'], case['a'], case['s']
    st, res = run('MUL', val(grp, a), fr(s))
    return [_res(O_MUL.format(grp), is_elem(grp, st, res, a * s),
                 f'MUL {nm(a)}*G fr({nm(s) if s % R else 0}) -> {show(grp, st, res)}, expected enc({nm(a * s)}*G)', f'{grp}{infw(a)}')]


def eval_assoc(case):
    grp, a, b, c = case['grp'], case['a'], case['b'], case['c']
    st1, ab = run('ADD', val(grp, a), val(grp, b))
    st2, bc = run('ADD', val(grp, b), val(grp, c))
    if st1 != 'ok' or st2 != 'ok':
        return [_res(O_ASSOC.format(grp), False, f'ADD raised: {ab if st1 != "ok" else bc}', f'{grp}{infw(a, b, c)} raises')]
    l = run('ADD', ab, val(grp, c))
    r = run('ADD', val(grp, a), bc)
    ok = l[0] == r[0] == 'ok' and type(l[1]) is _T(grp) and bytes(l[1].value) == bytes(r[1].value) == enc(grp, a + b + c)
    return [_res(O_ASSOC.format(grp), ok, f'(a+b)+c = {show(grp, *l)}, a+(b+c) = {show(grp, *r)} for a,b,c = {nm(a)},{nm(b)},{nm(c)} (*G); expected enc({nm(a + b + c)}*G)',
                 f'{grp}{infw(a, b, c, a + b, b + c)}')]


def eval_distrib(case):
    grp, a, b, s, t = case['grp'], case['a'], case['b'], case['s'], case['t']
    out = []
    # s*(A+B) = s*A + s*B
    st, ab = run('ADD', val(grp, a), val(grp, b))
    sa, sb = run('MUL', val(grp, a), fr(s)), run('MUL', val(grp, b), fr(s))
    if st == 'ok' and sa[0] == 'ok' and sb[0] == 'ok':
        l = run('MUL', ab, fr(s))
        r = run('ADD', sa[1], sb[1])
        ok = l[0] == r[0] == 'ok' and type(l[1]) is _T(grp) and bytes(l[1].value) == bytes(r[1].value) == enc(grp, s * (a + b))
        info = f's*(A+B) = {show(grp, *l)}, s*A+s*B = {show(grp, *r)} for A,B = {nm(a)},{nm(b)} (*G), s={nm(s)}'
    else:
        ok, info = False, f'raised: {[x[1] for x in ((st, ab), sa, sb) if x[0] != "ok"]}'
    out.append(_res(O_DIST.format(grp), ok, info, f'{grp}{infw(a, b, a + b, s)} point-sum'))
    # (s+t)*A = s*A + t*A   (scalar sum through ADD on fr)
    stf, spt = run('ADD', fr(s), fr(t))
    ta = run('MUL', val(grp, a), fr(t))
    if stf == 'ok' and sa[0] == 'ok' and ta[0] == 'ok':
        l = run('MUL', val(grp, a), spt)
        r = run('ADD', sa[1], ta[1])
        ok = l[0] == r[0] == 'ok' and type(l[1]) is _T(grp) and bytes(l[1].value) == bytes(r[1].value) == enc(grp, (s + t) * a)
        info = f'(s+t)*A = {show(grp, *l)}, s*A+t*A = {show(grp, *r)} for A = {nm(a)}*G, s,t = {nm(s)},{nm(t)}'
    else:
        ok, info = False, f'raised: {[x[1] for x in ((stf, spt), sa, ta) if x[0] != "ok"]}'
    out.append(_res(O_DIST.format(grp), ok, info, f'{grp}{infw(a, s, t, s + t)} scalar-sum'))
    return out


def eval_fr_op(case):
    from pytezos.michelson.types import BLS12_381_FrType as Fr, IntType, NatType
    op, x, y = case['op'], case['x'], case['y']
    if op == 'add':
        st, res = run('ADD', fr(x), fr(y)); want = (x + y) % R; name = 'ADD'
    elif op == 'mul':
        st, res = run('MUL', fr(x), fr(y)); want = (x * y) % R; name = 'MUL'
    elif op == 'neg':
        st, res = run('NEG', fr(x)); want = (-x) % R; name = 'NEG'
    elif op == 'mul_fr_int':
        st, res = run('MUL', fr(x), IntType.from_value(y)); want = (x * y) % R; name = 'MUL'
    elif op == 'mul_int_fr':
        st, res = run('MUL', IntType.from_value(y), fr(x)); want = (x * y) % R; name = 'MUL'
    elif op == 'mul_fr_nat':
        st, res = run('MUL', fr(x), NatType.from_value(abs(y))); want = (x * abs(y)) % R; name = 'MUL'
    elif op == 'mul_nat_fr':
        st, res = run('MUL', NatType.from_value(abs(y)), fr(x)); want = (x * abs(y)) % R; name = 'MUL'
    else:
        raise KeyError(op)
    ok = st == 'ok' and type(res) is Fr and res.value == want
    got = f'{type(res).__name__}({res.value})' if st == 'ok' else 'raised ' + res
    return [_res(O_FROP.format(name), ok, f'{op} x={nm(x) if x % R else 0} y={y if abs(y) < 16 else nm(y)} -> {got}; field: bls12_381_fr({want})',
                 f'fr {op} result={type(res).__name__ if st == "ok" else "raises"}')]


# ----------------------------------------------------------------------------------------- pairing
def eval_pairing(case):
    from pytezos.michelson.instructions.crypto import PairingCheckInstruction
    from pytezos.michelson.types import BLS12_381_G1Type, BLS12_381_G2Type, BoolType, ListType, PairType
    pairs = [tuple(p) for p in case['pairs']]
    want = M.pairing_product_is_one(pairs)
    items = [PairType.from_comb([val('g1', a), val('g2', b)]) for a, b in pairs]
    if items:
        lst = ListType.from_items(items)
    else:
        lst = ListType.empty(PairType.create_type(args=[BLS12_381_G1Type, BLS12_381_G2Type]))
    try:
        (res,) = CC.run_instr(PairingCheckInstruction, lst)
        got = bool(res) if isinstance(res, BoolType) else repr(res)
    except Exception as e:  # noqa
        got = 'raised ' + CC.exc_text(e)
    desc = ' * '.join(f'e({nm(a)}*G1, {nm(b)}*G2)' for a, b in pairs) or 'empty product'
    return [_res(O_PAIR, got is want, f'PAIRING_CHECK [{desc}] -> {got}; sum a_i*b_i mod r {"=" if want else "!="} 0, so the product is {"" if want else "not "}one',
                 f'n={len(pairs)}' + (' operand=infinity' if any(a % R == 0 or b % R == 0 for a, b in pairs) else ''))]


def eval_case(case):
    return {'codec': eval_codec, 'fr_codec': eval_fr_codec, 'add': eval_add, 'neg': eval_neg, 'mul': eval_mul,
            'assoc': eval_assoc, 'distrib': eval_distrib, 'fr_op': eval_fr_op, 'pairing': eval_pairing}[case['k']](case)


def eval_chunk(chunk):
    return [(c, eval_case(c)) for c in chunk]


# ------------------------------------------------------------------------------------- enumeration
def enumerate_cases(tier, seed=0):
    import hashlib
    thorough = tier == 'thorough'
    big = [int.from_bytes(hashlib.sha256(f'c21-{seed}-{i}'.encode()).digest(), 'big') % R for i in range(4 if thorough else 1)]
    small = [0, 1, 2, 3]
    pts = small + [R - 1] + (([R - 2] + big) if thorough else big[:1])       # scalars naming points
    scal = [0, 1, 2, 3, R - 1] + (([R - 2] + big) if thorough else big[:1])  # fr scalars
    light, heavy = [], []
    for grp in ('g1', 'g2'):
        for a in pts + [R, R + 1]:
            light.append(dict(k='codec', grp=grp, a=a))
        for a in pts:
            light.append(dict(k='neg', grp=grp, a=a))
            for b in pts:
                light.append(dict(k='add', grp=grp, a=a, b=b))
            for s in scal:
                light.append(dict(k='mul', grp=grp, a=a, s=s))
        tri = small + ([R - 1] if thorough else [])
        for a in tri:
            for b in tri:
                for c in tri:
                    light.append(dict(k='assoc', grp=grp, a=a, b=b, c=c))
        ds = [0, 1, 2, 3] + ([R - 1, big[0]] if thorough else [R - 1])
        for a in small:
            for b in small:
                for s in ds:
                    t = ds[(ds.index(s) + 1 + a) % len(ds)]
                    light.append(dict(k='distrib', grp=grp, a=a, b=b, s=s, t=t))
    frv = [0, 1, 2, R - 1, R - 2, (R - 1) // 2, (R + 1) // 2] + big
    for v in frv + [R, R + 1, 2 * R, 2 * R + 5, -1, -R, -R - 3, 2 ** 256 - 1, 2 ** 255]:
        light.append(dict(k='fr_codec', v=v))
    for x in frv:
        light.append(dict(k='fr_op', op='neg', x=x, y=0))
        for y in frv:
            light.append(dict(k='fr_op', op='add', x=x, y=y))
            light.append(dict(k='fr_op', op='mul', x=x, y=y))
        for y in (0, 1, -1, 5, -7, R, R + 2, -R - 1, 2 ** 300):
            for op in ('mul_fr_int', 'mul_int_fr', 'mul_fr_nat', 'mul_nat_fr'):
                light.append(dict(k='fr_op', op=op, x=x, y=y))
    # pairings: lists of (a, b) standing for (a*G1, b*G2)
    plist = [[], [[1, 1]], [[0, 1]], [[1, 0]], [[0, 0]],
             [[1, 1], [R - 1, 1]], [[2, 3], [R - 6, 1]], [[2, 3], [3, R - 2]], [[1, 1], [1, 1]], [[2, 1], [R - 1, 1]],
             [[1, 2], [1, R - 1], [R - 1, 1]], [[0, 1], [1, 1], [R - 1, 1]], [[1, 1], [1, 0]]]
    if thorough:
        dom = [0, 1, 2, R - 1]
        for a in dom:
            for b in dom:
                if [[a, b]] not in plist:
                    plist.append([[a, b]])
                for c in dom:
                    for d in dom:
                        plist.append([[a, b], [c, d]])
        plist += [[[big[0], big[1]], [R - big[0], big[1]]], [[big[0], big[1]], [big[0] * big[1] % R, R - 1]],
                  [[1, 1], [2, 2], [3, 3], [R - 14, 1]], [[1, 1], [2, 2], [3, 3], [R - 13, 1]]]
    plist += infinity_position_lists(thorough)
    seen_l, uniq = set(), []
    for p in plist:
        key = repr(p)
        if key not in seen_l:
            seen_l.add(key)
            uniq.append(p)
    # the real PAIRING_CHECK costs ~0.4 s per non-infinity pair (py_ecc): most expensive lists first, one list per chunk
    uniq.sort(key=lambda p: -sum(1 for a, b in p if a % R and b % R))
    heavy = [[dict(k='pairing', pairs=p)] for p in uniq]
    chunks = heavy + [light[i:i + 60] for i in range(0, len(light), 60)]
    return chunks


def infinity_position_lists(thorough):
    """Lists of length 1..3 (4 in thorough) over pairs built from the multiples {0 (infinity), 1, 2, -1} of the generators with an
    infinity pair at EVERY position, preceded / followed by pairs that do and do not change the verdict.  The oracle is the
    bilinearity rule (sum a_i*b_i = 0 mod r), so any number of lists could be judged; the deterministic selection below bounds the
    number of real pairings.  A loop that stops, skips one pair too many or too few at an infinity pair changes the verdict of
    at least one of these lists."""
    P1, N1, P2, Q2, QN = [1, 1], [R - 1, 1], [2, 1], [1, 2], [1, R - 1]
    infs = [[0, 1], [1, 0], [0, 0], [0, 2], [R - 1, 0]]
    out = [[[a, b]] for a in (0, 1, 2, R - 1) for b in (0, 1, 2, R - 1)]           # length 1: every pair of the domain
    main_infs = infs if thorough else infs[:2]
    for I in infs:
        out += [[I, P1], [P1, I], [I, I]]                                                # infinity first / last, verdict set by the other pair
    out += [[infs[0], infs[1]], [infs[1], infs[2]]]
    for I in main_infs:
        # length 3, infinity at position 0, 1, 2; completions with product one (True) and not one (False)
        for ok_pair in ([P1, N1], [P2, [R - 2, 1]] if thorough else [P1, N1]):
            x, y = ok_pair
            out += [[I, x, y], [x, I, y], [x, y, I]]
        for bad_pair in ([P1, P1], [P1, P2] if thorough else [P1, P1]):
            x, y = bad_pair
            out += [[I, x, y], [x, I, y], [x, y, I]]
        out += [[I, I, P1], [I, P1, I], [P1, I, I], [I, I, I]]
    # G2-side negation and mixed sides around an infinity pair
    out += [[Q2, infs[1], [R - 2, 1]], [Q2, infs[0], QN], [infs[2], Q2, [R - 2, 1]]]
    if thorough:
        pool = [[0, 1], [1, 0], P1, N1, P2, Q2]
        for x in pool:
            for y in pool:
                for z in pool:
                    out.append([x, y, z])
        for I in infs[:2]:
            for pos in range(4):
                for rest in ([P1, N1, P1], [P1, N1, [0, 1]], [P1, P2, [R - 3, 1]], [P2, N1, N1]):
                    l = list(rest)
                    l.insert(pos, I)
                    out.append(l)
    return out
