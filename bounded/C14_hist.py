"""C14 helper — histories of set / map instructions on the real interpreter instruction classes against a
reference sorted dictionary (specs/C14_order.py gives the Michelson order; values of specs/michelson_ref.py).

After EVERY mutating step (and on the initial collection) the real collection is observed completely:
  content   its Micheline value == the reference entries in strictly increasing key order
            (this is "strictly sorted, duplicate-free, same members" in one comparison)
  SIZE, MEM k (all keys of the universe), GET k (maps, all keys), ITER order (elements CONSed onto a list)
Mutating steps: sets  UPDATE k True / False;  maps  UPDATE k (Some v) / None, GET_AND_UPDATE k (Some v) / None
(previous value checked), MAP { CDR; PUSH nat 1; ADD } (keys unchanged, values + 1).
Literals: PUSH (set t) / (map t nat) of every key sequence of length 0..3 over the universe is accepted iff the
keys are strictly increasing, and then has exactly that content.
Prefix-sharing depth-first walk: SetType / MapType operations return new objects; the harness never mutates one.

Map VALUE types (kind 'map' = nat values, 'map:<vt>' = another value type of VALTYPES): the collection code must treat a
stored value as opaque, in particular it must not take a FALSY value ("" / False / an empty list, whose Micheline `[]` is
falsy as well) for an absent one.  nat values are never falsy in Python, so 'map:string' / 'map:bool' / 'map:list' histories
store, overwrite, read back and remove falsy values (literal entries, written values and the results of MAP).
"""
from __future__ import annotations

import itertools

from specs import michelson_ref as R
from specs import C14_order as O

P = R.pair_t
_A = [O.mk_b58('tz1', bytes([1] * 20)), O.mk_b58('tz1', bytes([2] + [0] * 19)), O.mk_b58('tz2', bytes(20)),
      O.mk_b58('tz4', bytes([255] * 20)), O.mk_b58('KT1', bytes(20)), O.mk_b58('KT1', bytes([0] * 19 + [1]))]

# universes of (up to) 3 keys, written in increasing Michelson order (asserted against the oracle at import)
UNIVERSES = {
    'unit': (('unit',), [()]),
    'bool': (('bool',), [False, True]),
    'int': (('int',), [-1, 0, 5]),
    'nat': (('nat',), [0, 127, 128]),
    'mutez': (('mutez',), [0, 1, 10 ** 12]),
    'timestamp': (('timestamp',), [-5, 0, 1700000000]),
    'string': (('string',), ['', 'B', 'a']),
    'bytes': (('bytes',), [b'', b'\x00', b'\x00\x01']),
    'key_hash': (('key_hash',), [_A[0], _A[1], _A[2]]),
    'address': (('address',), [_A[1], _A[3], _A[4]]),
    'address_kt': (('address',), [_A[2], _A[4], _A[5]]),
    'chain_id': (('chain_id',), [O.mk_b58('Net', bytes(4)), O.mk_b58('Net', b'\x00\x00\x01\x00'), O.mk_b58('Net', b'\xff' * 4)]),
    'pair_int_string': (P(('int',), ('string',)), [(-1, 'b'), (0, 'a'), (0, 'b')]),
    'pair_string_int': (P(('string',), ('int',)), [('a', 5), ('b', -7), ('b', 2)]),
    'pair3': (P(('nat',), ('bool',), ('bytes',)), [(0, (True, b'\xff')), (1, (False, b'')), (1, (False, b'\x00'))]),
    'pair_nested': (P(P(('nat',), ('nat',)), ('bool',)), [((0, 9), True), ((1, 0), False), ((1, 0), True)]),
    'option_int': (('option', ('int',)), [None, ('Some', -3), ('Some', 2)]),
    'option_option': (('option', ('option', ('nat',))), [None, ('Some', None), ('Some', ('Some', 0))]),
    'or_int_string': (('or', ('int',), ('string',)), [('Left', 5), ('Right', ''), ('Right', 'a')]),
    'or_unit_option': (('or', ('unit',), ('option', ('bool',))), [('Left', ()), ('Right', None), ('Right', ('Some', False))]),
    'pair_address_nat': (P(('address',), ('nat',)), [(_A[0], 7), (_A[4], 0), (_A[4], 3)]),
    'option_pair': (('option', P(('string',), ('nat',))), [None, ('Some', ('a', 1)), ('Some', ('b', 0))]),
    'or_pair_or': (('or', P(('int',), ('int',)), ('or', ('bool',), ('nat',))), [('Left', (1, 5)), ('Left', (2, 3)), ('Right', ('Left', True))]),
}
for _n, (_t, _ks) in UNIVERSES.items():
    assert O.strictly_increasing(_t, _ks), f'universe {_n} is not in increasing order for the oracle'


# value types of maps: (type, literal value of key i, value written at history step s, MAP body, its effect on a value)
VALTYPES = {
    'nat': (('nat',), lambda i: 100 + i, lambda s: 10 + s,
            [{'prim': 'CDR'}, {'prim': 'PUSH', 'args': [{'prim': 'nat'}, {'int': '1'}]}, {'prim': 'ADD'}], lambda v: v + 1),
    # "" at even positions / steps; MAP { DROP; PUSH string "" } makes every value falsy
    'string': (('string',), lambda i: '' if i % 2 == 0 else f'v{i}', lambda s: '' if s % 2 == 0 else f'n{s}',
               [{'prim': 'DROP'}, {'prim': 'PUSH', 'args': [{'prim': 'string'}, {'string': ''}]}], lambda v: ''),
    # False at odd positions / even steps; MAP { CDR; NOT } flips
    'bool': (('bool',), lambda i: i % 2 == 0, lambda s: s % 2 == 1, [{'prim': 'CDR'}, {'prim': 'NOT'}], lambda v: not v),
    # {} (Micheline [] — falsy itself) at even positions / steps; MAP { CDR; PUSH nat 7; CONS } makes every value non-empty
    'list': (('list', ('nat',)), lambda i: () if i % 2 == 0 else (i,), lambda s: () if s % 2 == 0 else (s, s),
             [{'prim': 'CDR'}, {'prim': 'PUSH', 'args': [{'prim': 'nat'}, {'int': '7'}]}, {'prim': 'CONS'}], lambda v: (7,) + tuple(v)),
}


def type_expr(t):
    if len(t) == 1:
        return {'prim': t[0]}
    return {'prim': t[0], 'args': [type_expr(a) for a in t[1:]]}


def set_symbols(n):
    return [(op, i) for op in ('ADD', 'DEL') for i in range(n)]


def map_symbols(n, with_map=True):
    return [(op, i) for op in ('UPD+', 'UPD-', 'GAU+', 'GAU-') for i in range(n)] + ([('MAP', 0)] if with_map else [])


def initial_masks(n):
    """initial collections: EMPTY_SET / EMPTY_MAP instruction ('empty'), and PUSH of the literal with the keys of the mask"""
    full = (1 << n) - 1
    out = ['empty', full]
    if n == 3:
        out.append(0b101)
    return out


class Env:
    def __init__(self, uni, kind):
        from pytezos.context.impl import ExecutionContext
        from pytezos.michelson.instructions.base import MichelsonInstruction
        from pytezos.michelson.types.base import MichelsonType
        self.kind_full = kind                       # 'set' | 'map' | 'map:<value type>'
        kind, _, vt = kind.partition(':')
        self.uni, self.kind, self.vt = uni, kind, vt or 'nat'
        self.t_val, self.lit_val, self.new_val, map_body, self.map_fn = VALTYPES[self.vt]
        self.vt_expr = type_expr(self.t_val)
        self.t_key, self.keys = UNIVERSES[uni]
        self.n = len(self.keys)
        self.key_expr = [R.data_to_micheline(self.t_key, k) for k in self.keys]
        self.kt = type_expr(self.t_key)
        self.coll_type = {'prim': 'set', 'args': [self.kt]} if kind == 'set' else {'prim': 'map', 'args': [self.kt, self.vt_expr]}
        self.ctx = ExecutionContext()
        self.K = MichelsonType.match(self.kt)
        self.V = MichelsonType.match(self.vt_expr)
        self.B = MichelsonType.match({'prim': 'bool'})
        self.key_objs = [self.K.from_micheline_value(e) for e in self.key_expr]
        self.true, self.false = self.B.from_micheline_value({'prim': 'True'}), self.B.from_micheline_value({'prim': 'False'})
        self.sentinel = MichelsonType.match({'prim': 'nat'}).from_micheline_value({'int': '7777'})
        m = MichelsonInstruction.match
        self.I = {p: m({'prim': p}) for p in ('UPDATE', 'GET', 'MEM', 'GET_AND_UPDATE', 'SIZE')}
        elt_t = self.kt if kind == 'set' else {'prim': 'pair', 'args': [self.kt, self.vt_expr]}
        self.nil = m({'prim': 'NIL', 'args': [elt_t]})
        self.iter = m({'prim': 'ITER', 'args': [[{'prim': 'CONS'}]]})
        self.mapi = m({'prim': 'MAP', 'args': [map_body]})
        self.empty = m({'prim': 'EMPTY_SET', 'args': [self.kt]}) if kind == 'set' else m({'prim': 'EMPTY_MAP', 'args': [self.kt, self.vt_expr]})
        self.match = m

    def vexpr(self, v):
        """Micheline of a value of the map's value type (spec notation)"""
        return R.data_to_micheline(self.t_val, v)

    def val(self, v):
        return self.V.from_micheline_value(self.vexpr(v))

    def stack(self, items):
        from pytezos.michelson.stack import MichelsonStack
        st = MichelsonStack()
        st.push(self.sentinel)
        for x in reversed(items):
            st.push(x)
        return st

    def run(self, ins, items, n_out):
        st = self.stack(items)
        ins.execute(st, [], self.ctx)
        assert len(st.items) == n_out + 1 and st.items[-1] is self.sentinel, f'{ins.prim}: stack shape {len(st.items)}'
        return st.items[:n_out]

    def literal_expr(self, idxs):
        if self.kind == 'set':
            return [self.key_expr[i] for i in idxs]
        return [{'prim': 'Elt', 'args': [self.key_expr[i], self.vexpr(self.lit_val(i))]} for i in idxs]

    def push_literal(self, idxs):
        ins = self.match({'prim': 'PUSH', 'args': [self.coll_type, self.literal_expr(idxs)]})
        return self.run(ins, [], 1)[0]

    def initial(self, mask):
        if mask == 'empty':
            return self.run(self.empty, [], 1)[0], {}
        idxs = [i for i in range(self.n) if mask >> i & 1]
        return self.push_literal(idxs), {i: (True if self.kind == 'set' else self.lit_val(i)) for i in idxs}


def ref_content(env, ref):
    return env.literal_expr(sorted(ref)) if env.kind == 'set' else \
        [{'prim': 'Elt', 'args': [env.key_expr[i], env.vexpr(ref[i])]} for i in sorted(ref)]


def _opt(env, v):
    return {'prim': 'None'} if v is None else {'prim': 'Some', 'args': [env.vexpr(v)]}


def _norm(v):
    """values of the spec in one shape (sequences as tuples) so that observed and reference values compare"""
    return tuple(_norm(x) for x in v) if isinstance(v, (list, tuple)) else v


def _parse_entries(env, exprs, as_pairs=False):
    """observed Micheline -> [(key value, nat value | True)] in the observed order (notation-independent)"""
    out = []
    for e in exprs:
        if env.kind == 'set':
            out.append((R.parse_data(env.t_key, e), True))
        elif as_pairs:
            k, v = R.parse_data(R.pair_t(env.t_key, env.t_val), e)
            out.append((k, _norm(v)))
        else:
            assert e.get('prim') == 'Elt' and len(e['args']) == 2, f'not an Elt: {e}'
            out.append((R.parse_data(env.t_key, e['args'][0]), _norm(R.parse_data(env.t_val, e['args'][1]))))
    return out


def observe(env, coll, ref):
    """complete observation of the real collection against the reference; returns (clause, why, detail) or None"""
    got_expr = coll.to_micheline_value()
    got = _parse_entries(env, got_expr)
    want = [(env.keys[i], _norm(ref[i])) for i in sorted(ref)]
    if got != want:
        idx = [env.keys.index(k) if k in env.keys else None for k, _ in got]
        if None in idx:
            why = 'holds a key outside the universe'
        elif len(set(idx)) != len(idx):
            why = 'duplicate keys'
        elif idx != sorted(idx):
            why = 'keys not in increasing order'
        elif set(idx) != set(ref):
            why = 'wrong members'
        else:
            why = 'wrong values'
        return 'content', why, f'collection is {got_expr}, reference {ref_content(env, ref)}'
    r = env.run(env.I['SIZE'], [coll], 1)[0].to_micheline_value()
    if r != {'int': str(len(ref))}:
        return 'SIZE', 'wrong size', f'SIZE gives {r}, reference {len(ref)}'
    for i in range(env.n):
        r = env.run(env.I['MEM'], [env.key_objs[i], coll], 1)[0].to_micheline_value()
        if r != {'prim': 'True' if i in ref else 'False'}:
            return 'MEM', 'wrong membership answer', f'MEM {env.key_expr[i]} gives {r}, reference {i in ref}'
        if env.kind == 'map':
            r = env.run(env.I['GET'], [env.key_objs[i], coll], 1)[0].to_micheline_value()
            if r != _opt(env, ref.get(i)):
                return 'GET', 'wrong value', f'GET {env.key_expr[i]} gives {r}, reference {_opt(env, ref.get(i))}'
    lst = env.run(env.nil, [], 1)[0]
    out = env.run(env.iter, [coll, lst], 1)[0].to_micheline_value()
    visited = list(reversed(_parse_entries(env, out, as_pairs=True)))
    if visited != want:
        return 'ITER', 'wrong iteration order or elements', f'ITER visits (in order) {list(reversed(out))}, reference {ref_content(env, ref)}'
    return None


def step(env, coll, ref, sym, stepno):
    """returns (clause, why, detail) on failure, else (coll', ref')"""
    op, i = sym
    ref2 = dict(ref)
    newval = env.new_val(stepno) if env.kind == 'map' else None
    if op in ('ADD', 'DEL'):
        coll2 = env.run(env.I['UPDATE'], [env.key_objs[i], env.true if op == 'ADD' else env.false, coll], 1)[0]
        if op == 'ADD':
            ref2[i] = True
        else:
            ref2.pop(i, None)
    elif op == 'MAP':
        coll2 = env.run(env.mapi, [coll], 1)[0]
        ref2 = {k: env.map_fn(v) for k, v in ref.items()}
    else:
        from pytezos.michelson.types import OptionType
        ov = OptionType.from_some(env.val(newval)) if op.endswith('+') else OptionType.none(env.V)
        if op.startswith('UPD'):
            coll2 = env.run(env.I['UPDATE'], [env.key_objs[i], ov, coll], 1)[0]
        else:
            prev, coll2 = env.run(env.I['GET_AND_UPDATE'], [env.key_objs[i], ov, coll], 2)
            if prev.to_micheline_value() != _opt(env, ref.get(i)):
                return 'GET_AND_UPDATE.previous', 'wrong previous value', \
                    f'GET_AND_UPDATE {env.key_expr[i]} returned {prev.to_micheline_value()}, reference {_opt(env, ref.get(i))}'
        if op.endswith('+'):
            ref2[i] = newval
        else:
            ref2.pop(i, None)
    return coll2, ref2


def _shape(env, op):
    comp = env.t_key[0] in ('pair', 'option', 'or')
    return f'{env.kind} with {"composite " + env.t_key[0] if comp else "simple"} keys'


def walk(env, mask, prefix, max_len, syms, out, counters):
    try:
        coll, ref = env.initial(mask)
    except Exception as e:
        out.append(dict(clause='literal.accepts', why='sorted literal rejected', detail=f'initial literal: {type(e).__name__}: {e}',
                        uni=env.uni, kind=env.kind_full, mask=mask, hist=[]))
        return
    counters['nodes'] += 1
    if not prefix:
        o = observe_safe(env, coll, ref)
        if o:
            out.append(dict(clause=o[0], why=o[1], detail='initial collection: ' + o[2], uni=env.uni, kind=env.kind_full, mask=mask, hist=[]))
            return
    hist = []
    for sym in prefix:
        r = _do(env, coll, ref, sym, hist, mask, out, counters)
        if r is None:
            return
        coll, ref = r
        hist = hist + [sym]
    _dfs(env, coll, ref, hist, mask, max_len, syms, out, counters)


def observe_safe(env, coll, ref):
    try:
        return observe(env, coll, ref)
    except Exception as e:
        return 'observe.raises', f'observation raises {type(e).__name__}', f'{type(e).__name__}: {e}'


def _do(env, coll, ref, sym, hist, mask, out, counters):
    counters['nodes'] += 1
    h2 = hist + [sym]
    try:
        r = step(env, coll, ref, sym, len(hist))
    except Exception as e:
        r = (f'{sym[0].rstrip("+-")}.raises', f'{sym[0].rstrip("+-")} raises {type(e).__name__}', f'{type(e).__name__}: {e}')
    if len(r) == 3:
        out.append(dict(clause=r[0], why=r[1], detail=f'history {h2}: {r[2]}', uni=env.uni, kind=env.kind_full, mask=mask, hist=h2, last=sym[0]))
        return None
    coll2, ref2 = r
    o = observe_safe(env, coll2, ref2)
    counters['observations'] += 1
    if o:
        out.append(dict(clause=o[0], why=o[1], detail=f'after history {h2}: {o[2]}', uni=env.uni, kind=env.kind_full, mask=mask, hist=h2, last=sym[0]))
        return None
    return coll2, ref2


def _dfs(env, coll, ref, hist, mask, max_len, syms, out, counters):
    if len(hist) >= max_len:
        return
    for sym in syms:
        r = _do(env, coll, ref, sym, hist, mask, out, counters)
        if r is not None:
            _dfs(env, r[0], r[1], hist + [sym], mask, max_len, syms, out, counters)


def check_literals(env, out, counters):
    """every key sequence of length 0..3 over the universe: accepted iff strictly increasing"""
    for ln in range(0, 4):
        for idxs in itertools.product(range(env.n), repeat=ln):
            counters['literals'] += 1
            ok_ref = all(a < b for a, b in zip(idxs, idxs[1:]))
            try:
                coll = env.push_literal(list(idxs))
                accepted = True
            except Exception as e:
                accepted, err = False, f'{type(e).__name__}: {e}'
            if accepted != ok_ref:
                kind = ('duplicate' if len(set(idxs)) != len(idxs) else 'unsorted') if not ok_ref else 'sorted'
                out.append(dict(clause='literal.rejects' if not ok_ref else 'literal.accepts',
                                why=f'{kind} literal {"accepted" if accepted else "rejected"}',
                                detail=f'PUSH {env.kind} literal with keys {[env.key_expr[i] for i in idxs]}: '
                                       + ('accepted' if accepted else f'rejected ({err})'),
                                uni=env.uni, kind=env.kind_full, mask=None, hist=[], literal=list(idxs)))
            elif accepted:
                ref = {i: (True if env.kind == 'set' else env.lit_val(i)) for i in idxs}
                o = observe_safe(env, coll, ref)
                if o:
                    out.append(dict(clause=o[0], why=o[1], detail=f'literal {list(idxs)}: {o[2]}', uni=env.uni, kind=env.kind_full,
                                    mask=None, hist=[], literal=list(idxs)))


def wclass(x, env_t):
    comp = env_t[0] in ('pair', 'option', 'or')
    keyshape = env_t[0] if comp else 'simple'
    last = x.get('last') or ('literal' if x.get('literal') is not None else 'initial')
    return f"{x['kind']} / {keyshape} keys / after {last.rstrip('+-')}: {x['why']}"


def work(task):
    uni, kind, mask, prefix, max_len, with_map, literals = task
    env = Env(uni, kind)
    out = []
    counters = dict(nodes=0, observations=0, literals=0)
    if literals:
        check_literals(env, out, counters)
    else:
        syms = set_symbols(env.n) if env.kind == 'set' else map_symbols(env.n, with_map)
        walk(env, mask, [tuple(s) for s in prefix], max_len, syms, out, counters)
    for x in out:
        x['wclass'] = wclass(x, env.t_key)
    return task, counters, out


def replay_case(case):
    env = Env(case['uni'], case['kind'])
    out = []
    counters = dict(nodes=0, observations=0, literals=0)
    if case.get('literal') is not None:
        check_literals(env, out, counters)
        out = [x for x in out if x.get('literal') == list(case['literal'])]
    else:
        mask = case['mask']
        hist = [tuple(s) for s in case['hist']]
        walk(env, mask, hist, len(hist), [], out, counters)
    return out
