"""Observation of pytezos typed values as abstract values of bounded/typegen.py (used by C11-C13).

`denote(ty, v)` walks a pytezos MichelsonType *instance* guided by our own type tree and returns the
abstract value it denotes.  It uses the public accessors of the value classes (int(), str(), bytes(),
bool(), iteration, is_left/resolve, is_none/get_some, to_comb) plus `.ptr` / `.value` where no
accessor exists.  A value that cannot be observed raises ObserveError (harness problem, never a
violation by itself).
"""
from __future__ import annotations
import json
from bounded.typegen import Ty, INT_LIKE, BYTES_LIKE, B58_LIKE, canon_value


class ObserveError(Exception):
    pass


def make_type(ty: Ty):
    """our type tree -> pytezos type class, through the real type parser."""
    from pytezos.michelson.types.base import MichelsonType
    return MichelsonType.match(ty.expr())


def denote(ty: Ty, v):
    from pytezos.michelson.types.base import MichelsonType
    if not isinstance(v, MichelsonType):
        raise ObserveError(f'not a typed value: {v!r} at {ty}')
    p = ty.prim
    if v.prim != p:
        raise ObserveError(f'value of prim {v.prim} where {p} expected')
    if p == 'unit':
        return ('Unit',)
    if p == 'bool':
        return bool(v)
    if p in INT_LIKE:
        return int(v)
    if p == 'string' or p in B58_LIKE:
        return str(v)
    if p in BYTES_LIKE:
        return bytes(v)
    if p == 'pair':
        items = tuple(v)
        if len(items) != 2:
            raise ObserveError(f'pair with {len(items)} items')
        return ('Pair', denote(ty.left(), items[0]), denote(ty.right(), items[1]))
    if p == 'or':
        l, r = v.is_left(), v.is_right()
        if l == r:
            raise ObserveError('or value is neither/both Left and Right')
        return ('Left', denote(ty.args[0], v.resolve())) if l else ('Right', denote(ty.args[1], v.resolve()))
    if p == 'option':
        return ('None',) if v.is_none() else ('Some', denote(ty.args[0], v.get_some()))
    if p == 'list':
        return ('List', tuple(denote(ty.args[0], x) for x in v))
    if p == 'set':
        return ('Set', tuple(denote(ty.args[0], x) for x in v))
    if p == 'map':
        return ('Map', tuple((denote(ty.args[0], k), denote(ty.args[1], x)) for k, x in v))
    if p == 'big_map':
        if v.ptr is not None:
            if len(list(v)):
                raise ObserveError('big_map with both an id and literal items')
            return ('BigMapId', v.ptr)
        return ('BigMap', tuple((denote(ty.args[0], k), denote(ty.args[1], x)) for k, x in v))
    if p == 'lambda':
        return ('Lambda', json.dumps(v.to_literal().as_micheline_expr(), sort_keys=True))
    if p == 'ticket':
        comb = tuple(v.to_comb().iter_comb())
        if len(comb) != 3:
            raise ObserveError('ticket comb')
        return ('Ticket', str(comb[0]), denote(ty.args[0], comb[1]), int(comb[2]))
    raise ObserveError(f'cannot observe {p}')


def same_value(ty: Ty, v, aval):
    """(equal?, observed) — equality of denotations modulo base58 notation (edsig../sig..)."""
    try:
        obs = denote(ty, v)
    except ObserveError as e:
        # the value under observation was produced by the code under test: a value that is not a well-formed value of the
        # expected type does not denote the expected value (reported as a failed `denotes`/`equal` clause, not as a harness crash)
        return False, f'<not a well-formed value of the type: {e}>'
    return canon_value(ty, obs) == canon_value(ty, aval), obs


def short(x, n=300):
    s = repr(x)
    return s if len(s) <= n else s[:n] + f'...(+{len(s) - n})'
