"""C23 — operation groups: sign / hash / binary_payload on the real OperationGroup, all forgeable kinds x
source key kinds x chain ids.  `eval_case(case)` -> list of {oid, ok, info, wclass}.

No RPC is needed by sign/hash/binary_payload/forge(validate=False): the group is built on an
ExecutionContext(key=...) without shell; a guard stub makes any RPC attempt an error of the harness.
"""
import glob
import json
import os

from bounded import crypto_common as CC
from specs import crypto_b58 as B58
from specs import crypto_sig as SIG

O_SAFE = 'OperationGroup.sign::safety.no_exception'
O_SIG = 'OperationGroup.sign::ensures.signature_verifies_over_watermarked_forged_bytes'
O_FRAME = 'OperationGroup.sign::ensures.returns_same_group_with_signature'
O_HASH = 'OperationGroup.hash::ensures.b58_o_of_blake2b256(forged||raw_signature)'
O_PAYLOAD = 'OperationGroup.binary_payload::ensures.forged||raw_signature'
O_UNSIGNED = 'OperationGroup.binary_payload::raises.ValueError_when_unsigned'
O_REC = 'OperationGroup.hash::ensures.recorded_mainnet_hashes'
O_RESIGN = 'OperationGroup.sign::ensures.already_signed_group_is_signed_again_over_its_current_bytes'
O_REUSE = 'OperationGroup.sign::ensures.same_object_edited_in_place_is_signed_and_hashed_over_its_current_bytes'
O_SIGKIND = 'OperationGroup.hash::ensures.same_hash_and_payload_for_the_curve_specific_signature_notation'

# Tezos: consensus operations are signed under 0x02 || chain_id (property statement); everything else 0x03.
CONSENSUS_KINDS = {'endorsement', 'endorsement_with_slot', 'preendorsement', 'attestation', 'preattestation'}

TZ = {'ed': 'tz1', 'sp': 'tz2', 'p2': 'tz3', 'BL': 'tz4'}
DATA_DIR = os.path.join(os.environ.get('VERIF_REPO', '/repo'), 'tests', 'unit_tests', 'test_operation', 'data')

BRANCHES = ['BLxYYNynCveDcvCeTAjg9UV5gMLqXNy4uhWH4w4y3YTtC93QG4v', B58.encode('B', bytes(32)), B58.encode('B', b'\xff' * 32)]
CHAIN_IDS = ['NetXdQprcVkpaWU', 'NetXgbcrNtXD2yA', B58.encode('Net', bytes(4)), B58.encode('Net', b'\xff' * 4)]
OTHER = 'tz1RDJ7MMvN9J4tD5A6EXVRtX3WHjuGA3qbu'
KT = 'KT1Uau1xTG3dPxSuJKEM1TcRjq4mjeU3kJ64'
DUMMY_SIG = B58.encode('sig', bytes(64))
STALE_HASH = 'oo6JPEAy8VuMRGaFuMmLNFFGdJgiaKfnmT1CpHJfKP3Ye5ZahiP'
PINS = [None, 'other', 'same']


def _res(oid, ok, info='', wclass=''):
    return dict(oid=oid, ok=bool(ok), info=info, wclass=wclass)


def _mgr(kind, src, i, **kw):
    d = dict(kind=kind, source=src, fee=str(1000 + i), counter=str(7 + i), gas_limit=str(1040000 - i), storage_limit=str(60000 * (i % 2)))
    d.update(kw)
    return d


def content(kind: str, variant: int, src: str, pk: str):
    """Sample contents per forgeable kind (field layout as produced by the RPC / octez-client JSON)."""
    v = variant
    if kind == 'failing_noop':
        return dict(kind=kind, arbitrary=['', 'msg1', 'Tezos Signed Message: ' + 'x' * 300][v % 3])
    if kind == 'activate_account':
        return dict(kind=kind, pkh=OTHER, secret=('0f' * 20 if v % 2 else '00' * 20))
    if kind == 'endorsement':
        return dict(kind=kind, level=[0, 1, 2 ** 31 - 1][v % 3])
    if kind == 'endorsement_with_slot':
        return dict(kind=kind, endorsement=dict(branch=BRANCHES[v % 3], operations=dict(kind='endorsement', level=12345 + v), signature=DUMMY_SIG), slot=[0, 7, 255][v % 3])
    if kind == 'reveal':
        return _mgr(kind, src, v, public_key=pk)
    if kind == 'transaction':
        if v % 3 == 0:
            return _mgr(kind, src, v, amount='0', destination=OTHER)
        if v % 3 == 1:
            return _mgr(kind, src, v, amount='123456789', destination=KT, parameters=dict(entrypoint='default', value={'prim': 'Unit'}))
        return _mgr(kind, src, v, amount='1', destination=KT, parameters=dict(entrypoint='do', value=[{'int': '-5'}, {'string': 'x'}, {'bytes': '00ff'}]))
    if kind == 'origination':
        script = dict(code=[{'prim': 'parameter', 'args': [{'prim': 'unit'}]}, {'prim': 'storage', 'args': [{'prim': 'unit'}]},
                            {'prim': 'code', 'args': [[{'prim': 'CDR'}, {'prim': 'NIL', 'args': [{'prim': 'operation'}]}, {'prim': 'PAIR'}]]}],
                      storage={'prim': 'Unit'})
        return _mgr(kind, src, v, balance=str(v * 1000), script=script, **({'delegate': OTHER} if v % 2 else {}))
    if kind == 'delegation':
        return _mgr(kind, src, v, **({'delegate': OTHER} if v % 2 == 0 else {}))
    if kind == 'register_global_constant':
        return _mgr(kind, src, v, value=[{'prim': 'Unit'}, {'prim': 'Pair', 'args': [{'int': '1'}, {'string': 'a'}]}][v % 2])
    if kind == 'transfer_ticket':
        return _mgr(kind, src, v, ticket_contents={'string': 'Ticket'}, ticket_ty={'prim': 'string'}, ticket_ticketer=KT,
                    ticket_amount=str(1 + v), destination='KT1JMtdk62C4uht6sxhrgTfw9rq6BaLcyo74', entrypoint=['save', 'default'][v % 2])
    if kind == 'smart_rollup_add_messages':
        return _mgr(kind, src, v, message=[['00'], ['', 'ff' * 40], ['ad25', 'cd', '5d83']][v % 3])
    if kind == 'smart_rollup_execute_outbox_message':
        return _mgr(kind, src, v, rollup='sr19mSGaPfBZTbePsa7S4M7Um39Q4EZxYaQb', cemented_commitment='src137yGQc32cb1tpimBjd3L1TqKycavBZabuY8uhTRvW2n4cqtGyH',
                    output_proof=['', '030002', 'ab' * 200][v % 3])
    raise KeyError(kind)


FORGEABLE = ['failing_noop', 'activate_account', 'endorsement', 'endorsement_with_slot', 'reveal', 'transaction', 'origination',
             'delegation', 'register_global_constant', 'transfer_ticket', 'smart_rollup_add_messages', 'smart_rollup_execute_outbox_message']
MANAGER = FORGEABLE[4:]


class _NoRpc:
    def __getattr__(self, item):
        raise RuntimeError(f'harness: unexpected RPC access .{item} in sign/hash/binary_payload')


def pinned_chain(pin, chain_id):
    """chain id pinned on the CLIENT context (ExecutionContext(chain_id=...)): None, another chain than the group's, or the same"""
    if pin == 'other':
        return next(c for c in CHAIN_IDS if c != chain_id)
    return chain_id if pin == 'same' else None


def build_group(curve, secret, kinds, variant, chain_id, branch, pin=None):
    from pytezos.context.impl import ExecutionContext
    from pytezos.crypto.key import Key
    from pytezos.operation.group import OperationGroup
    key = Key.from_encoded_key(CC.encoded_sk(curve, secret))
    pk = SIG.public_key(curve, secret)
    src = B58.pkh(curve, pk)
    contents = [content(k, variant + i, src, B58.encode(curve + 'pk', pk)) for i, k in enumerate(kinds)]
    ctx = ExecutionContext(key=key, shell=_NoRpc(), chain_id=pinned_chain(pin, chain_id))
    return OperationGroup(context=ctx, contents=contents, branch=branch, chain_id=chain_id,
                          protocol='PtMumbai2TmsJHNGRkD8v8YDbtao7BLUC3wjASn1inAKLFCjaH1'), pk


def watermark(kinds, chain_id):
    cons = [k in CONSENSUS_KINDS for k in kinds]
    assert all(cons) or not any(cons)
    if cons[0]:
        kind, raw = B58.decode(chain_id)
        assert kind == 'Net'
        return b'\x02' + raw
    return b'\x03'


def verifies(curve, secret, pk, msg, sig, full=True):
    """-> (ok, kind, raw): `sig` is a signature notation of the curve's scheme that verifies under the key over msg.
    tz1-tz3: independent verifier; tz4: the deterministic reference signature (and, when `full`, the real Key.verify)."""
    kind, raw = B58.decode(sig)
    good_kind = kind in ('sig', curve + 'sig') and len(raw) == B58.SIG_LEN[curve]
    ind = SIG.verify(curve, pk, msg, raw) if good_kind else False
    if ind is None:   # BLS: deterministic reference + the real verify
        from pytezos.crypto.key import Key
        ref = SIG.bls_aug_sign_reference(secret, msg)
        v = True
        if full:
            try:
                v = Key.from_encoded_key(B58.encode('BLpk', pk)).verify(sig, msg)
            except Exception as e:  # noqa
                v = CC.exc_text(e)
        ind = (ref == raw) and v is True
    return ind is True, kind, raw


def eval_group(case):
    curve, secret = case['curve'], bytes.fromhex(case['secret'])
    kinds, variant, chain_id, branch = case['kinds'], case['variant'], case['chain_id'], case['branch']
    pin = case.get('pin')
    opg, pk = build_group(curve, secret, kinds, variant, chain_id, branch, pin)
    tag = f'source={TZ[curve]}'
    shape = f'{"+".join(kinds)} ({TZ[curve]} source, chain {chain_id}' + (f', client context pinned to {pinned_chain(pin, chain_id)})' if pin else ')')
    out = []
    try:
        forged = bytes.fromhex(opg.forge())
    except Exception as e:  # noqa     forging is C06's subject; a kind that cannot be forged for this source is not judged here
        return [dict(oid='skip', ok=True, info='forge raised ' + CC.exc_text(e), wclass='')]
    # unsigned group has no payload
    try:
        opg.binary_payload()
        out.append(_res(O_UNSIGNED, False, f'binary_payload() of the unsigned group {shape} returned', tag))
    except ValueError:
        out.append(_res(O_UNSIGNED, True))
    except Exception as e:  # noqa
        out.append(_res(O_UNSIGNED, False, f'binary_payload() of the unsigned group raised {CC.exc_text(e)}', tag))
    # ... also when the unsigned group remembers the hash of an earlier injection (there is no signature to hash)
    try:
        h0 = opg._spawn(opg_hash=STALE_HASH, opg_result={'hash': STALE_HASH}).hash()
        out.append(_res(O_UNSIGNED, False, f'hash() of the unsigned group {shape} carrying a remembered opg_hash returned {h0}', tag + ' remembered hash'))
    except ValueError:
        out.append(_res(O_UNSIGNED, True))
    except Exception as e:  # noqa
        out.append(_res(O_UNSIGNED, False, f'hash() of the unsigned group carrying a remembered opg_hash raised {CC.exc_text(e)}', tag + ' remembered hash'))
    before = json.dumps(opg.json_payload(), sort_keys=True)
    try:
        signed = opg.sign()
    except Exception as e:  # noqa
        return out + [_res(O_SAFE, False, f'sign() of {shape} raised {CC.exc_text(e)}', f'{tag} {CC.exc_text(e)}')]
    out.append(_res(O_SAFE, True))
    sig = signed.signature
    # (whether the receiver itself stays unsigned is API style, not demanded by the property)
    ok = (json.dumps(dict(signed.json_payload(), signature=None), sort_keys=True) == before
          and signed.branch == branch and signed.chain_id == chain_id
          and bytes.fromhex(signed.forge()) == forged and isinstance(sig, str))
    out.append(_res(O_FRAME, ok, f'sign() must return a group with the same protocol/branch/contents carrying the signature; signature={sig!r:.40}', tag))
    try:
        kind, raw = B58.decode(sig)
    except Exception as e:  # noqa
        return out + [_res(O_SIG, False, f'signature {sig!r} is not a Tezos signature encoding ({e})', tag + ' undecodable')]
    wm = watermark(kinds, chain_id)
    msg = wm + forged
    ind, kind, raw = verifies(curve, secret, pk, msg, sig)
    out.append(_res(O_SIG, ind is True,
                    f'{shape}: signature {sig[:14]}.. (kind {kind}, {len(raw)} bytes) does not verify under the source key over '
                    f'watermark 0x{wm.hex()} || forged bytes ({len(forged)} bytes)', f'{tag} watermark=0x{wm[:1].hex()}'))
    # hash and payload
    try:
        h = signed.hash()
    except Exception as e:  # noqa
        h = 'raised ' + CC.exc_text(e)
    want_h = B58.operation_hash(forged, raw)
    out.append(_res(O_HASH, h == want_h, f'{shape}: hash() = {h}, expected {want_h}', tag))
    try:
        bp = signed.binary_payload()
        okp = bytes(bp) == forged + raw
        infop = f'binary_payload() = {len(bp)} bytes, expected forged ({len(forged)}) || raw signature ({len(raw)})'
    except Exception as e:  # noqa
        okp, infop = False, 'binary_payload() raised ' + CC.exc_text(e)
    out.append(_res(O_PAYLOAD, okp, f'{shape}: {infop}', tag))
    # the same signature in the curve-specific notation (edsig / spsig1 / p2sig: what older nodes and remote signers return;
    # sign() itself always emits the generic `sig` for tz1-tz3): same raw bytes, hence same payload and hash
    if curve != 'BL':
        try:
            alt = signed._spawn(signature=B58.encode(curve + 'sig', raw))
            h_alt, bp_alt = alt.hash(), bytes(alt.binary_payload())
            out.append(_res(O_SIGKIND, h_alt == want_h and bp_alt == forged + raw,
                            f'{shape}: with the signature written as {alt.signature[:8]}.. hash() = {h_alt} (expected {want_h}), payload {len(bp_alt)} bytes '
                            f'(expected {len(forged) + len(raw)})', tag + f' {curve}sig notation'))
        except Exception as e:  # noqa
            out.append(_res(O_SIGKIND, False, f'{shape}: hash()/binary_payload() with the signature written as {curve}sig raised {CC.exc_text(e)}',
                            tag + f' {curve}sig notation'))
    # re-signing: a group that already carries a signature whose bytes changed afterwards (another branch: fill() after a
    # refused injection; _spawn copies the old signature) must be signed AGAIN over its current bytes
    try:
        branch2 = next(b for b in BRANCHES if b != branch)
        moved = signed._spawn(branch=branch2, opg_hash=STALE_HASH)
        resigned = moved.sign()
        forged2 = bytes.fromhex(resigned.forge())
        ok2, kind2, raw2 = verifies(curve, secret, pk, wm + forged2, resigned.signature, full=False)
        out.append(_res(O_RESIGN, ok2 and forged2 != forged and resigned.chain_id == chain_id,
                        f'{shape}: the signed group moved to branch {branch2[:10]}.. and signed again carries signature {str(resigned.signature)[:14]}.. which '
                        f'does not verify over watermark 0x{wm.hex()} || its forged bytes' + (' (it is the old signature)' if resigned.signature == sig else ''),
                        tag + ' re-signed'))
    except Exception as e:  # noqa
        out.append(_res(O_RESIGN, False, f'{shape}: signing an already signed group again raised {CC.exc_text(e)}', tag + ' re-signed'))
    # ONE group object re-used across in-place edits (contents are plain lists / dicts, branch a plain attribute): forge() and sign()
    # it, edit it, sign() again - signature and hash must follow the CURRENT fields (forged independently of the object by the
    # module function forge_operation_group on the current branch / contents)
    out += reuse_clauses(case, curve, secret, pk, kinds, variant, chain_id, branch, pin, wm, shape, tag)
    # history: a group DERIVED from an already injected one (send() returns a group carrying the node's hash; _spawn copies every
    # field) and signed again must be hashed from its own bytes, not from what was remembered
    try:
        sent = signed._spawn(opg_hash=STALE_HASH, opg_result={'hash': 'stale'})
        again = sent._spawn(branch=branch).sign()
        _, raw2 = B58.decode(again.signature)
        h2 = again.hash()
        want2 = B58.operation_hash(bytes.fromhex(again.forge()), raw2)
        out.append(_res(O_HASH, h2 == want2, f'{shape}: group re-derived from an injected group (opg_hash remembered): hash() = {h2}, expected {want2}',
                        tag + ' derived-from-injected'))
    except Exception as e:  # noqa
        out.append(_res(O_HASH, False, f'{shape}: re-signing a group derived from an injected one raised {CC.exc_text(e)}', tag + ' derived-from-injected'))
    return out


EDIT_FIELD = {'failing_noop': ('arbitrary', 'edited in place'), 'activate_account': ('secret', 'ab' * 20), 'endorsement': ('level', 424242),
              'endorsement_with_slot': ('slot', 99)}


def reuse_clauses(case, curve, secret, pk, kinds, variant, chain_id, branch, pin, wm, shape, tag):
    from pytezos.operation.forge import forge_operation_group
    out = []
    src = B58.pkh(curve, pk)
    edits = ['field', 'append', 'branch']
    if curve == 'BL':       # py_ecc budget: one edit per tz4 group (rotating), all three for the other curves
        edits = [edits[(variant + len(kinds) + len(chain_id)) % 3]]
    try:
        opg, _ = build_group(curve, secret, kinds, variant, chain_id, branch, pin)
        opg.forge()
        if curve != 'BL':
            opg.sign()
        for ed in edits:
            if ed == 'field':
                name, val = EDIT_FIELD.get(kinds[0], ('fee', '31337'))
                opg.contents[0][name] = val
            elif ed == 'append':
                opg.contents.append(content(kinds[-1], variant + 7, src, B58.encode(curve + 'pk', pk)))
            else:
                opg.branch = next(b for b in BRANCHES if b != opg.branch)
            signed = opg.sign()
            cur = bytes(forge_operation_group({'branch': opg.branch, 'contents': opg.contents}))
            okv, kind, raw = verifies(curve, secret, pk, wm + cur, signed.signature, full=False)
            same = signed.branch == opg.branch and signed.contents == opg.contents
            h, want_h = signed.hash(), B58.operation_hash(cur, raw)
            out.append(_res(O_REUSE, okv and same and h == want_h and bytes(signed.binary_payload()) == cur + raw,
                            f'{shape}: the same group object after forge()/sign() and an in-place edit ({ed}): '
                            + ('the new signature does not verify over watermark || forged bytes of the current fields' if not okv else
                               f'hash() = {h}, expected {want_h} over the current bytes' if same else 'the signed copy does not carry the current fields'),
                            tag + f' same object, edit {ed}'))
            # the signed copy itself: hashed, then its signature replaced in place, hashed again
            other_sig = B58.encode('BLsig' if curve == 'BL' else 'sig', bytes(reversed(raw)))
            signed.signature = other_sig
            h2, want2 = signed.hash(), B58.operation_hash(cur, bytes(reversed(raw)))
            out.append(_res(O_REUSE, h2 == want2 and bytes(signed.binary_payload()) == cur + bytes(reversed(raw)),
                            f'{shape}: signed copy hashed, signature replaced in place, hashed again: hash() = {h2}, expected {want2}',
                            tag + ' same object, signature replaced'))
    except Exception as e:  # noqa
        out.append(_res(O_REUSE, False, f'{shape}: re-using one group object across in-place edits raised {CC.exc_text(e)}', tag + ' same object raises'))
    return out


def recorded_files():
    return sorted(f for f in glob.glob(os.path.join(DATA_DIR, 'o*.json')))


def eval_recorded(case):
    """Mainnet/mumbainet operations recorded in /repo/tests: hash() must equal the recorded operation hash
    (this also validates specs.crypto_b58.operation_hash against Octez)."""
    from pytezos.context.impl import ExecutionContext
    from pytezos.operation.group import OperationGroup
    path = os.path.join(DATA_DIR, case['file'])
    data = json.loads(open(path).read())
    want = data.get('hash') or case['file'][:-5]
    contents = [{k: v for k, v in c.items() if k != 'metadata'} for c in data['contents']]
    opg = OperationGroup(context=ExecutionContext(shell=_NoRpc()), contents=contents, branch=data['branch'],
                         chain_id=data.get('chain_id'), protocol=data.get('protocol'), signature=data['signature'])
    try:
        forged = bytes.fromhex(opg.forge())
        h = opg.hash()
    except Exception as e:  # noqa
        return [_res(O_REC, False, f'{case["file"]}: raised {CC.exc_text(e)}', 'recorded raises')]
    spec_h = B58.operation_hash(forged, B58.decode(data['signature'])[1])
    if spec_h != want:
        # the recorded artefact contradicts oracle-on-pytezos-forging: either forging (C06) or the oracle; not judged here
        return [dict(oid='skip', ok=True, info=f'{case["file"]}: oracle hash {spec_h} != recorded {want} (forging differs?)', wclass='')]
    return [_res(O_REC, h == want, f'{case["file"]}: hash() = {h}, recorded {want}', 'recorded')]


def eval_case(case):
    return eval_recorded(case) if case['k'] == 'recorded' else eval_group(case)


def eval_chunk(chunk):
    return [(c, eval_case(c)) for c in chunk]


def enumerate_cases(tier, seed=0):
    thorough = tier == 'thorough'
    cases = [dict(k='recorded', file=os.path.basename(f)) for f in recorded_files()]
    bl_cases = []
    for curve in CC.CURVES:
        bl = curve == 'BL'
        nk = (2 if bl else 4) if thorough else (1 if bl else 2)
        secrets = CC.secrets_of(curve, 5, seed)
        secrets = [secrets[0], secrets[3], secrets[1], secrets[4]][:nk]
        for ki, secret in enumerate(secrets):
            groups = [[k] for k in FORGEABLE]
            groups += [['reveal', 'transaction'], ['transaction', 'transaction', 'delegation'], ['endorsement', 'endorsement'],
                       ['reveal', 'origination', 'transfer_ticket', 'register_global_constant']]
            if thorough and not bl:
                groups += [[a, b] for a in MANAGER for b in MANAGER if a != b][::3]
            if bl and not thorough:
                # py_ecc budget (about 1 s per group): the manager kinds share one signing path, keep a subset for tz4
                groups = [['failing_noop'], ['endorsement'], ['endorsement_with_slot'], ['reveal'], ['transaction'], ['origination'],
                          ['smart_rollup_add_messages'], ['reveal', 'transaction'], ['endorsement', 'endorsement']]
            for gi, kinds in enumerate(groups):
                consensus = kinds[0] in CONSENSUS_KINDS
                if bl:      # py_ecc budget: sign + reference signature + verify ~ 0.6 s per group
                    nvar = 3 if (thorough and ki == 0) else 1
                else:
                    nvar = 3 if (thorough or len(kinds) == 1) else 1
                for variant in range(nvar):
                    if consensus:
                        chains = CHAIN_IDS if (not bl or thorough) else ([CHAIN_IDS[0], CHAIN_IDS[3]] if len(kinds) == 1 and kinds[0] == 'endorsement' else [CHAIN_IDS[1]])
                    else:
                        chains = CHAIN_IDS[:2] if (thorough and not bl) else [CHAIN_IDS[(gi + variant) % 2]]
                    for chain_id in chains:
                        # chain id pinned on the client context: None / another chain / the group's (rotating; 'other' first for consensus kinds)
                        pin = PINS[(gi + variant + ki + CHAIN_IDS.index(chain_id) + (1 if consensus else 0)) % 3]
                        c = dict(k='group', curve=curve, secret=secret.hex(), kinds=kinds, variant=variant, chain_id=chain_id,
                                 branch=BRANCHES[(gi + variant + ki) % 3], pin=pin)
                        (bl_cases if bl else cases).append(c)
    chunks = [[c] for c in bl_cases] + [cases[i:i + 40] for i in range(0, len(cases), 40)]
    return chunks
