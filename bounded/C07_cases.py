"""C07 — elementary cases and their evaluation against the real Key.sign / Key.verify / CHECK_SIGNATURE.

An elementary case is a JSON-able dict; `eval_case(case)` calls the real functions and returns a list
of obligation results  {oid, ok, info, wclass}.  Replay = evaluate the same case again.
"""
import functools

from bounded import crypto_common as CC
from specs import crypto_b58 as B58
from specs import crypto_sig as SIG

SPECIFIC = {'ed': 'edsig', 'sp': 'spsig', 'p2': 'p2sig', 'BL': 'BLsig'}

O_SAFE = 'Key.sign::safety.no_exception'
O_PREFIX = 'Key.sign::ensures.prefix_and_length'
O_VERIFIES = 'Key.sign::ensures.verify_accepts'
O_INDEP = 'Key.sign::ensures.independent_implementation_accepts'
O_DIGEST = 'Key.verify::ensures.accepts_independent_signature'
O_REJ = 'Key.verify::raises.ValueError_on_{}'
O_CHK = 'CHECK_SIGNATURE::ensures.same_verdict_as_verify'
O_SEQ = 'Key.verify::ensures.verdict_independent_of_call_history'
O_SEQ_SIGN = 'Key.sign::ensures.result_independent_of_call_history'
O_SEQ_CHK = 'CHECK_SIGNATURE::ensures.verdict_independent_of_call_history'


def expected_kind(curve: str, generic: bool) -> str:
    """Octez `Signature.to_b58check`: `sig` is the generic encoding of a 64-byte signature; a 96-byte BLS
    signature only has the `BLsig` encoding, so that is what a generic request must produce for tz4."""
    if generic and SIG_LEN(curve) == 64:
        return 'sig'
    return SPECIFIC[curve]


def SIG_LEN(curve):
    return B58.SIG_LEN[curve]


def form_of(msg: bytes, form: str):
    if form == 'bytes':
        return msg
    if form == 'hex':
        return msg.hex()
    if form == '0xhex':
        return '0x' + msg.hex()
    if form == 'HEX':            # a hex string is a hex string in either letter case (bytes.fromhex reads both)
        return msg.hex().upper()
    if form == '0xHEX':
        return '0x' + msg.hex().upper()
    raise KeyError(form)


@functools.lru_cache(maxsize=256)
def _key(curve: str, secret: bytes):
    from pytezos.crypto.key import Key
    return Key.from_encoded_key(CC.encoded_sk(curve, secret))


@functools.lru_cache(maxsize=256)
def _pubkey(curve: str, pk: bytes):
    from pytezos.crypto.key import Key
    return Key.from_encoded_key(B58.encode(curve + 'pk', pk))


@functools.lru_cache(maxsize=512)
def _sign(curve: str, secret: bytes, msg, generic: bool):
    """-> ('ok', signature) | ('exc', text)"""
    try:
        return 'ok', _key(curve, secret).sign(msg, generic=generic)
    except Exception as e:  # noqa
        return 'exc', CC.exc_text(e)


@functools.lru_cache(maxsize=64)
def _bls_ref(secret: bytes, msg: bytes):
    return SIG.bls_aug_sign_reference(secret, msg)


def verify_verdict(key, sig, msg):
    try:
        r = key.verify(sig, msg)
    except ValueError as e:
        return 'V', str(e)[:80]
    except Exception as e:  # noqa
        return 'X', CC.exc_text(e)
    return ('T', '') if r is True else ('R', repr(r))


def check_signature_verdict(pk_b58: str, sig: str, msg: bytes):
    """-> 'T' | 'F' | 'unbuildable' | 'X:<exc>'"""
    from pytezos.michelson.instructions.crypto import CheckSignatureInstruction
    from pytezos.michelson.types import BoolType, BytesType, KeyType, SignatureType
    try:
        items = (KeyType.from_value(pk_b58), SignatureType.from_value(sig), BytesType.from_value(msg))
    except Exception:  # noqa  (assertion wrapped in MichelsonRuntimeError: not a well-formed Michelson value)
        return 'unbuildable'
    try:
        (res,) = CC.run_instr(CheckSignatureInstruction, *items)
    except Exception as e:  # noqa
        return 'X:' + CC.exc_text(e)
    if not isinstance(res, BoolType):
        return 'X:non-bool ' + repr(res)
    return 'T' if bool(res) else 'F'


def _res(oid, ok, info='', wclass=''):
    return dict(oid=oid, ok=bool(ok), info=info, wclass=wclass)


# ------------------------------------------------------------------------------------------- sign
def eval_sign(case):
    curve, secret, msg = case['curve'], bytes.fromhex(case['secret']), bytes.fromhex(case['msg'])
    generic, form = case['generic'], case['form']
    m = form_of(msg, form)
    out = []
    st, sig = _sign(curve, secret, m, generic)
    if st != 'ok':
        return [_res(O_SAFE, False, f'Key.sign(curve={curve}, generic={generic}, message form {form}, {len(msg)} bytes) raised {sig}',
                     f'curve={curve} generic={generic} {sig}')]
    out.append(_res(O_SAFE, True))
    tag = f'curve={curve} generic={generic} form={form}'
    # prefix / length, decoded with the independent base58
    want = expected_kind(curve, generic)
    try:
        kind, raw = B58.decode(sig) if isinstance(sig, str) else (None, b'')
    except ValueError as e:
        kind, raw = f'undecodable({e})', b''
    ok = isinstance(sig, str) and kind == want and len(raw) == SIG_LEN(curve) and sig.startswith(want)
    out.append(_res(O_PREFIX, ok, f'sign -> {sig!r}: decoded kind {kind}, {len(raw)} bytes; contract: kind {want}, {SIG_LEN(curve)} bytes', tag))
    if not ok:
        return out
    # the real verify accepts it: secret key object, public-only key object, every message form
    pk = SIG.public_key(curve, secret)
    bad = []
    full = case.get('full', True)      # BLS quick tier: one verification per signature (py_ecc pairings are slow)
    keys = (('secret', _key(curve, secret)), ('public', _pubkey(curve, pk))) if full else (('public', _pubkey(curve, pk)),)
    for kname, key in keys:
        for f2 in ([form, 'bytes'] if (form != 'bytes' and full) else [form]):
            v, info = verify_verdict(key, sig, form_of(msg, f2))
            if v != 'T':
                bad.append(f'{kname} key, message form {f2}: {v} {info}')
    if full:      # the signature argument is Union[str, bytes]: the same base58 text as bytes
        v, info = verify_verdict(_pubkey(curve, pk), sig.encode(), msg)
        if v != 'T':
            bad.append(f'public key, signature passed as bytes: {v} {info}')
    out.append(_res(O_VERIFIES, not bad, f'Key.verify(sign(m), m) not True: {bad}', tag))
    # an independent implementation accepts it over the Tezos payload
    ind = SIG.verify(curve, pk, msg, raw)
    if ind is None:  # BLS: deterministic scheme, compare with the reference composition
        ref = _bls_ref(secret, msg)
        out.append(_res(O_INDEP, ref == raw, f'BLS AUG reference signature {ref.hex()[:24]}.. != produced {raw.hex()[:24]}..', tag))
    else:
        out.append(_res(O_INDEP, ind is True, f'independent {curve} verification over Blake2b-256(message) rejects {sig}', tag))
    # CHECK_SIGNATURE gives the same verdict
    if full or form == 'bytes':
        cs = check_signature_verdict(B58.encode(curve + 'pk', pk), sig, msg)
        out.append(_res(O_CHK, cs == 'T', f'CHECK_SIGNATURE -> {cs} on a signature Key.verify accepts', tag))
    return out


# ----------------------------------------------------------------------------------------- reject
def _flip(b: bytes, bit: int) -> bytes:
    a = bytearray(b)
    a[bit // 8] ^= 1 << (bit % 8)
    return bytes(a)


def eval_reject(case):
    from pytezos.crypto.key import Key
    curve, secret, msg = case['curve'], bytes.fromhex(case['secret']), bytes.fromhex(case['msg'])
    generic, alt = case['generic'], case['alt']
    st, sig = _sign(curve, secret, msg, generic)
    if st != 'ok':
        return []      # reported by the sign case of the same (key, message, generic)
    try:
        kind, raw = B58.decode(sig)
    except ValueError:
        return []      # reported by the sign case
    pk = SIG.public_key(curve, secret)
    key = _pubkey(curve, pk)
    pk_b58 = B58.encode(curve + 'pk', pk)
    t = alt['t']
    sig2, msg2, demanded = sig, msg, True
    if t == 'msg':
        if alt['op'] == 'flip':
            msg2 = _flip(msg, alt['bit'])
        elif alt['op'] == 'append':
            msg2 = msg + bytes([alt['byte']])
        elif alt['op'] == 'prepend':
            msg2 = bytes([alt['byte']]) + msg
        elif alt['op'] == 'drop_last':
            msg2 = msg[:-1]
        what = 'altered_message'
    elif t == 'sig':
        if alt['op'] == 'flip':
            raw2 = _flip(raw, alt['bit'])
        elif alt['op'] == 'xorbyte':
            a = bytearray(raw)
            a[alt['pos']] ^= 0xFF
            raw2 = bytes(a)
        elif alt['op'] == 'zero':
            raw2 = bytes(len(raw))
        elif alt['op'].startswith('set_'):   # boundary values of one half (r / s of ECDSA, R / S of Ed25519)
            half = len(raw) // 2
            val = {'zero': bytes(half), 'ff': b'\xff' * half,
                   'order': SIG.ORDER.get(curve, 1 << 252).to_bytes(half, 'big')}[alt['value']]
            raw2 = (val + raw[half:]) if alt['op'] == 'set_r' else (raw[:half] + val)
        sig2 = B58.encode(kind, raw2)
        what = 'altered_signature'
    elif t == 'b58':
        pos = alt['pos'] % len(sig)
        c = B58.ALPHABET[(B58.ALPHABET.index(sig[pos]) + 1) % 58]
        sig2 = sig[:pos] + c + sig[pos + 1:]
        what = 'altered_signature'
    elif t == 'key':
        if alt['op'] == 'other':
            pk2 = SIG.public_key(curve, bytes.fromhex(alt['secret']))
        else:
            pk2 = _flip(pk, alt['bit'])
            valid = SIG.is_valid_public_key(curve, pk2)
            demanded = valid is True      # otherwise only "does not accept" is demanded
        key = Key.from_public_point(pk2, curve.encode())
        pk_b58 = B58.encode(curve + 'pk', pk2)
        what = 'different_key'
    elif t == 'prefix':
        sig2 = B58.encode(alt['kind'], raw)
        what = 'curve_mismatch'
    elif t == 'curve':
        c2, s2 = alt['other'], bytes.fromhex(alt['secret'])
        pk2 = SIG.public_key(c2, s2)
        key = _pubkey(c2, pk2)
        pk_b58 = B58.encode(c2 + 'pk', pk2)
        what = 'curve_mismatch'
    else:
        raise KeyError(t)
    oid = O_REJ.format(what)
    tag = f'curve={curve} generic={generic} {t}:{alt.get("op", alt.get("kind", alt.get("other", "char")))}'
    v, info = verify_verdict(key, sig2, msg2)
    out = []
    if v == 'V':
        out.append(_res(oid, True))
    elif v in ('T', 'R'):
        out.append(_res(oid, False, f'Key.verify returned {info or True} for {what.replace("_", " ")} {alt}', tag + ' accepted'))
    else:  # some other exception class
        out.append(_res(oid, not demanded, f'Key.verify raised {info} instead of ValueError for {what.replace("_", " ")} {alt}',
                        tag + ' ' + info.split(':')[0]))
    if v in ('V', 'T') and case.get('chk', True):
        cs = check_signature_verdict(pk_b58, sig2, msg2)
        if cs != 'unbuildable':
            want = 'T' if v == 'T' else 'F'
            out.append(_res(O_CHK, cs == want, f'CHECK_SIGNATURE -> {cs} where Key.verify verdict is {v} ({what}, {alt})', tag))
    return out


# --------------------------------------------------------------- recorded octez-client signatures
def eval_external(case):
    """Signatures produced by octez-client (recorded in /repo/tests): the real verify must accept them and
    reject them for another message (digest discipline of verify, independent of Key.sign)."""
    from pytezos.crypto.key import Key
    pk, msg, sig = case['pk'], bytes.fromhex(case['msg']), case['sig']
    key = Key.from_encoded_key(pk)
    v, info = verify_verdict(key, sig, msg)
    v2, _ = verify_verdict(key, sig, msg + b'\x00')
    return [_res(O_DIGEST, v == 'T' and v2 == 'V', f'recorded signature {sig[:12]}..: verify -> {v} {info}; on another message -> {v2}',
                 f'external {pk[:4]}')]


# ------------------------------------------------------------------------- sequences of calls
def eval_seq(case):
    """One process, purpose-built key objects (NOT the cached ones), a fixed interleaving of sign / verify /
    CHECK_SIGNATURE calls; every verdict must be the one the (key, signature, message) triple has on its own:
    rejected-then-accepted, accepted-then-rejected, same signature under another key, generic after specific,
    key object with and without the secret part, repeated calls."""
    from pytezos.crypto.key import Key
    curve, secret, secret2 = case['curve'], bytes.fromhex(case['secret']), bytes.fromhex(case['secret2'])
    m1, m2 = bytes.fromhex(case['m1']), bytes.fromhex(case['m2'])
    short = case.get('short', False)
    tag = f'curve={curve} sequence'
    out = []
    try:
        K = Key.from_encoded_key(CC.encoded_sk(curve, secret))
        pk, pk2 = SIG.public_key(curve, secret), SIG.public_key(curve, secret2)
        P, P2 = Key.from_encoded_key(B58.encode(curve + 'pk', pk)), Key.from_encoded_key(B58.encode(curve + 'pk', pk2))
        s1 = K.sign(m1)
        s2 = K.sign(m2) if not short else None
        s1g = K.sign(m1, generic=True)
        s1b = K.sign(m1) if not short else s1  # the same request again, after other requests on the same object
    except Exception as e:  # noqa
        return [_res(O_SAFE, False, f'sequence of Key.sign calls on one key object raised {CC.exc_text(e)}', tag)]
    ok = True
    info = []
    for nm, sg, generic in (('first', s1, False), ('repeated after other requests', s1b, False), ('generic after specific', s1g, True)):
        try:
            kind, raw = B58.decode(sg)
        except ValueError as e:
            kind, raw = f'undecodable({e})', b''
        if kind != expected_kind(curve, generic) or len(raw) != SIG_LEN(curve):
            ok = False
            info.append(f'{nm}: kind {kind}, {len(raw)} bytes')
        else:
            ind = SIG.verify(curve, pk, m1, raw)
            if ind is False or (ind is None and raw != _bls_ref(secret, m1)):
                ok = False
                info.append(f'{nm}: not a signature of m1 for an independent implementation')
    out.append(_res(O_SEQ_SIGN, ok, f'sign(m1), sign(m2), sign(m1, generic), sign(m1) on ONE key object: {info}', tag))
    if not ok:
        return out
    if short:       # BLS quick tier (pairing budget)
        steps = [(P, 'P', s1, m2, 'V', 'rejected first'), (P, 'P', s1, m1, 'T', 'accepted after a rejection of the same signature'),
                 (P2, 'P2', s1, m1, 'V', 'another key after an acceptance')]
    else:
        steps = [(P, 'P', s1, m2, 'V', 'rejected first'), (P, 'P', s1, m1, 'T', 'accepted after a rejection of the same signature'),
                 (P, 'P', s2, m1, 'V', 'other signature, rejected'), (P, 'P', s2, m2, 'T', 'accepted after a rejection of the same signature'),
                 (P, 'P', s1, m1, 'T', 'accepted again'), (P, 'P', s1, m2, 'V', 'rejected after an acceptance of the same signature'),
                 (P2, 'P2', s1, m1, 'V', 'another key after an acceptance'), (P, 'P', s1, m1, 'T', 'accepted after a rejection under another key'),
                 (P2, 'P2', s1, m1, 'V', 'another key, again'),
                 (P, 'P', s1g, m1, 'T', 'generic form'), (P, 'P', s1g, m2, 'V', 'generic form, other message'), (P, 'P', s1g, m1, 'T', 'generic form again'),
                 (K, 'K(secret)', s1, m2, 'V', 'key object holding the secret, rejected first'), (K, 'K(secret)', s1, m1, 'T', 'then accepted'),
                 (P, 'P', s1.encode(), m1.hex(), 'T', 'signature as bytes, message as hex string'), (P, 'P', s1.encode(), m2.hex(), 'V', 'same, other message')]
    for i, (key, kn, sg, mm, want, why) in enumerate(steps):
        v, vinfo = verify_verdict(key, sg, mm)
        if v != want:
            out.append(_res(O_SEQ, False, f'step {i} ({why}): {kn}.verify(signature of m1 or m2, message) -> {v} {vinfo}, on its own this triple gives {want}; '
                                          f'steps so far {[(a[1], a[4]) for a in steps[:i + 1]]}', tag + f' {why}'))
            return out
    out.append(_res(O_SEQ, True))
    pkb, pkb2 = B58.encode(curve + 'pk', pk), B58.encode(curve + 'pk', pk2)
    csteps = [(pkb, s1, m2, 'F'), (pkb, s1, m1, 'T')] + ([] if short else [(pkb2, s1, m1, 'F'), (pkb, s1, m1, 'T'), (pkb, s1g, m1, 'T'), (pkb, s1g, m2, 'F')])
    for i, (kk, sg, mm, want) in enumerate(csteps):
        cs = check_signature_verdict(kk, sg, mm)
        if cs != want:
            out.append(_res(O_SEQ_CHK, False, f'CHECK_SIGNATURE step {i} -> {cs}, on its own this triple gives {want}', tag + f' chk step {i}'))
            return out
    out.append(_res(O_SEQ_CHK, True))
    return out


def eval_case(case):
    k = case['k']
    if k == 'seq':
        return eval_seq(case)
    if k == 'sign':
        return eval_sign(case)
    if k == 'reject':
        return eval_reject(case)
    if k == 'external':
        return eval_external(case)
    raise KeyError(k)


def eval_chunk(chunk):
    return [(case, eval_case(case)) for case in chunk]


# ------------------------------------------------------------------------------------ enumeration
MESSAGES = [b'', b'\x00', b'test', b'deadbeef', bytes(range(32)), b'\x03' + b'\xff' * 63, bytes(i % 251 for i in range(1000))]

EXTERNAL = [
    dict(k='external', pk='edpku976gpuAD2bXyx1XGraeKuCo1gUZ3LAJcHM12W1ecxZwoiu22R', msg=b'test'.hex(),
         sig='edsigtzLBGCyadERX1QsYHKpwnxSxEYQeGLnJGsSkHEsyY8vB5GcNdnvzUZDdFevJK7YZQ2ujwVjvQZn62ahCEcy74AwtbA8HuN'),
    dict(k='external', pk='sppk7aMNM3xh14haqEyaxNjSt7hXanCDyoWtRcxF8wbtya859ak6yZT', msg=b'test'.hex(),
         sig='spsig1RriZtYADyRhyNoQMa6AiPuJJ7AUDcrxWZfgqexzgANqMv4nXs6qsXDoXcoChBgmCcn2t7Y3EkJaVRuAmNh2cDDxWTdmsz'),
    dict(k='external', pk='p2pk66n1NmhPDEkcf9sXEKe9kBoTwBoTYxke1hx16aTRVq8MoXuwNqo',
         msg='027a06a770ad828485977947451e23e99f5040ead0f09ef89f58be2583640edcb1e295d0cb000005085e',
         sig='sigQVTY9CkYw8qL6Xa7QWestkLSdtPv6HZ4ToSMHDcRot3BwRGwZhSwXd9jJwKkDvvotTLSNWQdUqiDSfXuCNUfjbEaY2j6j'),
    dict(k='external', pk='BLsk2DidLEXYjL5PvteqHgsve5LoJfZVqTQyKU9XsyXdEpoAh6k8D8',
         msg=b'bls12_381 verify external signature'.hex(),
         sig='BLsigAGt3Pao4WqsXMpw9JkXnrEyBEGSepTkKFc5gpW8cgLqYZsEiMBXFESJ8HBs9F5JSAeUyuZRyHnDquCAGWc2MEWQBktotL75oEkdaZ351U1HEzrH7LTfXCtQKivTxqgXfi7hf2xxih'),
]


def _bits(nbits, how):
    if how == 'all':
        return list(range(nbits))
    if how == 'bytes':      # one bit in every byte, position rotating
        return [8 * i + (i % 8) for i in range(nbits // 8)]
    n = int(how)            # n spread positions incl. first and last bit
    if nbits == 0:
        return []
    return sorted({0, 7, nbits - 1, nbits // 2} | {(nbits * j) // n for j in range(n)})[:max(n, 4)]


def _bl_quick_group(secret, msg, generic, secrets, others, rich):
    """BLS, quick tier: a small, pairing-budgeted selection (py_ecc needs ~0.35 s per verification, far more on a
    loaded machine).  rich=True: one representative of every alteration target; otherwise sign cases + one rejection."""
    base = dict(curve='BL', secret=secret.hex(), msg=msg.hex(), generic=generic)
    cases = [dict(k='sign', form='bytes', full=False, **base)]
    if generic:
        return cases
    alts = [dict(t='msg', op='append', byte=0)]
    if rich:
        alts += [dict(t='msg', op='flip', bit=0)] if msg else []
        alts += [dict(t='sig', op='flip', bit=b) for b in (0, 7)]      # 7: a flag bit of the compressed point
        alts += [dict(t='sig', op='zero'), dict(t='b58', pos=7)]
        alts += [dict(t='key', op='other', secret=s2.hex()) for s2 in secrets if s2 != secret][:1]
        alts += [dict(t='key', op='flip', bit=383)]
        alts += [dict(t='curve', other=c2, secret=others[c2].hex()) for c2 in ('ed', 'sp', 'p2')]
    seen = set()
    for a in alts:
        first = a['t'] not in seen and a['t'] in ('msg', 'key')
        seen.add(a['t'])
        cases.append(dict(k='reject', alt=a, chk=first, **base))
    return cases


# P-256, recorded key: messages whose (deterministic, RFC 6979) signature has a LEADING ZERO BYTE in r resp. in s
# (found by search: 1 signature in 128 has one) - the fixed-width 32-byte big-endian layout of r ‖ s matters only there
P2_LEADING_ZERO = [b'p256 leading zero 233', b'p256 leading zero 43']


def _sweep_msg(n):
    return bytes((7 * i + n) % 256 for i in range(n))


def widening_cases(thorough, seed):
    """Inputs the first enumeration fixed too narrowly (audit of over-specific harness inputs)."""
    chunks = []
    # sequences of calls on the same / different key objects (BLS first: slowest)
    for curve in ('BL', 'p2', 'sp', 'ed'):
        secrets = CC.secrets_of(curve, 2, seed)
        short = curve == 'BL' and not thorough
        chunks.append([dict(k='seq', curve=curve, secret=secrets[0].hex(), secret2=secrets[1].hex(), m1=b'test'.hex(), m2=b'tesu'.hex(), short=short)])
        if not short:
            chunks.append([dict(k='seq', curve=curve, secret=secrets[1].hex(), secret2=secrets[0].hex(), m1=b''.hex(), m2=bytes(32).hex(), short=False)])
    # BLS: a digest-sized message as an upper-case hex string (sign + one verification; pairing budget)
    bl = CC.secrets_of('BL', 1, seed)[0]
    chunks.append([dict(k='sign', form='HEX', full=False, curve='BL', secret=bl.hex(), msg=_sweep_msg(32).hex(), generic=False)])
    if thorough:
        chunks.append([dict(k='sign', form='bytes', full=False, curve='BL', secret=bl.hex(), msg=_sweep_msg(64).hex(), generic=True)])
    for curve in ('p2', 'sp', 'ed'):
        secrets = CC.secrets_of(curve, 4, seed)
        # every message length 0..69 and around the Blake2b block (128) / 256: sign, verify, independent verifier, CHECK_SIGNATURE
        lens = list(range(0, 70)) + [127, 128, 129, 255, 256, 257] + ([512, 4096] if thorough else [])
        cases = [dict(k='sign', form=('bytes', 'hex', 'HEX')[n % 3], curve=curve, secret=secrets[3 if n % 2 else 0].hex(), msg=_sweep_msg(n).hex(),
                      generic=bool((n // 3) % 2)) for n in lens]
        for i in range(0, len(cases), 20):
            chunks.append(cases[i:i + 20])
        # upper-case hex strings, with and without 0x, for every key
        up = [dict(k='sign', form=form, curve=curve, secret=sec.hex(), msg=m.hex(), generic=g)
              for sec in secrets for m in (b'\xab', b'\xde\xad\xbe\xef' * 8, bytes(range(200, 256))) for g in (False, True) for form in ('HEX', '0xHEX')]
        chunks.append(up)
    chunks.append([dict(k='sign', form=form, curve='p2', secret=CC.secrets_of('p2', 1, seed)[0].hex(), msg=m.hex(), generic=g)
                   for m in P2_LEADING_ZERO for g in (False, True) for form in ('bytes', 'hex')])
    return chunks


def enumerate_cases(tier: str, seed: int = 0):
    """-> list of chunks (each a list of elementary cases)."""
    thorough = tier == 'thorough'
    chunks = widening_cases(thorough, seed) + [[c] for c in EXTERNAL]
    for curve in ('BL', 'p2', 'sp', 'ed'):      # slowest first (load balance of the ordered pool map)
        bl = curve == 'BL'
        nkeys = (2 if bl else 8) if thorough else (2 if bl else 4)
        secrets = CC.secrets_of(curve, nkeys, seed)
        if bl:
            msgs = [MESSAGES[0], MESSAGES[2], MESSAGES[4]] if thorough else [MESSAGES[0], MESSAGES[2]]
        else:
            msgs = MESSAGES if thorough else [MESSAGES[i] for i in (0, 1, 2, 4, 6)]
        others = {c: CC.secrets_of(c, 1, seed)[0] for c in CC.CURVES}
        for ki, secret in enumerate(secrets):
            for mi, msg in enumerate(msgs):
                for generic in (False, True):
                    if bl and not thorough:
                        if (ki == 0) != (mi == 1):
                            continue        # pairing budget: (key0, b'test') rich, (key1 = scalar 1, b'') minimal
                        cases = _bl_quick_group(secret, msg, generic, secrets, others, rich=(ki == 0))
                        chunks += [[c] for c in cases]
                        continue
                    base = dict(curve=curve, secret=secret.hex(), msg=msg.hex(), generic=generic)
                    cases = []
                    for form in ('bytes', 'hex', '0xhex'):
                        cases.append(dict(k='sign', form=form, **base))
                    alts = []
                    # --- message alterations
                    nb = len(msg) * 8
                    full = (not bl) and (nb <= 64 or (thorough and nb <= 512))
                    for b in _bits(nb, 'all' if full else ('bytes' if (not bl and nb <= 512) else 8)):
                        alts.append(dict(t='msg', op='flip', bit=b))
                    alts.append(dict(t='msg', op='append', byte=0))
                    alts.append(dict(t='msg', op='prepend', byte=0))
                    if msg:
                        alts.append(dict(t='msg', op='drop_last'))
                    # --- signature alterations
                    sb = SIG_LEN(curve) * 8
                    if bl:
                        how = 12
                    elif curve == 'p2':
                        how = 'all' if ((thorough and ki < 4) or (ki == 0 and mi < 2)) else 'bytes'
                    else:
                        how = 'all' if (thorough or (mi < 2 and ki < 2)) else 'bytes'
                    for b in _bits(sb, how):
                        alts.append(dict(t='sig', op='flip', bit=b))
                    alts.append(dict(t='sig', op='xorbyte', pos=0))
                    alts.append(dict(t='sig', op='xorbyte', pos=SIG_LEN(curve) - 1))
                    alts.append(dict(t='sig', op='zero'))
                    if not bl:
                        for part in ('set_r', 'set_s'):
                            for value in ('zero', 'ff', 'order'):
                                alts.append(dict(t='sig', op=part, value=value))
                    for pos in (len(SPECIFIC[curve]) + 1, 50, -1):
                        alts.append(dict(t='b58', pos=pos))
                    # --- other keys
                    for s2 in secrets:
                        if s2 != secret:
                            alts.append(dict(t='key', op='other', secret=s2.hex()))
                    kb = (48 if bl else 32 if curve == 'ed' else 33) * 8
                    if bl:
                        khow = 6
                    elif curve == 'p2':
                        khow = 'all' if ((thorough and ki < 4 and mi < 3) or (ki == 0 and mi == 0)) else 'bytes'
                    else:
                        khow = 'all' if (thorough or (ki < 2 and mi == 0)) else 'bytes'
                    for b in _bits(kb, khow):
                        alts.append(dict(t='key', op='flip', bit=b))
                    # --- curve / prefix mismatch
                    if not generic:
                        for c2 in CC.CURVES:
                            if c2 != curve:
                                alts.append(dict(t='curve', other=c2, secret=others[c2].hex()))
                                if SIG_LEN(c2) == SIG_LEN(curve):
                                    alts.append(dict(t='prefix', kind=SPECIFIC[c2]))
                    if bl:      # thorough: CHECK_SIGNATURE on every 6th rejection
                        cases += [dict(k='reject', alt=a, chk=(j % 6 == 0), **base) for j, a in enumerate(alts)]
                        for i in range(0, len(cases), 5):
                            chunks.append(cases[i:i + 5])
                    else:
                        cases += [dict(k='reject', alt=a, **base) for a in alts]
                        chunks.append(cases)
    return chunks
