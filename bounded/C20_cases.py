"""C20 — conservation monitor for tickets on the real interpreter.

All programs over the alphabet below up to a length bound are covered by dynamic programming over reachable
*stack states* (specs/ticket_model.py gives the states): for every reachable state S and every instruction i that
is well typed on S, the real instruction is run on the real stack built from S and its result is compared with
the reference step; the successor states come from the reference.  By induction every program of length <= L
is covered as long as the real stack is determined by the state; hidden-state effects (object sharing between
tickets, copies) are covered by end-to-end walks executed on one persistent real stack.

`eval_case(case)` -> list of {oid, ok, info, wclass}.
"""
import hashlib
import random

from specs import ticket_model as M

SELF = 'KT1BEqzn5Wx8uJrZNvuS9DVHmLvG9td3fDLi'
A = 'KT1TxqZ8QtKvLu3V3JH7Gx58n7Co8pgtpQU5'
B = 'tz1VSUr8wwNhLAzempoch5d6hLRiTh8Cjcjb'

O_CONS = 'C20::ensures.ticket_total_changes_only_through_TICKET'
O_ZERO = 'C20::ensures.no_ticket_of_amount_zero'
O_DUP = 'DUP::raises.on_a_slot_containing_a_ticket'
O_JOIN = 'JOIN_TICKETS::ensures.Some_iff_same_ticketer_and_contents'
O_SPLIT = 'SPLIT_TICKET::ensures.None_iff_zero_part_or_wrong_sum'
O_TICKET = 'TICKET::ensures.None_iff_amount_zero'
O_REF = 'C20::ensures.step_matches_reference'
O_BUILD = 'C20::requires.state_is_representable'
O_FORGE = 'C20::ensures.no_ticket_out_of_a_literal_or_of_bytes(PUSH / UNPACK of a type holding a ticket)'
O_ZERO_LIT = 'C20::ensures.no_ticket_of_amount_zero[ticket literal in a parameter / storage value]'

TN, TS = M.ticket(M.NAT), M.ticket(M.STRING)
PNN = M.pair(M.NAT, M.NAT)


def tk(ticketer, c, n):
    return ('T', ticketer, c, n)


INITIAL = [
    ((TN, tk(SELF, 5, 3)), (TN, tk(SELF, 5, 4))),
    ((TN, tk(A, 5, 3)), (TN, tk(B, 5, 3))),
    ((TN, tk(A, 5, 3)), (TN, tk(A, 6, 2))),
    ((TS, tk(A, 'x', 2)), (PNN, (1, 1))),
    (),
    ((M.pair(TN, TN), (tk(A, 5, 1), tk(A, 5, 2))), (M.option(TN), ('Some', tk(A, 5, 9))), (M.lst(TN), (tk(A, 5, 1),))),
    # widened: tickets that arrive inside a map value and inside an `or` (parameter / storage literals), next to a plain one
    ((('map', M.NAT, TN), ((1, tk(A, 5, 2)), (4, tk(B, 5, 1)))), (('or', TN, M.NAT), ('Left', tk(A, 5, 1))), (TN, tk(A, 5, 4))),
]

DIP_BODIES = [('DROP',), ('SWAP',), ('PAIR',), ('UNPAIR',), ('READ_TICKET',), ('JOIN_TICKETS',), ('TICKET',), ('DUP',)]
ALPHABET = ([('TICKET',), ('READ_TICKET',), ('SPLIT_TICKET',), ('JOIN_TICKETS',), ('PAIR',), ('UNPAIR',), ('CAR',), ('CDR',), ('SWAP',), ('DROP',),
             ('DUP',), ('DUP', 2), ('DUP', 3), ('DIG', 2), ('DUG', 2), ('SOME',), ('IF_NONE', (), (('DROP',),)), ('IF_NONE', (('UNIT',), ('FAILWITH',)), ()),
             ('NIL', TN), ('CONS',),
             ('PUSH', M.NAT, 0), ('PUSH', M.NAT, 2), ('PUSH', M.NAT, 5),
             ('PUSH', PNN, (1, 2)), ('PUSH', PNN, (0, 3)), ('PUSH', PNN, (3, 4))]
            + [('DIP', (b,)) for b in DIP_BODIES])

MAX_DEPTH, MAX_TYPE = 4, 8

# Widened: every ticket on a stack used to come from TICKET or from the initial stack.  The total per (ticketer, contents) may
# change ONLY through TICKET, so no other instruction may materialise a ticket: PUSH of a type that holds a ticket must be
# refused (tickets are not pushable) and UNPACK to such a type must not yield a ticket (not packable), however deep the
# ticket sits.  Probes: (instruction, type, value); the value is a ticket of another contract with amount 3.
_TKV = tk(A, 5, 3)
MAP_TN, OR_TN = ('map', M.NAT, TN), ('or', TN, M.NAT)
FORGE_TYPES = [(TN, _TKV), (M.option(TN), ('Some', _TKV)), (M.pair(M.NAT, TN), (1, _TKV)), (M.lst(TN), (_TKV,)),
               (M.pair(M.NAT, M.option(TN)), (1, ('Some', _TKV))), (M.option(M.pair(TN, M.NAT)), ('Some', (_TKV, 1))),
               (MAP_TN, ((1, _TKV),)), (OR_TN, ('Left', _TKV)), (M.lst(M.pair(M.NAT, M.option(TN))), ((1, ('Some', _TKV)),))]

# CANDIDATE_DEFECT (unchanged tree, reproduced natively, reported, NOT registered): a ticket literal with amount 0 inside a
# parameter / storage / initial-stack value (`Pair "KT1.." 5 0` read as `ticket nat`) is accepted by TicketType.from_micheline_value,
# i.e. a ticket of amount zero is produced; the protocol refuses it (Forbidden_zero_ticket_quantity).  Runs only with the flag.
RUN_CANDIDATE_DEFECTS = False


def real_tickets(it, out=None):
    """every TicketType instance reachable inside a real stack value"""
    from pytezos.michelson.types import TicketType
    from pytezos.michelson.types.base import MichelsonType
    out = [] if out is None else out
    if isinstance(it, TicketType):
        out.append(it)
    elif isinstance(it, (list, tuple)):
        for x in it:
            real_tickets(x, out)
    elif isinstance(it, MichelsonType):
        for a in ('item', 'items'):
            v = getattr(it, a, None)
            if v is not None:
                real_tickets(v, out)
    return out


def eval_forge(case):
    from pytezos.context.impl import ExecutionContext
    from pytezos.michelson.forge import forge_micheline
    from pytezos.michelson.micheline import MichelsonRuntimeError
    from pytezos.michelson.sections import CodeSection
    from pytezos.michelson.stack import MichelsonStack
    how = case['how']
    t, v = FORGE_TYPES[case['i']]
    val = M.val_expr(t, v)
    if how == 'zero-literal':
        zt = ('T', A, 5, 0)
        try:
            got = _real_type(TN).from_micheline_value(M.val_expr(TN, zt))
        except Exception:  # noqa
            return [_res(O_ZERO_LIT, True)]
        return [_res(O_ZERO_LIT, False, f'the literal {M.val_text(TN, zt)} is read as a ticket of amount {got.amount}', 'zero ticket literal accepted')]
    if how == 'PUSH':
        prog = [{'prim': 'PUSH', 'args': [M.ty_expr(t), val]}]
        text = f'PUSH {M.ty_text(t)} <literal holding a ticket of amount 3>'
    else:
        packed = b'\x05' + forge_micheline(val)
        prog = [{'prim': 'PUSH', 'args': [{'prim': 'bytes'}, {'bytes': packed.hex()}]}, {'prim': 'UNPACK', 'args': [M.ty_expr(t)]}]
        text = f'PUSH bytes 0x{packed.hex()[:24]}.. ; UNPACK {M.ty_text(t)}'
    st = MichelsonStack()
    try:
        CodeSection.match(prog).args[0].execute(st, [], ExecutionContext(address=SELF))
    except MichelsonRuntimeError:
        return [_res(O_FORGE, True)]
    found = real_tickets(list(st.items))
    if how == 'PUSH':
        return [_res(O_FORGE, False, f'`{text}` is accepted (tickets are not pushable); {len(found)} ticket(s) on the stack out of nothing', f'PUSH accepted {t[0]}')]
    return [_res(O_FORGE, not found, f'`{text}` leaves {len(found)} ticket(s) on the stack (amount {found[0].amount if found else 0}) without TICKET', f'UNPACK forged {t[0]}')]


def tsize(t):
    return 1 + sum(tsize(x) for x in t[1:] if isinstance(x, tuple))


def admissible(S):
    return len(S) <= MAX_DEPTH and all(tsize(t) <= MAX_TYPE for t, _ in S)


def is_dup_probe(ins, S):
    """DUP / DUP n / DIP {DUP} aimed at a slot that contains a ticket: ill typed in Michelson, must be rejected"""
    if ins[0] == 'DUP':
        k = ins[1] if len(ins) > 1 else 1
        return len(S) >= k and M.has_ticket(S[k - 1][0])
    if ins[0] == 'DIP' and ins[1] == (('DUP',),):
        return len(S) >= 2 and M.has_ticket(S[1][0])
    return False


def to_json(x):
    if isinstance(x, tuple):
        return [to_json(y) for y in x]
    return x


def from_json(x):
    if isinstance(x, list):
        return tuple(from_json(y) for y in x)
    return x


def _skey(S, seed):
    return hashlib.sha256(f'{seed}|{S!r}'.encode()).digest()


def explore(max_len, cap, seed=0):
    """-> (cases [(state, instr, depth)], stats).  BFS over reference states; exhaustive while a level has at most `cap`
    states, then a seed-determined subset of `cap` states of the level is expanded (states holding tickets first)."""
    seen = set(INITIAL)
    frontier = list(INITIAL)
    pairs, pair_seen = [], set()
    levels, expanded = [len(frontier)], []
    for depth in range(max_len):
        if len(frontier) > cap:
            frontier.sort(key=lambda S: (not M.totals(S), _skey(S, seed)))
            frontier = frontier[:cap]
        expanded.append(len(frontier))
        nxt = []
        for S in frontier:
            for ins in ALPHABET:
                key = (S, ins)
                if key in pair_seen:
                    continue
                if is_dup_probe(ins, S):
                    pair_seen.add(key)
                    pairs.append((S, ins, depth + 1))
                    continue
                r = M.step(ins, S, SELF)
                if r[0] == 'illtyped':
                    continue
                pair_seen.add(key)
                pairs.append((S, ins, depth + 1))
                if r[0] == 'ok' and admissible(r[1]) and r[1] not in seen:
                    seen.add(r[1])
                    nxt.append(r[1])
        frontier = nxt
        levels.append(len(frontier))
    return pairs, dict(states_reached_per_depth=levels, states_expanded_per_depth=expanded)


# --------------------------------------------------------------------------------------------- real side
_TYPES, _CODE = {}, {}


def _real_type(t):
    if t not in _TYPES:
        from pytezos.michelson.types.base import MichelsonType
        _TYPES[t] = MichelsonType.match(M.ty_expr(t))
    return _TYPES[t]


def build_stack(S):
    from pytezos.michelson.stack import MichelsonStack
    st = MichelsonStack()
    for t, v in reversed(S):
        st.push(_real_type(t).from_micheline_value(M.val_expr(t, v)))
    return st


def read_type(expr):
    p = expr['prim']
    args = expr.get('args') or []
    if p == 'pair' and len(args) > 2:     # right comb
        return M.pair(read_type(args[0]), read_type({'prim': 'pair', 'args': args[1:]}))
    return (p,) + tuple(read_type(a) for a in args)


def read_value(t, it):
    from pytezos.michelson import types as T
    k = t[0]
    if k == 'nat':
        assert isinstance(it, T.NatType)
        return int(it)
    if k in ('string', 'address'):
        return str(it)
    if k == 'unit':
        return ()
    if k == 'ticket':
        assert isinstance(it, T.TicketType)
        return ('T', str(it.ticketer), read_value(t[1], it.item), int(it.amount))
    if k == 'pair':
        a, b = tuple(it)
        return (read_value(t[1], a), read_value(t[2], b))
    if k == 'option':
        return None if it.is_none() else ('Some', read_value(t[1], it.get_some()))
    if k == 'list':
        return tuple(read_value(t[1], x) for x in it)
    if k == 'map':
        return tuple((read_value(t[1], a), read_value(t[2], b)) for a, b in it)
    if k == 'or':
        return ('Left', read_value(t[1], it.resolve())) if it.is_left() else ('Right', read_value(t[2], it.resolve()))
    raise KeyError(k)


def read_stack(st):
    out = []
    for it in st.items:
        t = read_type(type(it).as_micheline_expr())
        out.append((t, read_value(t, it)))
    return tuple(out)


def exec_real(st, ins):
    """-> None | error text"""
    from pytezos.context.impl import ExecutionContext
    from pytezos.michelson.micheline import MichelsonRuntimeError
    from pytezos.michelson.sections import CodeSection
    if ins not in _CODE:
        _CODE[ins] = CodeSection.match([M.instr_expr(ins)]).args[0]
    try:
        _CODE[ins].execute(st, [], ExecutionContext(address=SELF))
    except MichelsonRuntimeError as e:
        return f'{type(e).__name__}{e.args!s:.160}'
    return None


def _res(oid, ok, info='', wclass=''):
    return dict(oid=oid, ok=bool(ok), info=info, wclass=wclass)


def stack_text(S):
    return '[' + ' : '.join(f'{M.val_text(t, v)}' for t, v in S) + ']'


def diff(after, before):
    keys = set(after) | set(before)
    return {k: after.get(k, 0) - before.get(k, 0) for k in keys if after.get(k, 0) != before.get(k, 0)}


def flat(ins):
    out = []
    if ins[0] == 'DIP':
        for x in ins[1]:
            out += flat(x)
    elif ins[0] == 'IF_NONE':
        for br in (ins[1], ins[2]):
            for x in br:
                out += flat(x)
    else:
        out.append(ins[0])
    return out


def allowed_delta(ins, S):
    """Rule-based monitor, from the property statement: totals may grow only through TICKET (by the requested amount, for
    (self, contents)) and shrink only where a value holding tickets is destroyed (DROP / CAR / CDR, a refused JOIN_TICKETS
    or SPLIT_TICKET, which consume their operands).  -> dict of expected
    delta for the executed primitive steps, computed on the reference's intermediate stacks."""
    exp = {}

    def add(k, n):
        if n:
            exp[k] = exp.get(k, 0) + n

    def walk(prog, S):
        for x in prog:
            p = x[0]
            if p == 'DIP':
                S = (S[0],) + walk(x[1], S[1:])
                continue
            if p == 'IF_NONE':
                t, v = S[0]
                S = walk(x[1], S[1:]) if v is None else walk(x[2], ((t[1], v[1]),) + S[1:])
                continue
            if p == 'TICKET':
                (cty, c), (_, n) = S[0], S[1]
                add((SELF, cty, c), n)
            elif p == 'DROP':
                for ticketer, cty, c, n in M.tickets_in(*S[0]):
                    add((ticketer, cty, c), -n)
            elif p in ('CAR', 'CDR'):
                t, v = S[0]
                i = 1 if p == 'CAR' else 0        # the other component is dropped
                for ticketer, cty, c, n in M.tickets_in(t[1 + i], v[i]):
                    add((ticketer, cty, c), -n)
            elif p == 'JOIN_TICKETS':             # linear: a refused join consumes (destroys) both tickets
                a, b = S[0][1]
                if a[1] != b[1] or a[2] != b[2]:
                    for ticketer, cty, c, n in M.tickets_in(*S[0]):
                        add((ticketer, cty, c), -n)
            elif p == 'SPLIT_TICKET':             # a refused split consumes the ticket
                l, r_ = S[1][1]
                if l == 0 or r_ == 0 or l + r_ != S[0][1][3]:
                    for ticketer, cty, c, n in M.tickets_in(*S[0]):
                        add((ticketer, cty, c), -n)
            r = M.step(x, S, SELF)
            if r[0] != 'ok':
                raise StopIteration
            S = r[1]
        return S

    try:
        walk((ins,), S)
    except StopIteration:
        return None       # the reference execution fails (FAILWITH): nothing to conserve
    return {k: v for k, v in exp.items() if v}


def check_step(S, ins, st=None):
    """one instruction on state S (st: an already built real stack for walks).  -> (results, real stack after or None)"""
    out = []
    text = M.instr_text(ins)
    ctx = f'{text} on {stack_text(S)}'
    try:
        st = st if st is not None else build_stack(S)
        before = read_stack(st)
    except Exception as e:  # noqa
        return [_res(O_BUILD, False, f'cannot build / read back the stack {stack_text(S)}: {type(e).__name__}: {e!s:.150}', 'build')], None
    if before != S:
        return [_res(O_BUILD, False, f'stack built from {stack_text(S)} reads back as {stack_text(before)}', 'readback')], None
    probe = is_dup_probe(ins, S)
    want = ('illtyped',) if probe else M.step(ins, S, SELF)
    err = exec_real(st, ins)
    if probe:
        slot = 'nested' if S[(ins[1] if len(ins) > 1 and ins[0] == 'DUP' else (2 if ins[0] == 'DIP' else 1)) - 1][0][0] != 'ticket' else 'direct'
        out.append(_res(O_DUP, err is not None, f'{ctx}: accepted although the duplicated slot contains a ticket', f'{ins[0]} accepted ticket {slot}'))
        return out, None
    if want[0] == 'fail':
        out.append(_res(O_REF, err is not None, f'{ctx}: no failure although the reference fails (FAILWITH)', f'{ins[0]} no-failure'))
        return out, None
    if err is not None:
        oid = O_DUP if ins[0] == 'DUP' else O_REF
        out.append(_res(oid, False, f'{ctx}: raised {err}; the reference gives {stack_text(want[1])}', f'{"/".join(flat(ins))} raises'))
        return out, None
    try:
        after = read_stack(st)
    except Exception as e:  # noqa
        tys = [type(it).as_micheline_expr() for it in st.items]
        bare = "'prim': 'ticket'}" in repr(tys)
        out.append(_res(O_REF, False, f'{ctx}: result stack cannot be read ({type(e).__name__}: {e!s:.80}); result types {tys!r:.300}'
                        + ('; the ticket type lost its content type argument' if bare else ''),
                        f'{"/".join(flat(ins))} ' + ('bare-ticket-type' if bare else 'unreadable')))
        return out, None
    prims = flat(ins)
    # conservation monitor
    exp = allowed_delta(ins, S)
    got = diff(M.totals(after), M.totals(before))
    if exp is not None:
        out.append(_res(O_CONS, got == exp, f'{ctx}: ticket totals changed by {got}, allowed {exp}; result {stack_text(after)}', f'{"/".join(prims)} delta'))
    # zero tickets
    zeros = [t for ty, v in after for t in M.tickets_in(ty, v) if t[3] == 0]
    out.append(_res(O_ZERO, not zeros, f'{ctx}: ticket of amount 0 on the stack: {stack_text(after)}', f'{"/".join(prims)} zero-ticket'))
    # option outcomes of the ticket instructions (top-level form)
    if ins[0] == 'JOIN_TICKETS':
        a, b = S[0][1]
        same = a[1] == b[1] and a[2] == b[2]
        out.append(_res(O_JOIN, (after[0][1] is not None) == same, f'{ctx}: result {M.val_text(*after[0])}; ticketer and contents {"match" if same else "differ"}',
                        'JOIN same' if same else ('JOIN ticketer-differs' if a[1] != b[1] else 'JOIN contents-differ')))
    if ins[0] == 'SPLIT_TICKET':
        l, r = S[1][1]
        none = l == 0 or r == 0 or l + r != S[0][1][3]
        out.append(_res(O_SPLIT, (after[0][1] is None) == none, f'{ctx}: result {M.val_text(*after[0])}; parts ({l},{r}) of {S[0][1][3]}',
                        'SPLIT zero-part' if 0 in (l, r) else ('SPLIT wrong-sum' if none else 'SPLIT exact')))
    if ins[0] == 'TICKET':
        n = S[1][1]
        out.append(_res(O_TICKET, (after[0][1] is None) == (n == 0), f'{ctx}: result {M.val_text(*after[0])}', 'TICKET zero' if n == 0 else 'TICKET positive'))
    out.append(_res(O_REF, after == want[1], f'{ctx}: real result {stack_text(after)}; reference {stack_text(want[1])}', f'{"/".join(prims)} differs'))
    return out, (st if after == want[1] else None)


def eval_case(case):
    if case['k'] == 'forge':
        return eval_forge(case)
    if case['k'] == 'step':
        rs, _ = check_step(from_json(case['S']), from_json(case['ins']))
        return rs
    # walk: a program on one persistent real stack
    S = from_json(case['S'])
    prog = from_json(case['prog'])
    out = []
    try:
        st = build_stack(S)
    except Exception as e:  # noqa
        return [_res(O_BUILD, False, f'cannot build {stack_text(S)}: {e!s:.150}', 'build')]
    for i, ins in enumerate(prog):
        rs, st2 = check_step(S, ins, st)
        for r in rs:
            if not r['ok']:
                r['info'] = f'step {i + 1} of walk `{" ; ".join(M.instr_text(x) for x in prog)}`: ' + r['info']
                r['wclass'] = 'walk ' + r['wclass']
        out += rs
        if st2 is None:
            break
        r = M.step(ins, S, SELF)
        if r[0] != 'ok':
            break
        S = r[1]
    return out


def eval_chunk(chunk):
    return [(c, eval_case(c)) for c in chunk]


def enumerate_cases(tier, seed=0):
    thorough = tier == 'thorough'
    L = 7 if thorough else 5
    cap = 6000 if thorough else 700
    pairs, info = explore(L, cap, seed)
    cases = [dict(k='step', S=to_json(S), ins=to_json(ins), depth=d) for S, ins, d in pairs]
    # end-to-end walks on a persistent stack
    rng = random.Random(int(hashlib.sha256(f'c20-{seed}'.encode()).hexdigest()[:8], 16))
    nwalks = 4000 if thorough else 500
    walks = []
    for w in range(nwalks):
        S0 = INITIAL[w % len(INITIAL)]
        S, prog = S0, []
        for _ in range(L + 2):
            cands = []
            for i in ALPHABET:
                if is_dup_probe(i, S):
                    continue
                r = M.step(i, S, SELF)
                if r[0] == 'ok' and admissible(r[1]):
                    cands.append((i, r[1]))
            if not cands:
                break
            # prefer ticket instructions so that walks do not drown in pushes
            hot = [c for c in cands if c[0][0] in ('TICKET', 'READ_TICKET', 'SPLIT_TICKET', 'JOIN_TICKETS', 'IF_NONE', 'CONS', 'UNPAIR', 'DIP')]
            ins, S = rng.choice(hot if hot and rng.random() < 0.6 else cands)
            prog.append(ins)
        walks.append(dict(k='walk', S=to_json(S0), prog=to_json(tuple(prog))))
    cases += walks
    forge = [dict(k='forge', how=how, i=i) for how in ('PUSH', 'UNPACK') for i in range(len(FORGE_TYPES))]
    if RUN_CANDIDATE_DEFECTS:
        forge.append(dict(k='forge', how='zero-literal', i=0))
    cases += forge
    info.update(max_len=L, frontier_cap=cap, step_cases=len(pairs), walks=len(walks), walk_len=L + 2, forge_probes=len(forge))
    return [cases[i:i + 500] for i in range(0, len(cases), 500)], info
