"""Shared R-mode engine of C01 / C02 / C17: run one (program, typed input stack, environment) on the REAL pytezos
interpreter and on the reference semantics (specs/michelson_ref.py) and evaluate the contracts

  C01  outcome(real) == outcome(ref): same final stack values / same FAILWITH value / run-time error iff ref error
  C02  for every slot of the final stack: strip_annots(type(v).as_micheline_expr()) == reference static type
  C17  (relational, see props/C17.py) outcome and PACK bytes are invariant under re-annotation of the types

The real code is driven through its own entry points:
  stack mode     MichelsonType.match(ty).from_micheline_value(v) -> MichelsonStack.push;
                 MichelineSequence.match(code).execute(stack, stdout, ExecutionContext(...))
  contract mode  Interpreter.run_code(parameter, storage, script, amount=..., ...)   (begin / execute / end)
FAILWITH values are observed by a probe around FailwithInstruction.execute (reads the top of the stack, then
calls the real method unchanged) because the raised MichelsonRuntimeError only carries an abbreviated repr.
"""
from __future__ import annotations

import signal

from specs import michelson_ref as R

_PROBE = []
_INSTALLED = False


def install_probe():
    global _INSTALLED
    if _INSTALLED:
        return
    import pytezos  # noqa: F401  (the package must be initialised from its root: submodules import each other)
    from pytezos.michelson.instructions.control import FailwithInstruction
    real = FailwithInstruction.__dict__['execute'].__func__

    def execute(cls, stack, stdout, context):
        try:
            _PROBE.append(stack.peek())
        except Exception:       # noqa  (empty stack: let the real method report it)
            pass
        return real(cls, stack, stdout, context)

    FailwithInstruction.execute = classmethod(execute)
    _INSTALLED = True


class Timeout(BaseException):
    pass


def _alarm(signum, frame):
    raise Timeout()


def with_timeout(seconds, f, *a):
    old = signal.signal(signal.SIGALRM, _alarm)
    signal.setitimer(signal.ITIMER_REAL, seconds)
    try:
        return f(*a)
    finally:
        signal.setitimer(signal.ITIMER_REAL, 0)
        signal.signal(signal.SIGALRM, old)


def make_context(env):
    install_probe()
    from pytezos.context.impl import ExecutionContext
    e = dict(R.DEFAULT_ENV)
    e.update(env or {})
    return ExecutionContext(amount=e['amount'], balance=e['balance'], sender=e['sender'], source=e['source'],
                            now=e['now'], level=e['level'], chain_id=e['chain_id'], address=e['self_address'],
                            total_voting_power=e['total_voting_power'], min_block_time=e['min_block_time'])


def _err(e):
    return ('error', type(e).__name__, [str(a)[:160] for a in e.args][-4:])


def _observe(item):
    return (type(item).as_micheline_expr(), item.to_micheline_value(mode='optimized'))


def real_run(code, types, values, env):
    """Stack mode.  code / types / values: Micheline JSON (types and values top first).
    -> ('ok', [(type_expr, value_expr), ...]) | ('failwith', type_expr, value_expr) | ('error', exc class, args)"""
    install_probe()
    from pytezos.michelson.micheline import MichelineSequence
    from pytezos.michelson.stack import MichelsonStack
    from pytezos.michelson.types.base import MichelsonType
    ctx = make_context(env)
    stack = MichelsonStack()
    for i, (ty, v) in reversed(list(enumerate(zip(types, values)))):
        try:
            stack.push(MichelsonType.match(ty).from_micheline_value(v))
        except Exception as e:   # noqa   the interpreter cannot even represent this (well-typed) input value
            return ('input-error', i, [type(e).__name__] + [str(a)[:120] for a in e.args][-3:])
    del _PROBE[:]
    try:
        prog = MichelineSequence.match(code)          # loading a well-typed program must not fail either
        prog.execute(stack, [], ctx)
    except Timeout:
        raise
    except Exception as e:   # noqa
        if len(e.args) >= 2 and e.args[-2] == 'FAILWITH' and _PROBE:
            try:
                return ('failwith',) + _observe(_PROBE[-1])
            except Exception as e2:  # noqa
                return ('error', 'observe-failwith', [repr(e2)[:200]])
        return _err(e)
    try:
        return ('ok', [_observe(i) for i in stack.items])
    except Exception as e:   # noqa
        return ('error', 'observe:' + type(e).__name__, [str(a)[:160] for a in e.args][-4:])


def real_run_contract(code, param_type, storage_type, param, storage, env):
    """Contract mode through Interpreter.run_code.  -> ('ok', storage_expr) | ('failwith', ty, v) | ('error', ...)"""
    install_probe()
    from pytezos.michelson.repl import Interpreter
    e = dict(R.DEFAULT_ENV)
    e.update(env or {})
    script = [{'prim': 'parameter', 'args': [param_type]}, {'prim': 'storage', 'args': [storage_type]},
              {'prim': 'code', 'args': [code]}]
    del _PROBE[:]
    ops, st, lazy, stdout, err = Interpreter.run_code(
        parameter=param, storage=storage, script=script, output_mode='optimized', amount=e['amount'],
        chain_id=e['chain_id'], source=e['source'], sender=e['sender'], balance=e['balance'], now=e['now'],
        level=e['level'], address=e['self_address'])
    if err is not None:
        if len(err.args) >= 2 and err.args[-2] == 'FAILWITH' and _PROBE:
            return ('failwith',) + _observe(_PROBE[-1])
        return _err(err)
    if ops:
        return ('error', 'operations', [])
    return ('ok', st)


# ----------------------------------------------------------------------------- comparison with the reference

def tstr(t, depth=4):
    """Michelson-like rendering of a reference type (used in witness classes)."""
    if len(t) == 1:
        return t[0]
    if depth <= 0:
        return '_'
    return t[0] + ' ' + ' '.join(tstr(a, depth - 1) if len(a) == 1 else '(' + tstr(a, depth - 1) + ')' for a in t[1:])


_ARGN = {'map': ('key', 'value'), 'big_map': ('key', 'value'), 'list': ('elt',), 'set': ('elt',), 'option': ('some',),
         'or': ('left', 'right'), 'pair': ('car', 'cdr'), 'lambda': ('arg', 'ret')}


def type_diff(got, want, path=''):
    """first position where two reference types differ: 'map.key: got int want pair int int'"""
    if got is None:
        return f'{path or "root"}: not a type'
    if got[0] != want[0] or len(got) != len(want):
        return f'{path or "root"}: got {tstr(got, 2)} want {tstr(want, 2)}'
    for i, (a, b) in enumerate(zip(got[1:], want[1:])):
        if a != b:
            names = _ARGN.get(got[0], ())
            return type_diff(a, b, f'{path + "." if path else ""}{got[0]}.{names[i] if i < len(names) else i}')
    return 'equal'


def real_type(expr):
    """type expression produced by pytezos -> reference type tuple (annotations dropped); None if not a type"""
    try:
        return R.parse_type(expr)
    except R.RefError:
        return None


def values_equal(t, ref, real):
    """Typed equality.  ref: reference value; real: value observed from pytezos (parse_data, order kept).
    Lambdas are compared by their code only when the reference lambda is a plain one (the notation of partially
    applied / recursive lambdas is not demanded)."""
    k = t[0]
    if k == 'lambda':
        if ref[2] or ref[3]:
            return True
        return not real[2] and R.strip_annots(ref[1]) == R.strip_annots(real[1])
    if k == 'pair':
        return values_equal(t[1], ref[0], real[0]) and values_equal(t[2], ref[1], real[1])
    if k == 'option':
        if ref is None or real is None:
            return ref is None and real is None
        return values_equal(t[1], ref[1], real[1])
    if k == 'or':
        return ref[0] == real[0] and values_equal(t[1] if ref[0] == 'Left' else t[2], ref[1], real[1])
    if k in ('list', 'set'):
        return len(ref) == len(real) and all(values_equal(t[1], a, b) for a, b in zip(ref, real))
    if k in ('map', 'big_map'):
        return len(ref) == len(real) and all(values_equal(t[1], a[0], b[0]) and values_equal(t[2], a[1], b[1])
                                             for a, b in zip(ref, real))
    return type(ref) is type(real) and ref == real


def only_order_differs(t, ref, real):
    """True when a set/map somewhere inside holds the right elements in a wrong order (a C03 symptom)."""
    try:
        def norm(t, v):
            k = t[0]
            if k == 'pair':
                return (norm(t[1], v[0]), norm(t[2], v[1]))
            if k == 'option':
                return None if v is None else ('Some', norm(t[1], v[1]))
            if k == 'or':
                return (v[0], norm(t[1] if v[0] == 'Left' else t[2], v[1]))
            if k == 'list':
                return tuple(norm(t[1], i) for i in v)
            if k == 'set':
                return R.mk_set(t[1], [norm(t[1], i) for i in v])
            if k == 'map':
                return R.mk_map(t[1], [(norm(t[1], a), norm(t[2], b)) for a, b in v])
            if k == 'lambda':
                return None
            return v
        return norm(t, ref) == norm(t, real)
    except Exception:  # noqa
        return False


BAD = object()        # "not a value of that type" (None is a legitimate value: option None)


def read_real_value(t, expr):
    """Micheline value produced by pytezos -> reference-domain value (order of collections kept).  BAD + reason
    if the literal does not denote a value of the reference type t."""
    try:
        return R.parse_data(t, expr, ordered=False, check_lambda=False), None
    except R.RefError as e:
        return BAD, str(e)


def describe(ins, S):
    """Witness-class description of an instruction occurrence: primitive, numeric argument, operand types."""
    ins = R.freeze(ins)
    if ins[0] == 'Q':
        return '{' + ';'.join(describe(i, ()).split(' ::')[0] for i in ins[1]) + '}'
    prim, args = ins[1], ins[2]
    num = ''.join(f' {a[1]}' for a in args if a[0] == 'I')
    arity = {'DROP': 0, 'DUP': 0, 'SWAP': 0, 'DIG': 0, 'DUG': 0, 'PUSH': 0, 'DIP': 0, 'UNIT': 0, 'NIL': 0, 'NONE': 0,
             'LAMBDA': 0, 'LAMBDA_REC': 0, 'EMPTY_SET': 0, 'EMPTY_MAP': 0,
             'COMPARE': 2, 'ADD': 2, 'SUB': 2, 'MUL': 2, 'EDIV': 2, 'AND': 2, 'OR': 2, 'XOR': 2, 'LSL': 2, 'LSR': 2,
             'CONS': 2, 'MEM': 2, 'EXEC': 2, 'APPLY': 2, 'SUB_MUTEZ': 2, 'SLICE': 3, 'GET_AND_UPDATE': 3}
    n = arity.get(prim, 1)
    if prim == 'GET':
        n = 1 if num else 2
    if prim == 'UPDATE':
        n = 2 if num else 3
    if prim == 'CONCAT':
        n = 2 if S and S[0] in (R.T_STRING, R.T_BYTES) else 1
    if prim == 'PUSH':
        try:
            rec = ' (Lambda_rec)' if len(args) > 1 and args[1][0] == 'P' and args[1][1] == 'Lambda_rec' else ''
            return f'PUSH {tstr(R.parse_type(args[0]))}{rec}'
        except R.RefError:
            return 'PUSH ?'
    ops = ' : '.join(tstr(t) for t in S[:n]) if S != R.FAILED else ''
    body = ''
    if prim in R.CONTROL and any(a[0] == 'Q' for a in args):
        inner = sorted({p for a in args if a[0] == 'Q' for p in _prims(a)})
        body = ' {' + ','.join(inner) + '}'
    return f'{prim}{num}{body} :: {ops}' if ops else f'{prim}{num}{body}'


def _prims(n):
    if n[0] == 'Q':
        for i in n[1]:
            yield from _prims(i)
    elif n[0] == 'P':
        yield n[1]
        for a in n[2]:
            if a[0] == 'Q':
                yield from _prims(a)


def compare_outcomes(ref, real):
    """-> list of findings (prop, clause, message, trait).  prop in {'C01', 'C02'}."""
    out = []
    if real[0] == 'input-error':
        return [('C01', 'requires.input_accepted', f'input slot {real[1]} (a well-typed value) is rejected by from_micheline_value: {real[2]}',
                 f'slot {real[1]}')]
    if ref[0] == 'ok':
        if real[0] != 'ok':
            why = f'{real[1]}: {real[2]}' if real[0] == 'error' else f'FAILWITH {real[2]}'
            out.append(('C01', 'ensures.outcome', f'reference ends normally with {len(ref[1])} slot(s); real interpreter fails: {why}',
                        'raises:' + (real[1] if real[0] == 'error' else 'FAILWITH')))
            return out
        S, V, slots = ref[1], ref[2], real[1]
        if len(slots) != len(S):
            out.append(('C01', 'ensures.stack_depth', f'final stack depth {len(slots)} != reference {len(S)}', 'depth'))
            return out
        for i, (t, v, (rt_expr, rv_expr)) in enumerate(zip(S, V, slots)):
            rt = real_type(rt_expr)
            type_ok = rt == t
            if not type_ok:
                out.append(('C02', 'ensures.slot_type', f'slot {i}: runtime type {rt_expr} != static type `{tstr(t, 9)}`',
                            'slot type differs at ' + type_diff(rt, t)))
            rv, why = read_real_value(t, rv_expr)
            if rv is BAD:
                prop = 'C01' if type_ok else 'C02'
                out.append((prop, 'ensures.slot_value_wellformed',
                            f'slot {i}: value {rv_expr} is not a value of static type `{tstr(t, 9)}` ({why})', 'ill-formed value'))
                if type_ok:
                    continue
                out.append(('C01', 'ensures.slot_value', f'slot {i}: value {rv_expr} differs from reference '
                            f'{R.data_to_micheline_safe(t, v)}', 'value(type differs)'))
            elif not values_equal(t, v, rv):
                trait = 'order' if only_order_differs(t, v, rv) else 'value'
                out.append(('C01', 'ensures.slot_value',
                            f'slot {i} : {tstr(t, 9)} = {rv_expr}, reference {R.data_to_micheline_safe(t, v)}', trait))
        return out
    if ref[0] == 'failwith':
        if real[0] != 'failwith':
            got = 'normal termination' if real[0] == 'ok' else f'{real[1]}: {real[2]}'
            out.append(('C01', 'ensures.failwith', f'reference: FAILWITH {R.data_to_micheline_safe(ref[1], ref[2])}; real: {got}',
                        'no-failwith:' + real[0]))
            return out
        rt = real_type(real[1])
        if rt != ref[1]:
            out.append(('C02', 'ensures.failwith_type', f'FAILWITH value type {real[1]} != `{tstr(ref[1], 9)}`', 'failwith type'))
        rv, why = read_real_value(ref[1], real[2])
        if rv is BAD or not values_equal(ref[1], ref[2], rv):
            out.append(('C01', 'ensures.failwith_value', f'FAILWITH value {real[2]}, reference {R.data_to_micheline_safe(ref[1], ref[2])}',
                        'failwith value'))
        return out
    # reference: run-time error that is not FAILWITH (overflow)
    if real[0] == 'ok':
        out.append(('C01', 'raises.runtime_error', f'reference fails with {ref[1]}; real interpreter ends normally', ref[1]))
    elif real[0] == 'failwith':
        out.append(('C01', 'raises.runtime_error', f'reference fails with {ref[1]}; real interpreter FAILWITH', ref[1]))
    return out


def locate(code, S, V, env, is_bad):
    """Shrink a failing top-level program to its shortest failing prefix and describe the last instruction of it
    (with the reference stack types it is applied to).  is_bad(prefix) -> bool re-runs both interpreters."""
    items = code if isinstance(code, list) else [code]
    for n in range(1, len(items) + 1):
        prefix = items[:n]
        try:
            if is_bad(prefix):
                try:
                    St = R.typecheck(items[:n - 1], S)
                except R.RefError:
                    St = ()
                return prefix, describe(items[n - 1], St)
        except R.RefError:
            continue
    return items, 'whole program'
