"""Evaluation of the C11 contracts on one (type, abstract value) case + shrinking + witness classes.
Shared pieces (shrink, classify helpers, parallel map) are reused by C12 / C13."""
from __future__ import annotations
import os, traceback
from bounded import typegen as G
from bounded.typegen import Ty
from bounded.C11_observe import make_type, denote, same_value, ObserveError, short
from specs.C11_micheline_reader import read_value, SpecReject

MODES = ('readable', 'optimized', 'legacy_optimized')
_TYPE_CACHE = {}


def type_class(ty: Ty):
    c = _TYPE_CACHE.get(ty)
    if c is None:
        if len(_TYPE_CACHE) > 20000:
            _TYPE_CACHE.clear()
        c = _TYPE_CACHE[ty] = make_type(ty)
    return c


def exc_text(e: BaseException) -> str:
    return ''.join(traceback.format_exception_only(type(e), e)).strip()[:400]


class Failure:
    __slots__ = ('clause', 'info', 'exc', 'order_only')

    def __init__(self, clause, info, exc=None, order_only=False):
        self.clause, self.info, self.exc, self.order_only = clause, info, exc, order_only

    def __repr__(self):
        return f'{self.clause}: {self.info}'


# ----------------------------------------------------------------------------- the contracts
def c11_failures(ty: Ty, aval, modes=MODES, only=None):
    """Evaluate, on the real classes:
       parse    : T.from_micheline_value(neutral(v))          ensures denotes v (no exception)
       render[m]: v.to_micheline_value(mode=m)                 ensures a valid Tezos notation of v in mode m
       rt[m]    : T.from_micheline_value(v.to_micheline_value(m)) ensures == v (denotes v, no exception)
    -> list of Failure (empty = all contracts hold).  `only` restricts to one clause id."""
    out = []
    cls = type_class(ty)
    lit = G.has_big_map_literal(aval)
    try:
        v = cls.from_micheline_value(G.neutral(ty, aval))
        ok, obs = same_value(ty, v, aval)
        if not ok:
            out.append(Failure('parse::ensures.denotes', f'parsed value denotes {short(obs)} instead of {short(aval)}'))
            return out
    except ObserveError:
        raise
    except Exception as e:
        out.append(Failure('parse::safety.no_exception', f'from_micheline_value raised {exc_text(e)}', e))
        return out
    for mode in modes:
        if only and '[' in only and f'[{mode}]' not in only:
            continue
        try:
            m = v.to_micheline_value(mode=mode, lazy_diff=None) if lit else v.to_micheline_value(mode=mode)
        except Exception as e:
            out.append(Failure(f'render[{mode}]::safety.no_exception', f'to_micheline_value({mode}) raised {exc_text(e)}', e))
            continue
        try:
            sv = read_value(ty, m, mode)
            if G.canon_value(ty, sv) != G.canon_value(ty, aval):
                out.append(Failure(f'render[{mode}]::ensures.valid_notation',
                                   f'{mode} rendering {short(m)} denotes {short(sv)} instead of {short(aval)}'))
        except SpecReject as e:
            out.append(Failure(f'render[{mode}]::ensures.valid_notation', f'{mode} rendering {short(m)} is not a valid {mode} notation: {e}'))
        try:
            v2 = cls.from_micheline_value(m)
            ok, obs = same_value(ty, v2, aval)
            if not ok:
                out.append(Failure(f'rt[{mode}]::ensures.equal', f'parsing the {mode} rendering {short(m)} back gives {short(obs)} instead of {short(aval)}'))
        except ObserveError:
            raise
        except Exception as e:
            out.append(Failure(f'rt[{mode}]::safety.no_exception', f'from_micheline_value of the {mode} rendering {short(m)} raised {exc_text(e)}', e))
    if only:
        out = [f for f in out if f.clause == only]
    return out


# ----------------------------------------------------------------------------- shrinking
def sub_cases(ty: Ty, v):
    """Strictly smaller (type, value) candidates: first same-type smaller collections, then components."""
    p = ty.prim
    if p in ('list', 'set') and len(v[1]) > 1:
        for x in v[1]:
            yield ty, (v[0], (x,))
        for a, b in zip(v[1], v[1][1:]):
            if len(v[1]) > 2:
                yield ty, (v[0], (a, b))
    if p in ('map', 'big_map') and v[0] != 'BigMapId' and len(v[1]) > 1:
        for kv in v[1]:
            yield ty, (v[0], (kv,))
        for a, b in zip(v[1], v[1][1:]):
            if len(v[1]) > 2:
                yield ty, (v[0], (a, b))
    if p == 'pair':
        yield ty.left(), v[1]
        yield ty.right(), v[2]
    elif p == 'or':
        yield ty.args[0 if v[0] == 'Left' else 1], v[1]
    elif p == 'option' and v[0] == 'Some':
        yield ty.args[0], v[1]
    elif p in ('list', 'set'):
        for x in v[1]:
            yield ty.args[0], x
    elif p in ('map', 'big_map') and v[0] != 'BigMapId':
        for k, x in v[1]:
            yield ty.args[0], k
            yield ty.args[1], x
    elif p == 'ticket':
        yield ty.args[0], v[2]
    # drop annotations of the root (they never matter for a single value unless they do)
    if ty.field is not None or ty.tname is not None:
        yield ty.anon(), v


_SHRINK_MEMO = {}


def shrink(ty: Ty, v, fails, budget=200, memo_key=None):
    """Greedy descent to a minimal (type, value) on which `fails(ty, v)` is still truthy.
    memo_key: when given, verdicts of sub-cases are memoised per (memo_key, type, value) in this process."""
    if memo_key is not None:
        raw = fails

        def fails(t, x, _raw=raw):
            k = (memo_key, t, x)
            r = _SHRINK_MEMO.get(k)
            if r is None:
                if len(_SHRINK_MEMO) > 200000:
                    _SHRINK_MEMO.clear()
                try:
                    r = bool(_raw(t, x))
                except Exception:
                    r = False
                _SHRINK_MEMO[k] = r
            return r
    n = 0
    progress = True
    while progress and n < budget:
        progress = False
        for sty, sv in sub_cases(ty, v):
            n += 1
            try:
                bad = fails(sty, sv)
            except Exception:
                bad = False
            if bad:
                ty, v, progress = sty, sv, True
                break
            if n >= budget:
                break
    return ty, v


def unordered(x):
    """abstract value / frozen Python object with every tuple of items sorted: equal images = same content up to order."""
    if isinstance(x, tuple):
        items = tuple(unordered(i) for i in x)
        if x and x[0] in ('Set', 'Map', 'BigMap', 'list', 'dict', 'set') and len(x) == 2 and isinstance(x[1], tuple):
            return (x[0], tuple(sorted((unordered(i) for i in x[1]), key=repr)))
        return items
    return x


def skeleton(ty: Ty, depth=3) -> str:
    """annotation-free text of the type, cut at `depth`."""
    if not ty.args:
        return ty.prim
    if depth == 0:
        return ty.prim + '(..)'
    return ty.prim + '(' + ','.join(skeleton(a, depth - 1) for a in ty.args) + ')'


def year_of(t: int) -> int:
    days = t // 86400
    z = days + 719468
    era = (z if z >= 0 else z - 146096) // 146097
    doe = z - era * 146097
    yoe = (doe - doe // 1460 + doe // 36524 - doe // 146096) // 365
    y = yoe + era * 400
    doy = doe - (365 * yoe + yoe // 4 - yoe // 100)
    mp = (5 * doy + 2) // 153
    m = mp + 3 if mp < 10 else mp - 9
    return y + (m <= 2)


def year_class(t: int) -> str:
    y = year_of(t)
    if y < 1:
        return 'year<1'
    if y < 1000:
        return '1<=year<1000'
    if y <= 9999:
        return '1000<=year<=9999'
    return 'year>9999'


def has_unit_key(ty: Ty) -> bool:
    return any(t.prim in ('set', 'map', 'big_map') and t.args[0].contains('unit') for t in ty.walk())


def key_kinds(ty: Ty, v):
    """base58 kinds occurring in a value (tz1, sr1, BLpk, ...), for order witnesses."""
    kinds = set()

    def go(t, x):
        if t.prim in G.B58_LIKE:
            kinds.add(G.b58_split(x.partition('%')[0])[0] + ('%' if '%' in x else ''))
        for st, sx in sub_cases(t.anon(), x):
            if st is not t and not (st.prim == t.prim and st.args == t.args):
                go(st, sx)
    go(ty, v)
    return sorted(kinds)


def collection_wclass(ty: Ty, v, text: str):
    """witness class of a shrunk failing set / map / big_map value, or None."""
    kt = ty.args[0]
    if 'unhashable' in text and kt.contains('unit'):
        return 'collection:unit-in-key:unhashable'
    n = len(v[1]) if v[0] != 'BigMapId' else 0
    if n >= 2:
        # shrunk: every single-element sub-collection passes, so the failure is about order / uniqueness of keys
        keys = tuple(k if ty.prim == 'set' else k[0] for k in v[1])
        culprits = []
        for a, b in zip(keys, keys[1:]):
            c = order_culprit(kt, a, b)
            if c not in culprits:
                culprits.append(c)
        return 'collection:key-order:' + ','.join(culprits)
    return None


def order_culprit(kt: Ty, a, b) -> str:
    """Where two keys (a before b in Michelson order) first differ: the leaf type deciding their order, the base58
    kinds met there, prefixed by `pair+` when the decision is taken inside a pair (lexicographic descent)."""
    via_pair = False
    t = kt
    while True:
        p = t.prim
        if p == 'pair':
            via_pair = True
            if G.cmp_values(t.left(), a[1], b[1]) != 0:
                t, a, b = t.left(), a[1], b[1]
            else:
                if a[1] != b[1]:
                    # equal values written differently (one signature as sig.. / edsig.. / spsig1.. / p2sig..)
                    kinds = key_kinds(t.left(), a[1]) + key_kinds(t.left(), b[1])
                    return 'pair+signature-notation:' + '+'.join(sorted(set(kinds)))
                t, a, b = t.right(), a[2], b[2]
        elif p == 'option':
            if a[0] != b[0] or a[0] == 'None':
                return ('pair+' if via_pair else '') + 'option-tag'
            t, a, b = t.args[0], a[1], b[1]
        elif p == 'or':
            if a[0] != b[0]:
                return ('pair+' if via_pair else '') + 'or-tag'
            t, a, b = t.args[0 if a[0] == 'Left' else 1], a[1], b[1]
        else:
            kinds = []
            if p in G.B58_LIKE:
                kinds = sorted({G.b58_split(x.partition('%')[0])[0] + ('%' if '%' in x else '') for x in (a, b)})
            return ('pair+' if via_pair else '') + p + (':' + '+'.join(kinds) if kinds else '')


def c11_wclass(ty: Ty, v, f: Failure) -> str:
    """Witness class of a *shrunk* failing case: why/where it fails, stable and specific."""
    mode = f.clause[f.clause.index('[') + 1:f.clause.index(']')] if '[' in f.clause else 'parse'
    p = ty.prim
    text = f.info
    if p == 'timestamp':
        return f'timestamp:{mode}:{year_class(v)}' + (':beyond-time_t' if abs(v) >= 2**62 else '')
    if p == 'key_hash':
        kind, payload = G.b58_split(v)
        tag = {'tz1': 0, 'tz2': 1, 'tz3': 2, 'tz4': 3}[kind]
        amb = (tag == 0 and payload[0] <= 3) or (tag in (1, 2, 3) and payload[-1] == 0)
        return f'key_hash:{mode}:' + ('tag-ambiguity' if amb else kind)
    if p in G.B58_LIKE:
        return f'{p}:{mode}:{"+".join(key_kinds(ty, v))}'
    if p in ('set', 'map', 'big_map'):
        w = collection_wclass(ty, v, text)
        if w:
            return w
    ename = type(f.exc).__name__ if f.exc is not None else 'wrong-value'
    return f'{skeleton(ty, 2)}:{mode}:{f.clause.split("::")[1]}:{ename}'


# ----------------------------------------------------------------------------- parallel map helper
def chunked(seq, n):
    for i in range(0, len(seq), n):
        yield seq[i:i + n]


def _fork_map(fn, items, procs, chunk):
    import multiprocessing as mp
    if procs <= 1:
        return [fn(x) for x in items]
    with mp.get_context('fork').Pool(procs) as pool:
        return pool.map(fn, items, chunksize=chunk)


def _zygote(conn, fn, items, procs, chunk):
    try:
        conn.send(('ok', _fork_map(fn, items, procs, chunk)))
    except BaseException:
        conn.send(('err', traceback.format_exc()))
    finally:
        conn.close()


def pmap(fn, items, procs=None, chunk=64, fixed_hash=False):
    """Deterministic parallel map (results in input order).
    fixed_hash: run the workers below one *spawned* interpreter with PYTHONHASHSEED=0.  Some library results
    (SetType.from_python_object iterates a Python set before sorting with an order that is not total) depend on
    str/bytes hash randomisation, which would make the list of failing cases differ from run to run."""
    procs = procs or int(os.environ.get('VERIF_PROCS', '0') or 0) or min(12, os.cpu_count() or 1)
    if not fixed_hash or os.environ.get('PYTHONHASHSEED') == '0':
        return _fork_map(fn, items, procs, chunk)
    import multiprocessing as mp
    old = os.environ.get('PYTHONHASHSEED')
    os.environ['PYTHONHASHSEED'] = '0'
    try:
        ctx = mp.get_context('spawn')
        parent, child = ctx.Pipe(duplex=False)
        p = ctx.Process(target=_zygote, args=(child, fn, items, procs, chunk), daemon=False)
        p.start()
        child.close()
        status, res = parent.recv()
        p.join()
    finally:
        if old is None:
            os.environ.pop('PYTHONHASHSEED', None)
        else:
            os.environ['PYTHONHASHSEED'] = old
    if status != 'ok':
        raise RuntimeError('worker failed:\n' + res)
    return res
