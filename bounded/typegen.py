"""Shared bounded generator of Michelson types and typed values (C11, C12, C13 and whoever needs it).

Independent of pytezos: nothing here imports pytezos.  Types are `Ty` trees (-> Micheline JSON with
`Ty.expr()`), values are *abstract values* (plain Python, hashable):

    unit ('Unit',) | bool | int (int nat mutez timestamp bls12_381_fr) | str (string and every base58
    type, `address`/`contract` optionally with '%entrypoint') | bytes (bytes chest chest_key g1 g2)
    ('Pair', a, b) | ('Left', a) | ('Right', b) | ('None',) | ('Some', a)
    ('List', (x, ..)) | ('Set', (x, ..)) sorted | ('Map', ((k, v), ..)) sorted by key
    ('BigMapId', n) | ('BigMap', ((k, v), ..)) | ('Lambda', json_text_of_code)
    ('Ticket', ticketer, content, amount) | ('SaplingId', n)

`neutral(ty, aval)` renders an abstract value in the notation every Tezos reader accepts in every
mode (nested binary `Pair`, base58 strings, integer timestamps); `from_neutral` is its inverse and
`cmp_values` the Michelson total order (used to emit sorted set / map literals).

Enumeration (see `type_families`): exhaustive layers with an explicit bound per family and a
VERIF_SEED-driven sample of the deeper layers.  Symmetric cases are cut deterministically: leaves of
structural families rotate through a fixed leaf alphabet instead of taking the full product.
"""
from __future__ import annotations
import hashlib, itertools, json, random

# ----------------------------------------------------------------------------- base58check (own codec)
_ALPHABET = '123456789ABCDEFGHJKLMNPQRSTUVWXYZabcdefghijkmnopqrstuvwxyz'
_AIDX = {c: i for i, c in enumerate(_ALPHABET)}


def b58check_encode(payload: bytes) -> str:
    data = payload + hashlib.sha256(hashlib.sha256(payload).digest()).digest()[:4]
    n = int.from_bytes(data, 'big')
    out = ''
    while n:
        n, r = divmod(n, 58)
        out = _ALPHABET[r] + out
    pad = len(data) - len(data.lstrip(b'\x00'))
    return '1' * pad + out


def b58check_decode(s: str) -> bytes:
    n = 0
    for c in s:
        n = n * 58 + _AIDX[c]
    pad = len(s) - len(s.lstrip('1'))
    raw = b'\x00' * pad + n.to_bytes((n.bit_length() + 7) // 8, 'big')
    data, chk = raw[:-4], raw[-4:]
    if hashlib.sha256(hashlib.sha256(data).digest()).digest()[:4] != chk:
        raise ValueError(f'bad base58 checksum: {s}')
    return data


# (text prefix, binary prefix, payload length); the well-known Tezos table
B58 = {
    'tz1': (bytes([6, 161, 159]), 20), 'tz2': (bytes([6, 161, 161]), 20), 'tz3': (bytes([6, 161, 164]), 20),
    'tz4': (bytes([6, 161, 166]), 20), 'KT1': (bytes([2, 90, 121]), 20), 'sr1': (bytes([6, 124, 117]), 20),
    'edpk': (bytes([13, 15, 37, 217]), 32), 'sppk': (bytes([3, 254, 226, 86]), 33),
    'p2pk': (bytes([3, 178, 139, 127]), 33), 'BLpk': (bytes([6, 149, 135, 204]), 48),
    'edsig': (bytes([9, 245, 205, 134, 18]), 64), 'spsig1': (bytes([13, 115, 101, 19, 63]), 64),
    'p2sig': (bytes([54, 240, 44, 52]), 64), 'sig': (bytes([4, 130, 43]), 64),
    'BLsig': (bytes([40, 171, 64, 207]), 96), 'Net': (bytes([87, 82, 0]), 4),
}


def b58(prefix: str, payload: bytes) -> str:
    bp, ln = B58[prefix]
    assert len(payload) == ln, (prefix, len(payload))
    s = b58check_encode(bp + payload)
    assert s.startswith(prefix), (prefix, s)
    return s


def b58_split(s: str):
    """base58 string -> (text prefix, payload bytes); longest matching table row."""
    raw = b58check_decode(s)
    for p in sorted(B58, key=len, reverse=True):
        bp, ln = B58[p]
        if s.startswith(p) and raw.startswith(bp) and len(raw) == len(bp) + ln:
            return p, raw[len(bp):]
    raise ValueError(f'unknown base58 kind: {s}')


# recorded literals from /repo/tests (test_crypto, test_encoding): validate the codec above
RECORDED_B58 = [
    'tz1eKkWU5hGtfLUiqNpucHrXymm83z3DG9Sq', 'NetXdQprcVkpaWU', 'KT1BEqzn5Wx8uJrZNvuS9DVHmLvG9td3fDLi',
    'edpku976gpuAD2bXyx1XGraeKuCo1gUZ3LAJcHM12W1ecxZwoiu22R', 'sppk7aMNM3xh14haqEyaxNjSt7hXanCDyoWtRcxF8wbtya859ak6yZT',
    'p2pk679D18uQNkdjpRxuBXL5CqcDKTKzsiXVtc9oCUT6xb82zQmgUks',
    'edsigtzLBGCyadERX1QsYHKpwnxSxEYQeGLnJGsSkHEsyY8vB5GcNdnvzUZDdFevJK7YZQ2ujwVjvQZn62ahCEcy74AwtbA8HuN',
    'sigqWxz3GKFXg6G8ndSzJF8JD9j7m12kPWZj6bHLqdKw6XpxhVLwGm26hVqMdEfgPdoz8qoA5QkM9mvnMyMFmYny9sqjb5bE',
]


def selftest_b58():
    for s in RECORDED_B58:
        p, payload = b58_split(s)
        assert b58(p, payload) == s, s
    return len(RECORDED_B58)


# ----------------------------------------------------------------------------- types
COMPARABLE_LEAVES = ('unit', 'bool', 'int', 'nat', 'string', 'bytes', 'mutez', 'timestamp', 'address',
                     'key', 'key_hash', 'signature', 'chain_id')
OTHER_LEAVES = ('bls12_381_fr', 'bls12_381_g1', 'bls12_381_g2', 'chest', 'chest_key')
LEAVES = COMPARABLE_LEAVES + OTHER_LEAVES
INT_LIKE = ('int', 'nat', 'mutez', 'timestamp', 'bls12_381_fr')
BYTES_LIKE = ('bytes', 'chest', 'chest_key', 'bls12_381_g1', 'bls12_381_g2')
B58_LIKE = ('address', 'key', 'key_hash', 'signature', 'chain_id', 'contract')


class Ty:
    """Immutable Michelson type tree.  `pair` may have n >= 2 args (right-comb notation)."""
    __slots__ = ('prim', 'args', 'field', 'tname', '_k')

    def __init__(self, prim, args=(), field=None, tname=None):
        self.prim, self.args, self.field, self.tname = prim, tuple(args), field, tname
        self._k = (prim, tuple(a._k for a in self.args), field, tname)

    def __eq__(self, o):
        return isinstance(o, Ty) and self._k == o._k

    def __hash__(self):
        return hash(self._k)

    def __repr__(self):
        return self.michelson()

    def named(self, field=None, tname=None):
        return Ty(self.prim, self.args, field, tname)

    def anon(self):
        return Ty(self.prim, self.args)

    def expr(self):
        e = {'prim': self.prim}
        annots = ([f':{self.tname}'] if self.tname is not None else []) + ([f'%{self.field}'] if self.field is not None else [])
        if annots:
            e['annots'] = annots
        if self.args:
            e['args'] = [a.expr() for a in self.args]
        return e

    def michelson(self, top=True):
        parts = [self.prim]
        if self.tname is not None:
            parts.append(f':{self.tname}')
        if self.field is not None:
            parts.append(f'%{self.field}')
        parts += [a.michelson(False) for a in self.args]
        s = ' '.join(parts)
        return s if top or len(parts) == 1 else f'({s})'

    # binary view of pairs: pair a b c  ==  pair a (pair b c)
    def left(self):
        return self.args[0]

    def right(self):
        assert self.prim == 'pair'
        return self.args[1] if len(self.args) == 2 else Ty('pair', self.args[1:])

    def depth(self):
        return 0 if not self.args else 1 + max(a.depth() for a in self.args)

    def walk(self):
        yield self
        for a in self.args:
            yield from a.walk()

    def contains(self, prim):
        return any(t.prim == prim for t in self.walk())

    @staticmethod
    def from_expr(e):
        annots = e.get('annots', [])
        f = next((a[1:] for a in annots if a.startswith('%')), None)
        t = next((a[1:] for a in annots if a.startswith(':')), None)
        return Ty(e['prim'], [Ty.from_expr(a) for a in e.get('args', [])], f, t)


def T(prim, *args, f=None, t=None):
    return Ty(prim, args, f, t)


def is_comparable(ty: Ty) -> bool:
    if ty.prim in COMPARABLE_LEAVES:
        return True
    if ty.prim in ('pair', 'or', 'option'):
        return all(is_comparable(a) for a in ty.args)
    return False


def big_map_friendly(ty: Ty) -> bool:
    return not any(t.prim in ('big_map', 'sapling_state', 'operation') for t in ty.walk())


def is_storable(ty: Ty) -> bool:
    return not any(t.prim in ('contract', 'operation') for t in ty.walk() )


# ----------------------------------------------------------------------------- boundary values of leaves
def _days_from_civil(y, m, d):
    y -= m <= 2
    era = (y if y >= 0 else y - 399) // 400
    yoe = y - era * 400
    doy = (153 * (m + (-3 if m > 2 else 9)) + 2) // 5 + d - 1
    doe = yoe * 365 + yoe // 4 - yoe // 100 + doy
    return era * 146097 + doe - 719468


def utc_seconds(y, mo=1, d=1, h=0, mi=0, s=0):
    """Proleptic Gregorian UTC -> Unix seconds (own implementation, any year incl. 0 and negatives)."""
    return _days_from_civil(y, mo, d) * 86400 + h * 3600 + mi * 60 + s


def parse_rfc3339_utc(s: str):
    """Strict 'YYYY-MM-DDTHH:MM:SSZ' (4-digit year) -> seconds, else None."""
    import re
    m = re.fullmatch(r'(\d{4})-(\d{2})-(\d{2})[Tt ](\d{2}):(\d{2}):(\d{2})(?:\.\d+)?(Z|z|[+-]\d{2}:\d{2})', s)
    if not m:
        return None
    y, mo, d, h, mi, sec = (int(x) for x in m.groups()[:6])
    if not (1 <= mo <= 12 and 1 <= d <= 31 and h < 24 and mi < 60 and sec < 61):
        return None
    off = 0
    tz = m.group(7)
    if tz not in 'Zz':
        off = (int(tz[1:3]) * 3600 + int(tz[4:6]) * 60) * (1 if tz[0] == '+' else -1)
    return utc_seconds(y, mo, d, h, mi, sec) - off


assert utc_seconds(1970) == 0 and utc_seconds(10000) == 253402300800 and utc_seconds(1) == -62135596800
assert utc_seconds(1000) == -30610224000 and utc_seconds(0) == -62167219200 and utc_seconds(2000, 3, 1) == 951868800

TS_BOUNDARY = [
    0, 1, -1, 1600000000, 2**31 - 1, 2**31,
    utc_seconds(1000), utc_seconds(1000) - 1,            # year 999 | 1000
    utc_seconds(10000) - 1, utc_seconds(10000),          # year 9999 | 10000
    utc_seconds(1), utc_seconds(1) - 1,                  # year 0 | 1
    utc_seconds(0), utc_seconds(0) - 1,                  # year -1 | 0
    utc_seconds(999, 6, 15, 12, 30, 45), utc_seconds(100, 2, 28), utc_seconds(2024, 2, 29, 23, 59, 59),
    -2**70, 2**70, 2**63, -2**63 - 1,
]

_H0, _HF, _HR = b'\x00' * 20, b'\xff' * 20, bytes(range(1, 21))
_HZ = bytes(range(7, 26)) + b'\x00'                      # digest ending in 00
_HS = b'\x00\x01\x02' + bytes(range(40, 57))             # digest starting 00 01 02
_K32 = bytes(range(32))
_K33a, _K33b = b'\x02' + bytes(range(100, 132)), b'\x03' + bytes(range(100, 132))
_S64 = bytes((i * 7 + 3) % 256 for i in range(64))

LEAF_VALUES = {
    'unit': [('Unit',)],
    'bool': [False, True],
    'int': [0, 1, -1, 63, 64, -64, -65, 127, 128, 2**63 - 1, 2**64, -2**64, 2**4099 + 12345, -(2**3001) + 1],
    'nat': [0, 1, 127, 128, 2**63, 2**2048 + 7],
    'mutez': [0, 1, 10**6, 2**63 - 1],
    'timestamp': TS_BOUNDARY,
    'string': ['', 'a', 'hello world', 'a"b\\c\nd', 'x' * 1000, '0', 'Unit'],
    'bytes': [b'', b'\x00', b'\xff' * 33, b'\x05\x00\x2a', bytes(range(256))],
    'chest': [b'', b'\x01\x02'], 'chest_key': [b'', b'\xaa' * 5],
    'bls12_381_fr': [0, 1, 2**200 + 5, 0x73EDA753299D7D483339D80809A1D80553BDA402FFFE5BFEFFFFFFFF00000001 - 1],
    'bls12_381_g1': [b'\x00' * 96, bytes(i % 251 for i in range(96))],
    'bls12_381_g2': [b'\x00' * 192, bytes(i % 241 for i in range(192))],
}


def _lazy_b58_values():
    kt = b58('KT1', _HR)
    LEAF_VALUES.update({
        'address': [b58('tz1', _HR), b58('tz1', _H0), b58('tz1', _HF), b58('tz2', _HR), b58('tz3', _HZ), b58('tz4', _HR),
                    kt, b58('KT1', _H0), kt + '%foo', kt + '%a_very_long_entrypoint_name_31ch', b58('sr1', _HR)],
        'contract': [kt, kt + '%foo', b58('tz1', _HR)],
        'key_hash': [b58('tz1', _HR), b58('tz1', _H0), b58('tz1', _HF), b58('tz2', _HR), b58('tz3', _HR), b58('tz4', _HR),
                     b58('tz2', _HZ), b58('tz1', _HS), b58('tz3', _H0)],
        'key': [b58('edpk', _K32), b58('edpk', b'\x00' * 32), b58('sppk', _K33a), b58('sppk', _K33b), b58('p2pk', _K33a),
                b58('p2pk', _K33b), b58('BLpk', bytes(range(48)))],
        'signature': [b58('sig', _S64), b58('edsig', _S64), b58('spsig1', _S64), b58('p2sig', _S64), b58('sig', b'\x00' * 64),
                      b58('BLsig', bytes(range(96)))],
        'chain_id': ['NetXdQprcVkpaWU', b58('Net', b'\x00' * 4), b58('Net', b'\xff' * 4)],
    })


_lazy_b58_values()

LAMBDA_CODES = [
    [],
    [{'prim': 'DROP'}, {'prim': 'PUSH', 'args': [{'prim': 'int'}, {'int': '1'}]}],
    [{'prim': 'DUP'}, {'prim': 'DIP', 'args': [[{'prim': 'DROP'}]]},
     {'prim': 'IF_LEFT', 'args': [[{'prim': 'DROP'}, {'prim': 'UNIT'}], [{'prim': 'DROP'}, {'prim': 'UNIT'}]]}],
    [{'prim': 'PUSH', 'args': [{'prim': 'string'}, {'string': 'x y'}]}, {'prim': 'FAILWITH'}],
]


# ----------------------------------------------------------------------------- Michelson total order
def canon_leaf(prim, v):
    """Canonical comparison form of a leaf value: base58 strings -> binary content, so that two
    notations of the same value (edsig.. / sig..) are one value."""
    if prim in ('address', 'contract'):
        s, _, ep = v.partition('%')
        p, payload = b58_split(s)
        if ep == 'default':
            ep = ''
        return ('addr', p, payload, ep)
    if prim == 'signature':
        p, payload = b58_split(v)
        return ('sig', payload)
    if prim in ('key', 'key_hash', 'chain_id'):
        return (prim,) + b58_split(v)
    return v


_ADDR_RANK = {'tz1': (0, 0), 'tz2': (0, 1), 'tz3': (0, 2), 'tz4': (0, 3), 'KT1': (1, 0), 'sr1': (3, 0)}
_KEY_RANK = {'edpk': 0, 'sppk': 1, 'p2pk': 2, 'BLpk': 3}


def _leaf_key(prim, v):
    if prim == 'unit':
        return 0
    if prim in ('address',):
        _, p, payload, ep = canon_leaf(prim, v)
        return (_ADDR_RANK[p], payload, ep.encode())
    if prim == 'key_hash':
        _, p, payload = canon_leaf(prim, v)
        return (_ADDR_RANK[p][1], payload)
    if prim == 'key':
        _, p, payload = canon_leaf(prim, v)
        return (_KEY_RANK[p], payload)
    if prim == 'signature':
        return canon_leaf(prim, v)[1]
    if prim == 'chain_id':
        return canon_leaf(prim, v)[2]
    if prim == 'string':
        return v.encode()
    return v


def cmp_values(ty: Ty, a, b) -> int:
    p = ty.prim
    if p == 'pair':
        c = cmp_values(ty.left(), a[1], b[1])
        return c if c else cmp_values(ty.right(), a[2], b[2])
    if p == 'option':
        if a[0] != b[0]:
            return -1 if a[0] == 'None' else 1
        return 0 if a[0] == 'None' else cmp_values(ty.args[0], a[1], b[1])
    if p == 'or':
        if a[0] != b[0]:
            return -1 if a[0] == 'Left' else 1
        return cmp_values(ty.args[0 if a[0] == 'Left' else 1], a[1], b[1])
    ka, kb = _leaf_key(p, a), _leaf_key(p, b)
    return (ka > kb) - (ka < kb)


def sort_values(ty: Ty, vals):
    import functools
    out = []
    for v in sorted(vals, key=functools.cmp_to_key(lambda x, y: cmp_values(ty, x, y))):
        if not out or cmp_values(ty, out[-1], v) != 0:
            out.append(v)
    return out


# ----------------------------------------------------------------------------- values of a type
def values(ty: Ty, k: int = 4, full_leaves: bool = False):
    """A covering list of abstract values of `ty` (every constructor alternative, empty and non-empty
    collections, boundary leaves); at most ~k values for composite types.  Deterministic."""
    p = ty.prim
    if p in LEAF_VALUES:
        vs = LEAF_VALUES[p]
        if full_leaves or len(vs) <= k:
            return list(vs)
        # spread over the boundary list deterministically: first, last, and evenly between
        idx = sorted({round(i * (len(vs) - 1) / (k - 1)) for i in range(k)}) if k > 1 else [0]
        return [vs[i] for i in idx]
    if p == 'contract':
        return list(LEAF_VALUES['contract'])[:k]
    if p == 'pair':
        ls, rs = values(ty.left(), k), values(ty.right(), k)
        n = max(len(ls), len(rs))
        return [('Pair', ls[i % len(ls)], rs[(i + (i // len(ls))) % len(rs)]) for i in range(min(n, max(k, 2)))]
    if p == 'or':
        ls, rs = values(ty.args[0], k), values(ty.args[1], k)
        h = max(1, k // 2)
        return [('Left', x) for x in ls[:h]] + [('Right', x) for x in rs[:h]]
    if p == 'option':
        return [('None',)] + [('Some', x) for x in values(ty.args[0], k)[:max(1, k - 1)]]
    if p == 'list':
        xs = values(ty.args[0], k)
        return [('List', ()), ('List', (xs[0],)), ('List', tuple(xs + xs[:1]))][:max(k, 2)]
    if p == 'set':
        xs = sort_values(ty.args[0], values(ty.args[0], max(k, 3)))
        return [('Set', ()), ('Set', tuple(xs[:1])), ('Set', tuple(xs))][:max(k, 2)] if len(xs) > 1 else [('Set', ()), ('Set', tuple(xs))]
    if p in ('map', 'big_map'):
        ks = sort_values(ty.args[0], values(ty.args[0], max(k, 3)))
        vs = values(ty.args[1], k)
        items = tuple((kk, vs[i % len(vs)]) for i, kk in enumerate(ks))
        tag = 'Map' if p == 'map' else 'BigMap'
        out = [(tag, ()), (tag, items[:1])] + ([(tag, items)] if len(items) > 1 else [])
        if p == 'big_map':
            out = [('BigMapId', 0), ('BigMapId', 12345)] + out
        return out
    if p == 'lambda':
        return [('Lambda', json.dumps(c, sort_keys=True)) for c in LAMBDA_CODES][:k]
    if p == 'ticket':
        cs = values(ty.args[0], k)
        tk = LEAF_VALUES['address'][6]
        return [('Ticket', tk, cs[i % len(cs)], amt) for i, amt in enumerate([1, 2**70 + 1, 42][:max(2, min(k, 3))])]
    if p == 'sapling_state':
        return [('SaplingId', 0), ('SaplingId', 77)]
    raise ValueError(f'no values for {ty}')


def has_big_map_literal(v) -> bool:
    if isinstance(v, tuple):
        if v and v[0] == 'BigMap':
            return True
        return any(has_big_map_literal(x) for x in v)
    return False


# ----------------------------------------------------------------------------- neutral Micheline notation
def neutral(ty: Ty, v):
    p = ty.prim
    if p == 'unit':
        return {'prim': 'Unit'}
    if p == 'bool':
        return {'prim': 'True' if v else 'False'}
    if p in INT_LIKE:
        return {'int': str(v)}
    if p == 'string' or p in B58_LIKE:
        return {'string': v}
    if p in BYTES_LIKE:
        return {'bytes': v.hex()}
    if p == 'pair':
        return {'prim': 'Pair', 'args': [neutral(ty.left(), v[1]), neutral(ty.right(), v[2])]}
    if p == 'or':
        return {'prim': v[0], 'args': [neutral(ty.args[0 if v[0] == 'Left' else 1], v[1])]}
    if p == 'option':
        return {'prim': 'None'} if v[0] == 'None' else {'prim': 'Some', 'args': [neutral(ty.args[0], v[1])]}
    if p in ('list', 'set'):
        return [neutral(ty.args[0], x) for x in v[1]]
    if p in ('map', 'big_map'):
        if v[0] == 'BigMapId':
            return {'int': str(v[1])}
        return [{'prim': 'Elt', 'args': [neutral(ty.args[0], a), neutral(ty.args[1], b)]} for a, b in v[1]]
    if p == 'lambda':
        return json.loads(v[1])
    if p == 'ticket':
        return {'prim': 'Pair', 'args': [{'string': v[1]}, {'prim': 'Pair', 'args': [neutral(ty.args[0], v[2]), {'int': str(v[3])}]}]}
    if p == 'sapling_state':
        return {'int': str(v[1])}
    raise ValueError(p)


def from_neutral(ty: Ty, m):
    p = ty.prim
    if p == 'unit':
        return ('Unit',)
    if p == 'bool':
        return m['prim'] == 'True'
    if p in INT_LIKE:
        return int(m['int'])
    if p == 'string' or p in B58_LIKE:
        return m['string']
    if p in BYTES_LIKE:
        return bytes.fromhex(m['bytes'])
    if p == 'pair':
        return ('Pair', from_neutral(ty.left(), m['args'][0]), from_neutral(ty.right(), m['args'][1]))
    if p == 'or':
        return (m['prim'], from_neutral(ty.args[0 if m['prim'] == 'Left' else 1], m['args'][0]))
    if p == 'option':
        return ('None',) if m['prim'] == 'None' else ('Some', from_neutral(ty.args[0], m['args'][0]))
    if p in ('list', 'set'):
        return ('List' if p == 'list' else 'Set', tuple(from_neutral(ty.args[0], x) for x in m))
    if p in ('map', 'big_map'):
        if isinstance(m, dict):
            return ('BigMapId', int(m['int']))
        return ('Map' if p == 'map' else 'BigMap',
                tuple((from_neutral(ty.args[0], e['args'][0]), from_neutral(ty.args[1], e['args'][1])) for e in m))
    if p == 'lambda':
        return ('Lambda', json.dumps(m, sort_keys=True))
    if p == 'ticket':
        return ('Ticket', m['args'][0]['string'], from_neutral(ty.args[0], m['args'][1]['args'][0]), int(m['args'][1]['args'][1]['int']))
    if p == 'sapling_state':
        return ('SaplingId', int(m['int']))
    raise ValueError(p)


def canon_value(ty: Ty, v):
    """Abstract value with every leaf replaced by its canonical comparison form (see canon_leaf)."""
    p = ty.prim
    if not isinstance(v, tuple) or p in LEAVES or p == 'contract':
        return canon_leaf(p, v) if p in B58_LIKE else v
    if p == 'pair':
        return ('Pair', canon_value(ty.left(), v[1]), canon_value(ty.right(), v[2]))
    if p == 'or':
        return (v[0], canon_value(ty.args[0 if v[0] == 'Left' else 1], v[1]))
    if p == 'option':
        return v if v[0] == 'None' else ('Some', canon_value(ty.args[0], v[1]))
    if p in ('list', 'set'):
        return (v[0], tuple(canon_value(ty.args[0], x) for x in v[1]))
    if p in ('map', 'big_map'):
        if v[0] == 'BigMapId':
            return v
        return (v[0], tuple((canon_value(ty.args[0], a), canon_value(ty.args[1], b)) for a, b in v[1]))
    if p == 'ticket':
        return ('Ticket', canon_leaf('address', v[1]), canon_value(ty.args[0], v[2]), v[3])
    return v


# ----------------------------------------------------------------------------- type families
NAMES = ('a', 'b')
#: names that look like names a library would generate for unnamed fields (collision probes)
GENERATED_LIKE = tuple(f'{p}_{j}' for p in ('int', 'nat', 'unit', 'string', 'pair', 'or') for j in range(4))


def _rot(seq, i):
    return seq[i % len(seq)]


def tree_shapes(depth):
    """All binary tree shapes of depth <= `depth`: 'L' or (l, r)."""
    if depth == 0:
        return ['L']
    sub = tree_shapes(depth - 1)
    return ['L'] + [(l, r) for l in sub for r in sub]


def shape_nodes(shape, path=''):
    """paths of all nodes in preorder ('' = root)."""
    yield path
    if shape != 'L':
        yield from shape_nodes(shape[0], path + '0')
        yield from shape_nodes(shape[1], path + '1')


def build_tree(shape, kind_of, leaf_of, annot_of, path=''):
    """shape -> Ty; kind_of(path) -> 'pair'|'or' for inner nodes, leaf_of(path, idx) -> Ty for leaves,
    annot_of(path) -> (field, tname)."""
    counter = [0]

    def go(sh, pa):
        f, t = annot_of(pa)
        if sh == 'L':
            leaf = leaf_of(pa, counter[0])
            counter[0] += 1
            return leaf.named(f, t)
        return Ty(kind_of(pa), (go(sh[0], pa + '0'), go(sh[1], pa + '1')), f, t)
    return go(shape, path)


def family_leaves():
    return [T(p) for p in LEAVES]


def family_wrap1():
    """every leaf type under every unary/binary constructor position (depth 1) + domain containers."""
    out = []
    I, N, S, U = T('int'), T('nat'), T('string'), T('unit')
    for p in LEAVES:
        L = T(p)
        out += [T('option', L), T('list', L), T('map', S, L), T('pair', L, I), T('pair', N, L), T('or', L, U), T('or', U, L),
                T('option', T('option', L)), T('pair', L, L, f=None), T('lambda', L, L)]
        if big_map_friendly(L):
            out.append(T('big_map', N, L))
        if p in COMPARABLE_LEAVES:
            out += [T('set', L), T('map', L, I), T('big_map', L, N), T('ticket', L)]
    out += [T('contract', U), T('contract', T('or', I, S)), T('pair', T('contract', N), I), T('option', T('contract', U)),
            T('lambda', I, T('pair', I, S))]
    return out


def family_struct(depth, alphabet, limit=None, rng=None):
    """all unannotated types of depth <= `depth` over the leaf `alphabet` with constructors
    option list set map big_map pair or (validity: comparable keys, big_map value restrictions).
    When `limit` is given the deepest layer is sampled with `rng` instead of enumerated."""
    layers = [[T(p) for p in alphabet]]
    allprev = list(layers[0])
    for d in range(1, depth + 1):
        prev_top = layers[-1]           # types of depth exactly d-1
        older = [t for t in allprev if t not in set(prev_top)]
        new = []

        def pairs_with_top():
            # at least one child of depth exactly d-1
            for a in prev_top:
                for b in allprev:
                    yield a, b
            for a in older:
                for b in prev_top:
                    yield a, b
        cand = []
        for a in prev_top:
            cand.append(('option', (a,)))
            cand.append(('list', (a,)))
            if is_comparable(a):
                cand.append(('set', (a,)))
        for a, b in pairs_with_top():
            cand.append(('pair', (a, b)))
            cand.append(('or', (a, b)))
            if is_comparable(a):
                cand.append(('map', (a, b)))
                if big_map_friendly(b):
                    cand.append(('big_map', (a, b)))
        if limit is not None and d == depth and len(cand) > limit:
            cand = rng.sample(cand, limit)
        for prim, args in cand:
            new.append(Ty(prim, args))
        layers.append(new)
        allprev += new
    return allprev


def family_combs(max_len=6):
    """right combs of length 2..max_len in n-ary and nested notation, leaf rotation, annotation patterns,
    bare and inside containers."""
    out = []
    rot = ('int', 'string', 'nat', 'bytes', 'bool', 'unit', 'timestamp')
    for n in range(2, max_len + 1):
        leaves = [T(_rot(rot, i)) for i in range(n)]
        patterns = {
            'none': [None] * n,
            'all': [f'f{i}' for i in range(n)],
            'first': ['a'] + [None] * (n - 1),
            'last': [None] * (n - 1) + ['a'],
            'dup': ['a'] * n,
            'dup2': ['a', 'b'] * (n // 2) + ['a'] * (n % 2),
        }
        for pname, pat in patterns.items():
            named = [l.named(f) for l, f in zip(leaves, pat)]
            nary = Ty('pair', named)

            def nest(xs, inner_field=None, level=0):
                if len(xs) == 2:
                    return Ty('pair', xs, inner_field if level else None)
                return Ty('pair', (xs[0], nest(xs[1:], inner_field, level + 1)), inner_field if level else None)
            nested = nest(named)
            out += [nary, nested]
            if pname in ('none', 'all') and n >= 3:
                out.append(nest(named, 'in'))              # annotated inner pairs stop the flattening
                # left-leaning tree with the same leaves
                left = named[0]
                for x in named[1:]:
                    left = Ty('pair', (left, x))
                out.append(left)
            if pname == 'none':
                out += [T('option', nary), T('list', nary), T('map', T('string'), nary), T('or', nary, T('unit')),
                        T('pair', nary, nary)]
                if all(is_comparable(l) for l in leaves):
                    out += [T('set', nary), T('map', nary, T('int')), T('big_map', nested, T('nat'))]
    return out


def family_options():
    I, U, S = T('int'), T('unit'), T('string')
    O = lambda x: T('option', x)
    return [O(O(I)), O(O(O(I))), O(O(U)), O(U), O(T('or', I, U)), T('or', O(I), O(O(S))), T('list', O(O(I))),
            T('pair', O(O(I)), I), T('pair', O(I, ).named('x'), O(O(S)).named('y')), T('map', S, O(O(I))),
            T('map', O(I), O(I)), T('set', O(O(I))), T('map', O(O(I)), I), O(T('pair', O(I), O(S))), O(T('list', O(I))),
            T('big_map', I, O(O(I))), O(T('lambda', U, U)), O(T('ticket', S))]


def family_collections():
    I, N, S, U, B, Bo = T('int'), T('nat'), T('string'), T('unit'), T('bytes'), T('bool')
    keys = [T('pair', I, S), T('pair', T('pair', I, N), B), Ty('pair', (I, N, S)), T('option', I), T('or', I, S),
            T('or', U, U), T('or', T('or', U, U), U), T('pair', U, I), T('option', T('pair', I, I)), T('pair', T('int', f='k1'), T('string', f='k2')),
            T('or', T('int', f='l'), T('string', f='r')), T('pair', T('option', N), T('or', Bo, B)), T('pair', I, I),
            Ty('pair', (I, I, I, I)), T('address'), T('key_hash'), T('timestamp'), Bo, B, U, T('key'), T('signature'), T('chain_id'), T('mutez')]
    vals = [I, T('pair', T('nat', f='x'), T('string', f='y')), T('list', I), T('map', S, I), T('option', N), T('or', I, U)]
    out = []
    for i, k in enumerate(keys):
        out += [T('set', k), T('map', k, _rot(vals, i)), T('big_map', k, _rot(vals, i + 1)), T('map', k, T('map', k, I)),
                T('list', T('set', k)), T('pair', T('set', k).named('s'), T('map', k, U).named('m'))]
    out += [T('map', S, T('big_map', I, I)), T('list', T('big_map', S, N)), T('pair', T('big_map', S, N), T('big_map', N, S)),
            T('option', T('big_map', I, T('map', S, I))), T('or', T('big_map', I, I), I), T('big_map', I, T('ticket', S)),
            T('list', T('list', T('list', I))), T('map', I, T('list', T('map', S, T('set', N))))]
    return out


def family_tickets_lambdas():
    I, N, S, U = T('int'), T('nat'), T('string'), T('unit')
    return [T('ticket', T('pair', I, S)), T('ticket', Ty('pair', (I, N, S))), T('ticket', T('option', I)), T('ticket', T('or', U, U)),
            T('pair', T('ticket', S), I), T('list', T('ticket', N)), T('map', S, T('ticket', U)), T('option', T('ticket', I)),
            T('lambda', T('pair', I, I), T('list', T('operation'))), T('pair', T('lambda', U, U), N), T('list', T('lambda', I, I)),
            T('map', S, T('lambda', I, I)), T('or', T('lambda', U, U), T('ticket', S)), T('big_map', N, T('lambda', N, N))]


def family_names(depth=2, full=False):
    """pair / or trees (depth <= `depth`) with every placement of field annotations from {none,a,b} on
    the non-root nodes (this includes duplicate names), every single placement of a generated-looking
    name, type-annotation placements, and pair<->or mixes.  Leaves rotate int, nat, unit, string."""
    out = []
    rot = ('int', 'nat', 'unit', 'string')
    shapes = [s for s in tree_shapes(depth) if s != 'L']
    kinds = {
        'pair': lambda pa: 'pair', 'or': lambda pa: 'or',
        'pair/or': lambda pa: 'pair' if len(pa) % 2 == 0 else 'or',
        'or/pair': lambda pa: 'or' if len(pa) % 2 == 0 else 'pair',
    }
    leaf_sets = {
        'rot': lambda pa, i: T(_rot(rot, i)),
        'int': lambda pa, i: T('int'),
        'unit': lambda pa, i: T('unit'),
    }
    for shape in shapes:
        nodes = [p for p in shape_nodes(shape) if p]
        for kname, kind in kinds.items():
            if kname in ('pair/or', 'or/pair') and shape in (('L', 'L'),):
                continue
            for lname, leaf in leaf_sets.items():
                if lname == 'unit' and kname != 'or':
                    continue                               # enums = unions of unit
                if lname == 'int' and kname not in ('pair', 'or'):
                    continue
                # (1) every {none,a,b} placement
                if len(nodes) <= 4 or full or lname == 'rot':
                    alph = (None,) + NAMES
                    if not full and (len(nodes) > 4 or (len(nodes) > 2 and (kname not in ('pair', 'or') or lname != 'rot'))):
                        alph = (None, 'a')                 # quick: binary alphabet on the larger / mixed shapes
                    for combo in itertools.product(alph, repeat=len(nodes)):
                        m = dict(zip(nodes, combo))
                        out.append(build_tree(shape, kind, leaf, lambda pa: (m.get(pa), None)))
                # (2) single generated-looking names (others unnamed / all others 'a')
                if lname in ('rot', 'int'):
                    for node in nodes:
                        for g in (GENERATED_LIKE if full or kname in ('pair', 'or') else GENERATED_LIKE[:8]):
                            out.append(build_tree(shape, kind, leaf, lambda pa: (g if pa == node else None, None)))
                            if full:
                                out.append(build_tree(shape, kind, leaf, lambda pa: (g if pa == node else ('a' if pa else None), None)))
                # (3) type annotations as names
                if lname == 'rot' and (full or kname in ('pair', 'or')):
                    for combo in itertools.product((None, 'a', 'b') if full else (None, 'a'), repeat=len(nodes)) if len(nodes) <= 4 else ():
                        m = dict(zip(nodes, combo))
                        out.append(build_tree(shape, kind, leaf, lambda pa: (None, m.get(pa))))
                    for node in nodes:                      # one type name among field names
                        out.append(build_tree(shape, kind, leaf, lambda pa: ('a', None) if pa and pa != node else (None, 'a' if pa else None)))
    # de-duplicate, keep order
    seen, res = set(), []
    for t in out:
        if t not in seen:
            seen.add(t)
            res.append(t)
    return res


def random_type(rng: random.Random, depth: int, comparable=False, annot=None, bm_ok=True) -> Ty:
    leaves = COMPARABLE_LEAVES if comparable else LEAVES
    if depth == 0 or rng.random() < 0.15:
        return T(rng.choice(leaves))
    cons = ['pair', 'pair', 'or', 'or', 'option', 'comb']
    if not comparable:
        cons += ['list', 'set', 'map', 'map', 'lambda', 'ticket'] + (['big_map'] if bm_ok else [])
    c = rng.choice(cons)

    def ann(t):
        r = rng.random()
        if r < 0.35:
            return t.named(rng.choice(NAMES + ('c', 'int_1', 'nat_0', 'default')))
        if r < 0.45:
            return t.named(None, rng.choice(NAMES))
        return t
    sub = lambda **kw: random_type(rng, depth - 1, **{'comparable': comparable, 'bm_ok': bm_ok, **kw})
    if c == 'pair':
        return T('pair', ann(sub()), ann(sub()))
    if c == 'or':
        return T('or', ann(sub()), ann(sub()))
    if c == 'comb':
        return Ty('pair', [ann(sub()) for _ in range(rng.randint(3, 5))])
    if c == 'option':
        return T('option', sub())
    if c == 'list':
        return T('list', sub())
    if c == 'set':
        return T('set', sub(comparable=True))
    if c == 'map':
        return T('map', sub(comparable=True), sub())
    if c == 'big_map':
        return T('big_map', sub(comparable=True), sub(bm_ok=False))
    if c == 'lambda':
        return T('lambda', T('unit'), T('unit'))
    if c == 'ticket':
        return T('ticket', sub(comparable=True))
    raise AssertionError(c)


def family_random(seed, n, depth):
    rng = random.Random(f'typegen-{seed}-{depth}')
    return [random_type(rng, depth) for _ in range(n)]


def type_families(tier='quick', seed=0):
    """-> ordered dict family name -> list of Ty.  The stated bounds are in BOUNDS(tier)."""
    b = BOUNDS(tier)
    rng = random.Random(f'typegen-struct-{seed}')
    fam = {
        'leaf': family_leaves(),
        'wrap1': family_wrap1(),
        'struct': family_struct(b['struct_depth'], b['struct_alphabet']),
        'struct_deep': [t for t in family_struct(b['struct_depth'] + 1, b['struct_alphabet'][:1], limit=b['struct_deep_sample'], rng=rng)
                        if t.depth() == b['struct_depth'] + 1],
        'combs': family_combs(b['comb_len']),
        'options': family_options(),
        'collections': family_collections(),
        'tickets_lambdas': family_tickets_lambdas(),
        'names': family_names(b['names_depth'], full=(tier == 'thorough')),
        'random': family_random(seed, b['random_n'], b['random_depth']),
    }
    return fam


def BOUNDS(tier):
    if tier == 'thorough':
        return dict(struct_depth=2, struct_alphabet=('int', 'unit', 'string'), struct_deep_sample=4000, comb_len=6, names_depth=2,
                    random_n=3000, random_depth=4, values_per_type=6, union_depth=3)
    return dict(struct_depth=2, struct_alphabet=('int', 'unit'), struct_deep_sample=400, comb_len=6, names_depth=2,
                random_n=300, random_depth=3, values_per_type=3, union_depth=2)


# ----------------------------------------------------------------------------- parameter (union) types for C13
def well_formed_entrypoints(ty: Ty) -> bool:
    """Tezos well_formed_entrypoints: no duplicate names among annotated nodes reachable through `or`
    nodes (root included); if an entrypoint is named `default`, every non-`or` leaf is below an annotated node."""
    names, unreachable = [], []

    def go(t, covered):
        cov = covered or t.field is not None
        if t.field is not None:
            names.append(t.field)
        if t.prim == 'or':
            go(t.args[0], cov)
            go(t.args[1], cov)
        elif not cov:
            unreachable.append(t)
    go(ty, False)
    if len(set(names)) != len(names):
        return False
    if 'default' in names and unreachable:
        return False
    return True


def param_types(tier='quick', seed=0):
    """Parameter types (Tezos-well-formed only): all `or` trees of depth <= union_depth (quick 2, thorough 3).
    Shapes with <= 7 nodes: every subset of annotated nodes (root included) with distinct names e0,e1,..; on every
    annotated node the special names `default` / `root`; on every ordered pair of annotated nodes (default, root)
    (quick: only for subsets of <= 3 annotated nodes on the 7-node shape).  Shapes with > 7 nodes (depth 3): every
    subset of size <= 2 or >= n-1 plus a VERIF_SEED sample (120 / shape), special names on the first two annotated
    nodes.  Plus: one type-annotated node (not an entrypoint) per position, non-union roots with and without a root
    annotation, unions below pair / option / list (not entrypoints), lambda / contract / big_map / ticket leaves.
    Leaves rotate unit, int, nat, string, pair int nat, option int."""
    b = BOUNDS(tier)
    depth = b['union_depth']
    rot = (T('unit'), T('int'), T('nat'), T('string'), T('pair', T('int'), T('nat')), T('option', T('int')))
    out = []
    rng = random.Random(f'typegen-param-{seed}')
    for shape in tree_shapes(depth):
        nodes = list(shape_nodes(shape))
        if shape == 'L':
            continue
        subsets = itertools.product((False, True), repeat=len(nodes))
        subsets = list(subsets)
        if len(nodes) > 7:
            # deep layer: all subsets of size <= 2, the full set, and a seeded sample
            small = [s for s in subsets if sum(s) <= 2 or sum(s) >= len(nodes) - 1]
            rest = [s for s in subsets if not (sum(s) <= 2 or sum(s) >= len(nodes) - 1)]
            subsets = small + rng.sample(rest, min(len(rest), 120 if tier == 'thorough' else 20))
        for sub in subsets:
            ann = [n for n, s in zip(nodes, sub) if s]
            base = {n: f'e{i}' for i, n in enumerate(ann)}
            variants = [base]
            specials = ann if len(nodes) <= 7 else ann[:2]
            for n in specials:
                variants.append({**base, n: 'default'})
                variants.append({**base, n: 'root'})
            if len(nodes) <= 5 or (len(nodes) <= 7 and (tier == 'thorough' or len(ann) <= 3)):
                for n1, n2 in itertools.permutations(ann, 2):
                    variants.append({**base, n1: 'default', n2: 'root'})
            for m in variants:
                t = build_tree(shape, lambda pa: 'or', lambda pa, i: _rot(rot, i), lambda pa: (m.get(pa), None))
                out.append(t)
        # type annotations are not entrypoints
        if len(nodes) <= 7:
            for n in nodes:
                out.append(build_tree(shape, lambda pa: 'or', lambda pa, i: _rot(rot, i),
                                      lambda pa: (None, 'tn') if pa == n else (('e' + pa) if len(pa) == 1 else None, None)))
    I, N, S, U = T('int'), T('nat'), T('string'), T('unit')
    inner = T('or', T('int', f='x'), T('nat', f='y'))
    out += [U, I, T('int', f='foo'), T('unit', f='default'), T('unit', f='root'), T('pair', I, N), T('pair', T('int', f='a'), T('nat', f='b')).named('p'),
            T('option', I), T('list', N), T('pair', inner, I), T('pair', inner.named('u'), I).named('main'),
            T('or', T('pair', inner, I).named('a'), T('option', inner).named('b')), T('or', T('list', inner), T('unit', f='z')),
            T('or', T('pair', inner.named('q'), S), U), T('or', T('lambda', U, U).named('run'), T('contract', U).named('cb')),
            T('or', T('big_map', I, I).named('bm'), T('ticket', S).named('tk'))]
    seen, res = set(), []
    for t in out:
        if t not in seen and well_formed_entrypoints(t):
            seen.add(t)
            res.append(t)
    return res


if __name__ == '__main__':
    import sys, time
    print('b58 vectors ok:', selftest_b58())
    for tier in ('quick', 'thorough'):
        t0 = time.time()
        fams = type_families(tier, 0)
        print(tier, {k: len(v) for k, v in fams.items()}, 'params', len(param_types(tier, 0)), f'{time.time()-t0:.1f}s')
