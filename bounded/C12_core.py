"""Evaluation of the C12 contracts (Python-object conversion) on one (type, abstract value) case, and
on one (parameter type, entrypoint, argument) case for the ContractEntrypoint helpers."""
from __future__ import annotations
import re
from bounded import typegen as G
from bounded.typegen import Ty
from bounded.C11_observe import same_value, ObserveError, short
from bounded.C11_core import Failure, exc_text, type_class, MODES, skeleton, collection_wclass, key_kinds, year_class, unordered
from specs.C11_micheline_reader import read_value, SpecReject
from specs import entrypoints as EP


def freeze(o):
    """hashable canonical image of a Python object produced by to_python_object (for == and injectivity)."""
    if isinstance(o, dict):
        return ('dict', tuple((freeze(k), freeze(v)) for k, v in o.items()))
    if isinstance(o, (list, tuple)):
        return (type(o).__name__, tuple(freeze(x) for x in o))
    if isinstance(o, (set, frozenset)):
        return ('set', tuple(sorted((freeze(x) for x in o), key=repr)))
    if type(o).__name__ == 'unit':
        return ('Unit',)
    if isinstance(o, str) and o[:5] in ('edsig', 'spsig', 'p2sig') and len(o) > 90:
        try:                                   # one signature, several base58 notations
            return ('sig', G.b58_split(o)[1])
        except (ValueError, KeyError):
            pass
    if isinstance(o, str) and o.startswith('sig') and len(o) == 96:
        try:
            return ('sig', G.b58_split(o)[1])
        except (ValueError, KeyError):
            pass
    if isinstance(o, (bool, int, str, bytes)) or o is None:
        return (type(o).__name__, o)
    return ('obj', repr(o))


def py_equal(a, b) -> bool:
    return freeze(a) == freeze(b)


def key_shape(o, depth=6):
    """the *names* in a Python object: dict keys at pair positions, recursively (values dropped)."""
    if depth == 0:
        return None
    if isinstance(o, dict):
        return ('dict', tuple((k if isinstance(k, str) else '<key>', key_shape(v, depth - 1)) for k, v in o.items()))
    if isinstance(o, tuple):
        return ('tuple', tuple(key_shape(x, depth - 1) for x in o))
    return None


def _data_ctx():
    from pytezos.context.impl import ExecutionContext
    return ExecutionContext()


def _build(ty: Ty, aval):
    cls = type_class(ty)
    v = cls.from_micheline_value(G.neutral(ty, aval))
    ok, _ = same_value(ty, v, aval)
    return cls, (v if ok else None)


def c12_failures(ty: Ty, aval, only=None, with_contract_data=True, stable=False, data_modes=None):
    """Contracts (real functions):
       to_py     : v.to_python_object()                       raises nothing
       from_py   : T.from_python_object(v.to_python_object()) raises nothing and denotes v        (the property)
       stable    : a second, independently created class of the same type expression converts v to an equal object
       data.*    : ContractData(ctx, v).encode(obj, mode) denotes v;  decode(encode(obj, mode)) == obj;
                   encode(decode(m), mode) == m for m = encode(obj, mode)                       (mutual inverses)
    requires: C11's parse contract holds on the case (otherwise the case is skipped: returns None)."""
    try:
        cls, v = _build(ty, aval)
    except ObserveError:
        raise
    except Exception:
        return None
    if v is None:
        return None
    out = []
    lit = G.has_big_map_literal(aval)
    kw = {'lazy_diff': None} if lit else {}
    try:
        py = v.to_python_object(**kw)
    except Exception as e:
        return _flt([Failure('to_py::safety.no_exception', f'to_python_object raised {exc_text(e)}', e)], only)
    if only is None or only.startswith('from_py'):
        try:
            v2 = cls.from_python_object(py)
            ok, obs = same_value(ty, v2, aval)
            if not ok:
                out.append(Failure('from_py::ensures.equal', f'Python object {short(py)} converts back to {short(obs)} instead of {short(aval)}',
                                   order_only=(not isinstance(obs, str)) and unordered(G.canon_value(ty, obs)) == unordered(G.canon_value(ty, aval))))
        except ObserveError:
            raise
        except Exception as e:
            out.append(Failure('from_py::safety.no_exception', f'from_python_object({short(py)}) raised {exc_text(e)}', e))
    if stable and (only is None or only.startswith('names::ensures.stable')):
        # stability of names: a fresh class object for the same type expression
        try:
            from bounded.C11_observe import make_type
            cls_b = make_type(ty)
            py_b = cls_b.from_micheline_value(G.neutral(ty, aval)).to_python_object(**kw)
            if not py_equal(py, py_b):
                out.append(Failure('names::ensures.stable', f'two classes of the same type give {short(py)} and {short(py_b)}'))
        except Exception as e:
            out.append(Failure('names::ensures.stable', f're-created type failed: {exc_text(e)}', e))
    if with_contract_data and (only is None or only.startswith('data.')):
        modes = MODES if only is None else tuple(m for m in MODES if f'[{m}]' in only)
        out += _contract_data(ty, cls, v, aval, py, modes if data_modes is None else tuple(m for m in modes if m in data_modes))
    return _flt(out, only)


def _flt(fs, only):
    return [f for f in fs if f.clause == only] if only else fs


def _contract_data(ty, cls, v, aval, py, modes=MODES):
    from pytezos.contract.data import ContractData
    out = []
    try:
        cd = ContractData(_data_ctx(), v)
    except Exception as e:
        return [Failure('data.init::safety.no_exception', f'ContractData(...) raised {exc_text(e)}', e)]
    for mode in modes:
        try:
            m = cd.encode(py, mode)
        except Exception as e:
            out.append(Failure(f'data.encode[{mode}]::safety.no_exception', f'ContractData.encode({short(py)}) raised {exc_text(e)}', e))
            continue
        try:
            sv = read_value(ty, m, mode)
            if G.canon_value(ty, sv) != G.canon_value(ty, aval):
                out.append(Failure(f'data.encode[{mode}]::ensures.denotes', f'encode({short(py)}) = {short(m)} denotes {short(sv)} instead of {short(aval)}',
                                   order_only=unordered(G.canon_value(ty, sv)) == unordered(G.canon_value(ty, aval))))
        except SpecReject as e:
            out.append(Failure(f'data.encode[{mode}]::ensures.denotes', f'encode({short(py)}) = {short(m)} is not a valid {mode} notation: {e}',
                               order_only='increasing Michelson order' in str(e)))
        try:
            back = cd.decode(m)
            if not py_equal(back, py):
                out.append(Failure(f'data.decode_encode[{mode}]::ensures.identity', f'decode(encode(obj)) = {short(back)} for obj = {short(py)}',
                                   order_only=unordered(freeze(back)) == unordered(freeze(py))))
            else:
                m2 = cd.encode(back, mode)
                if m2 != m:
                    out.append(Failure(f'data.encode_decode[{mode}]::ensures.identity', f'encode(decode(m)) = {short(m2)} for m = {short(m)}'))
        except Exception as e:
            out.append(Failure(f'data.decode_encode[{mode}]::safety.no_exception', f'decode({short(m)}) raised {exc_text(e)}', e))
    return out


# ----------------------------------------------------------------------------- names: uniqueness over a type
def names_failures(ty: Ty, avals):
    """unique : to_python_object is injective on the enumerated values (two different values never share
                an object — which is what colliding field names cause);
       stable : for pair types the names (dict keys, recursively) do not depend on the value's leaves."""
    out = []
    cls = type_class(ty)
    seen = {}
    for av in avals:
        try:
            v = cls.from_micheline_value(G.neutral(ty, av))
            if not same_value(ty, v, av)[0]:
                continue
            py = v.to_python_object(**({'lazy_diff': None} if G.has_big_map_literal(av) else {}))
        except ObserveError:
            raise
        except Exception:
            continue
        fz = freeze(py)
        cav = G.canon_value(ty, av)
        if fz in seen and seen[fz][0] != cav:
            out.append((Failure('names::ensures.unique', f'values {short(seen[fz][1], 120)} and {short(av, 120)} both convert to {short(py, 160)}'),
                        av, seen[fz][1]))
            break
        seen.setdefault(fz, (cav, av))
    return out


def spec_field_count(ty: Ty) -> int:
    """number of fields of a pair type under the documented flattening: unannotated nested pairs are inlined."""
    if ty.prim != 'pair':
        return 1
    n = 0
    for i, a in enumerate((ty.left(), ty.right())):
        n += spec_field_count(a) if (a.prim == 'pair' and a.field is None and a.tname is None) else 1
    return n


# ----------------------------------------------------------------------------- witness classes
def _flat_fields(ty: Ty):
    """flattened fields of a pair (unannotated nested pairs inlined) or union (all nested `or` leaves)."""
    out = []

    def go(t):
        for a in ((t.left(), t.right()) if t.prim == 'pair' else t.args):
            if t.prim == 'pair' and a.prim == 'pair' and a.field is None and a.tname is None:
                go(a)
            elif t.prim == 'or' and a.prim == 'or':
                go(a)
            else:
                out.append(a)
    go(ty)
    return out


def has_name_collision(ty: Ty) -> bool:
    """some unnamed field of a pair/or (anywhere in ty) would get the generated name `<prim>_<index>` that another
    field carries as an annotation (the documented naming scheme of generated names)."""
    for t in ty.walk():
        if t.prim not in ('pair', 'or'):
            continue
        fields = _flat_fields(t)
        explicit = {f.field or f.tname for f in fields if (f.field or f.tname)}
        seen = set()
        for i, f in enumerate(fields):
            name = f.field or f.tname
            if name is None or name in seen:
                if f'{f.prim}_{i}' in explicit:
                    return True
            else:
                seen.add(name)
    return False


def has_some_none(ty: Ty, v) -> bool:
    """a value of type option(option ..) equal to Some None occurs somewhere in v."""
    if ty.prim == 'option' and v[0] == 'Some' and ty.args[0].prim == 'option' and v[1][0] == 'None':
        return True
    from bounded.C11_core import sub_cases
    return any(has_some_none(st, sv) for st, sv in sub_cases(ty.anon(), v) if not (st.prim == ty.prim and st.args == ty.args))


def c12_wclass(ty: Ty, v, f: Failure) -> str:
    p = ty.prim
    what = f.clause.split('::')[0]
    what = what[what.index('[') + 1:what.index(']')] if '[' in what else 'python-object'
    if has_some_none(ty, v):
        return 'option(option):Some(None)'
    if p == 'option' and v[0] == 'Some':
        inner = ty.args[0]
        if inner.prim == 'option' and v[1][0] == 'None':
            return 'option(option):Some(None)'
    if p in ('set', 'map', 'big_map'):
        if has_name_collision(ty.args[0]):
            return f'names:generated-name-collision:{p}-key' + (':order-only' if (f.order_only or 'sorted' in f.info) else '')
        w = collection_wclass(ty, v, f.info)
        if w:
            return w
        if 'unhashable' in f.info:
            return f'collection:unhashable-python-key:{skeleton(ty.args[0], 1)}'
    if p in ('pair', 'or') and has_name_collision(ty):
        return f'names:generated-name-collision:{p}'
    if p == 'ticket':
        return 'ticket:pair-content' if ty.args[0].prim == 'pair' else f'ticket:{skeleton(ty.args[0], 1)}'
    if p == 'timestamp':
        return f'timestamp:{what}:{year_class(v)}'
    if p == 'key_hash':
        kind, payload = G.b58_split(v)
        tag = {'tz1': 0, 'tz2': 1, 'tz3': 2, 'tz4': 3}[kind]
        amb = (tag == 0 and payload[0] <= 3) or (tag in (1, 2, 3) and payload[-1] == 0)
        return f'key_hash:{what}:' + ('tag-ambiguity' if amb else kind)
    if p in G.B58_LIKE:
        return f'{p}:{what}:{"+".join(key_kinds(ty, v))}'
    ename = type(f.exc).__name__ if f.exc is not None else 'wrong-value'
    return f'{skeleton(ty, 2)}:{f.clause}:{ename}'


# ----------------------------------------------------------------------------- ContractEntrypoint helpers
def _param_ctx(pty: Ty):
    from pytezos.context.impl import ExecutionContext
    ctx = ExecutionContext()
    ctx.parameter_expr = {'prim': 'parameter', 'args': [pty.expr()]}
    return ctx


def node_at(pty: Ty, path: str) -> Ty:
    t = pty
    for c in path:
        t = t.args[int(c)]
    return t


def full_value(path: str, aval):
    for c in reversed(path):
        aval = ('Left' if c == '0' else 'Right', aval)
    return aval


def spec_full_from_pair(pty: Ty, entrypoint: str, m, mode=None):
    """(entrypoint, Micheline argument) -> abstract full parameter value, by the Tezos rules (spec)."""
    r = EP.resolve(pty.expr(), entrypoint)
    if r is None:
        if entrypoint == EP.root_name(pty.expr()):
            r = ('', pty.expr())
        else:
            raise SpecReject(f'no entrypoint {entrypoint}')
    path = r[0]
    return full_value(path, read_value(node_at(pty, path), m, mode))


def entrypoint_failures(pty: Ty, ename: str, path: str, aval, only=None):
    """ContractEntrypoint(ctx, e) on parameter type `pty`, listed entrypoint e (spec) at `path`, argument aval:
       decode     : decode(neutral(a))                    raises nothing, returns a single-key dict {e2: obj}
       encode     : ContractEntrypoint(ctx, e2).encode(obj, mode) raises nothing and, read by the Tezos rules,
                    is the full parameter value  wrap(path, a)                               (encode o decode)
       identity   : decode(value, entrypoint) of that encoding == {e2: obj}                   (decode o encode)"""
    from pytezos.contract.entrypoint import ContractEntrypoint
    out = []
    ctx = _param_ctx(pty)
    ety = node_at(pty, path)
    want = full_value(path, aval)
    n = G.neutral(ety.anon(), aval)
    try:
        p = ContractEntrypoint(ctx, ename).decode(n)
    except Exception as e:
        return _flt([Failure('entrypoint.decode::safety.no_exception', f'ContractEntrypoint({ename!r}).decode({short(n)}) raised {exc_text(e)}', e)], only)
    if not (isinstance(p, dict) and len(p) == 1):
        return _flt([Failure('entrypoint.decode::ensures.single_key', f'decode returned {short(p)}')], only)
    (e2, obj), = p.items()
    for mode in MODES:
        try:
            r = ContractEntrypoint(ctx, e2).encode(obj, mode)
        except Exception as e:
            out.append(Failure(f'entrypoint.encode[{mode}]::safety.no_exception',
                               f'decode gave {short(p)}; ContractEntrypoint({e2!r}).encode({short(obj)}) raised {exc_text(e)}', e))
            continue
        try:
            got = spec_full_from_pair(pty, r['entrypoint'], r['value'], mode)
            if G.canon_value(pty, got) != G.canon_value(pty, want):
                out.append(Failure(f'entrypoint.encode[{mode}]::ensures.denotes', f'encode(decode(..)) = {short(r)} denotes {short(got)} instead of {short(want)}'))
        except SpecReject as e:
            out.append(Failure(f'entrypoint.encode[{mode}]::ensures.denotes', f'encode(decode(..)) = {short(r)} is not a call of a Tezos entrypoint: {e}'))
        try:
            back = ContractEntrypoint(ctx, ename).decode(r['value'], r['entrypoint'])
            if not py_equal(back, p):
                out.append(Failure(f'entrypoint.decode_encode[{mode}]::ensures.identity', f'decode(encode(obj)) = {short(back)} for {short(p)}'))
        except Exception as e:
            out.append(Failure(f'entrypoint.decode_encode[{mode}]::safety.no_exception', f'decode({short(r)}) raised {exc_text(e)}', e))
    return _flt(out, only)


def value_wclass(pty: Ty, w, f: Failure = None) -> str:
    """why/where a parameter value (or call) fails: annotation placement along the value's path."""
    e = pty.expr()
    vp = EP.value_path(e, G.neutral(pty, w))
    leaf = node_at(pty, vp)
    names = {n: p for n, p, _ in EP.annotated_nodes(e, include_root=False)}
    parts = []
    if pty.prim != 'or':
        parts.append('non-union-root')
    if pty.field is None and 'default' in names and 'root' in names:
        parts.append('root-name-collision(%default+%root-branches)')
    if vp:
        parts.append('annotated-leaf' if leaf.field is not None else 'unannotated-leaf')
        inner = [node_at(pty, vp[:i]) for i in range(1, len(vp))]
        if any(t.field is not None for t in inner):
            parts.append('annotated-inner-or-above')
    if pty.field is not None:
        parts.append('annotated-root')
    if leaf.tname is not None:
        parts.append('type-annotated-leaf')
    return '+'.join(parts) or 'plain'


def leaf_variants(ty: Ty, v):
    """values equal to v except in exactly one pair component's leaf (bounded: pair/option/or spine only)."""
    p = ty.prim
    if p == 'pair':
        for x in leaf_variants(ty.left(), v[1]):
            yield ('Pair', x, v[2])
        for x in leaf_variants(ty.right(), v[2]):
            yield ('Pair', v[1], x)
    elif p == 'or':
        for x in leaf_variants(ty.args[0 if v[0] == 'Left' else 1], v[1]):
            yield (v[0], x)
    elif p == 'option' and v[0] == 'Some':
        for x in leaf_variants(ty.args[0], v[1]):
            yield ('Some', x)
    elif p in ('int', 'nat', 'mutez', 'timestamp'):
        yield v + 1
    elif p == 'string':
        yield v + 'x'
    elif p == 'bytes':
        yield v + b'\x01'
    elif p == 'bool':
        yield not v
