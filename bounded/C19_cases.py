"""C19 — enumeration of macro names from the regexes registered in pytezos.michelson.macros (read live), construction
of symbolic input stacks, and evaluation of the contract

    run_ref(expand_macro(name, annots, code args), stack)  ==  specs.C19_macros.meaning(name, stack, code)

The expansion is run by the *reference* interpreter specs/michelson_ref.py on stacks of opaque tokens: token i is the
value 'v<i>' of the leaf type ('opaque:<i>',), which no rule of the reference can inspect (any instruction other than the
polymorphic stack / pair / option / union ones is ill-typed on it), so one run stands for every input stack of that shape.
"""
from __future__ import annotations

import itertools
import re

from specs import michelson_ref as R
from specs import C19_macros as M

try:                                    # Python >= 3.11
    import re._parser as sre_parse
    import re._constants as sre_c
except ImportError:                     # pragma: no cover
    import sre_parse
    import sre_constants as sre_c

ALPHABET = 'ABCDEFGHIJKLMNOPQRSTUVWXYZ_'


# ----------------------------------------------------------------------------- strings accepted by a regex

def _gen(items, max_len):
    """all strings of length <= max_len matched by the parsed sequence `items`"""
    if not items:
        yield ''
        return
    head, rest = items[0], items[1:]
    for h in _gen_one(head, max_len):
        for r in _gen(rest, max_len - len(h)):
            yield h + r


def _gen_one(item, max_len):
    op, av = item
    if max_len < 0:
        return
    if op == sre_c.AT:
        yield ''
    elif op == sre_c.LITERAL:
        if max_len >= 1:
            yield chr(av)
    elif op == sre_c.IN:
        if max_len >= 1:
            for o, a in av:
                if o == sre_c.LITERAL:
                    yield chr(a)
                elif o == sre_c.RANGE:
                    for c in range(a[0], a[1] + 1):
                        yield chr(c)
                else:
                    raise NotImplementedError(f'character class item {o}')
    elif op == sre_c.SUBPATTERN:
        yield from _gen(list(av[3]), max_len)
    elif op == sre_c.BRANCH:
        for alt in av[1]:
            yield from _gen(list(alt), max_len)
    elif op in (sre_c.MAX_REPEAT, sre_c.MIN_REPEAT):
        lo, hi, sub = av
        sub = list(sub)

        def rep(n, budget):
            if n == 0:
                yield ''
                return
            for h in _gen(sub, budget):
                if not h and n > 0:
                    continue
                for r in rep(n - 1, budget - len(h)):
                    yield h + r
        n = lo
        while n <= max_len and (hi == sre_c.MAXREPEAT or n <= hi):
            yield from rep(n, max_len)
            n += 1
    else:
        raise NotImplementedError(f'regex construct {op}')


def _unbounded(items):
    for op, av in items:
        if op in (sre_c.MAX_REPEAT, sre_c.MIN_REPEAT):
            if av[1] == sre_c.MAXREPEAT or _unbounded(list(av[2])):
                return True
        elif op == sre_c.SUBPATTERN and _unbounded(list(av[3])):
            return True
        elif op == sre_c.BRANCH and any(_unbounded(list(a)) for a in av[1]):
            return True
    return False


def family_bound(regexp, max_len, slack):
    """length bound used for one regex: a finite language is enumerated completely; an open-ended family (DII+P, pair
    trees, C[AD]+R paths ...) up to max(max_len, its shortest name + slack) so that long prefixes (SET_C..R, MAP_C..R,
    UNP..R) are covered as deeply as the short ones"""
    items = list(sre_parse.parse(regexp.pattern))
    if not _unbounded(items):
        return 64
    n = 1
    while not any(True for _ in _gen(items, n)):
        n += 1
    return max(max_len, n + slack)


def names_of(regexp, max_len):
    """all names of length <= max_len accepted by a compiled regex (verified with the regex itself)"""
    out = sorted(set(_gen(list(sre_parse.parse(regexp.pattern)), max_len)), key=lambda s: (len(s), s))
    out = [s for s in out if len(s) <= max_len and regexp.findall(s)]
    return out


# ----------------------------------------------------------------------------- symbolic stacks

class Tokens:
    def __init__(self):
        self.n = 0

    def fresh(self):
        self.n += 1
        return f'v{self.n}'


def type_of(v):
    """type of a value built from tokens, pairs, Some/Left/Right wrappers around tokens, ints, bools, unit"""
    if isinstance(v, bool):
        return R.T_BOOL
    if isinstance(v, int):
        return R.T_INT
    if isinstance(v, str):
        return (f'opaque:{v[1:]}',) if re.fullmatch(r'v\d+', v) else R.T_STRING
    if v == ():
        return R.T_UNIT
    if isinstance(v, tuple) and len(v) == 2 and v[0] not in ('Some', 'Left', 'Right'):
        return ('pair', type_of(v[0]), type_of(v[1]))
    raise ValueError(v)


CODE = {      # code arguments: (Michelson, the same function on value stacks)
    'SOME': ([{'prim': 'SOME'}], lambda S: [('Some', S[0])] + S[1:]),
    'DROP': ([{'prim': 'DROP'}], lambda S: S[1:]),
    'UNIT': ([{'prim': 'UNIT'}], lambda S: [()] + S),
    'T': ([{'prim': 'PUSH', 'args': [{'prim': 'string'}, {'string': 'T'}]}], lambda S: ['T'] + S),
    'F': ([{'prim': 'PUSH', 'args': [{'prim': 'string'}, {'string': 'F'}]}], lambda S: ['F'] + S),
    'T1': ([{'prim': 'DROP'}, {'prim': 'PUSH', 'args': [{'prim': 'string'}, {'string': 'T'}]}], lambda S: ['T'] + S[1:]),
    'F1': ([{'prim': 'DROP'}, {'prim': 'PUSH', 'args': [{'prim': 'string'}, {'string': 'F'}]}], lambda S: ['F'] + S[1:]),
}
OPAQUE_OPT = ('option', ('opaque:o',))
OPAQUE_OR = ('or', ('opaque:l',), ('opaque:r',))


def stacks_for(name):
    """-> list of (types, values, code names): input stacks on which the macro is defined, per the documentation"""
    kind, par, nargs = M.classify(name)
    tk = Tokens()
    frame = lambda: [tk.fresh(), tk.fresh()]                       # noqa: E731  two untouched slots below
    out = []

    def add(vals, code=(), types=None):
        vals = list(vals)
        out.append((tuple(types or [type_of(v) for v in vals]), tuple(vals), tuple(code)))
    if kind in ('cmp', 'ifcmp', 'assert_cmp'):
        for a, b in ((0, 0), (0, 1), (1, 0), (-2, 3)):
            add([a, b] + frame(), ('T', 'F') if nargs else ())
    elif kind in ('if', 'assert_op'):
        for n in (-1, 0, 1):
            add([n] + frame(), ('T', 'F') if nargs else ())
    elif kind == 'assert':
        for b in (True, False):
            add([b] + frame())
    elif kind == 'fail':
        add(frame())
        add([])
    elif kind in ('assert_none', 'assert_some', 'if_some'):
        f = frame()
        for o in (None, ('Some', 'vo')):
            add([o] + f, ('T1', 'F') if nargs else (), [OPAQUE_OPT] + [type_of(v) for v in f])
    elif kind in ('assert_left', 'assert_right', 'if_right'):
        f = frame()
        for o in (('Left', 'vl'), ('Right', 'vr')):
            add([o] + f, ('T1', 'F1') if nargs else (), [OPAQUE_OR] + [type_of(v) for v in f])
    elif kind == 'dip':
        n = len(par)
        base = [tk.fresh() for _ in range(n + 2)]
        for c in ('SOME', 'DROP', 'UNIT'):
            add(base, (c,))
    elif kind == 'dup':
        add([tk.fresh() for _ in range(len(par) + 1)])
    elif kind == 'pair':
        add([tk.fresh() for _ in range(M.leaves(par))] + frame())
    elif kind == 'unpair':
        add([M.tree_shape_value(par, tk.fresh)] + frame())
    elif kind == 'cxr':
        add([M.path_shape_value(par, tk.fresh)] + frame())
    elif kind == 'set_cxr':
        add([M.path_shape_value(par, tk.fresh), tk.fresh()] + frame())
    elif kind == 'map_cxr':
        add([M.path_shape_value(par, tk.fresh)] + frame(), ('SOME',))
        add([M.path_shape_value(par, tk.fresh)] + frame(), ('T1',))
    return out


def annotation_variants(name):
    """[(label, annots, accept_required)]: annotation lists the documentation gives a meaning to for this macro
    (accept_required) and others that may be refused but must not change the meaning"""
    kind, par, nargs = M.classify(name)
    out = [('plain', [], True)]
    if kind == 'pair':
        k = M.leaves(par)
        out.append(('fields', [f'%f{i}' for i in range(k)], True))
        out.append(('fields+var', [f'%f{i}' for i in range(k)] + ['@p'], True))
        out.append(('var', ['@p'], True))
        out.append(('some fields', [f'%f{i}' for i in range(max(1, k // 2))], False))
    elif kind == 'unpair':
        k = M.leaves(par)
        out.append(('vars', [f'@x{i}' for i in range(k)], False))
        out.append(('fields', [f'%f{i}' for i in range(k)], False))
    elif kind == 'cxr':
        out += [('var', ['@x'], True), ('field', ['%f'], True), ('var+field', ['@x', '%f'], True)]
    elif kind in ('set_cxr', 'map_cxr'):
        out += [('field', ['%f'], True), ('var', ['@x'], True), ('var+field', ['@x', '%f'], True)]
    elif kind in ('dup', 'cmp'):
        out.append(('var', ['@x'], True))
    elif kind in ('assert_some', 'assert_left', 'assert_right'):
        out.append(('var', ['@x'], True))
    else:
        out.append(('var', ['@x'], False))
    return out


# ----------------------------------------------------------------------------- evaluation

POLYMORPHIC = {'DUP', 'SWAP', 'DIP', 'DROP', 'DIG', 'DUG', 'PAIR', 'UNPAIR', 'CAR', 'CDR', 'GET', 'UPDATE', 'RENAME',
               'IF', 'IF_NONE', 'IF_LEFT', 'COMPARE', 'EQ', 'NEQ', 'LT', 'GT', 'LE', 'GE', 'UNIT', 'FAILWITH'}


def prims_of(code, skip=()):
    out = set()

    def walk(n):
        if isinstance(n, list):
            if any(n is s for s in skip):
                return
            for x in n:
                walk(x)
        elif isinstance(n, dict) and 'prim' in n:
            out.add(n['prim'])
            for a in n.get('args', []):
                if isinstance(a, list):
                    walk(a)
    walk(code)
    return out


def run_expansion(code, types, values):
    """reference run -> ('ok', values) | ('fail', value) | ('ill-typed', why)"""
    try:
        res = R.run(code, types, values, {})
    except R.RefError as e:
        return ('ill-typed', f'{type(e).__name__}: {e}')
    if res[0] == 'ok':
        return ('ok', list(res[2]))
    if res[0] == 'failwith':
        return ('fail', res[2])
    return ('error', res[1])


def spec_outcome(name, values, code_names):
    try:
        return ('ok', M.meaning(name, list(values), tuple(CODE[c][1] for c in code_names)))
    except M.Fail:
        return ('fail', ())


def expand(expand_macro, name, annots, code_names):
    args = [list(CODE[c][0]) for c in code_names]
    return expand_macro(prim=name, annots=list(annots), args=args), args


def check_name(expand_macro, name):
    """evaluate the contract for one well-formed macro name -> list of findings (clause, message, witness class, case)"""
    out = []
    kind, par, nargs = M.classify(name)
    n_eval = 0
    for label, annots, must_accept in annotation_variants(name):
        for types, values, code_names in stacks_for(name):
            try:
                code, args = expand(expand_macro, name, annots, code_names)
            except Exception as e:  # noqa
                if must_accept:
                    out.append(('safety.expands', f'{name} {" ".join(annots)}: expand_macro raised {type(e).__name__}: {e}',
                                f'{kind} annots={label} -> raises {type(e).__name__}', dict(name=name, annots=annots, code=list(code_names))))
                break
            n_eval += 1
            want = spec_outcome(name, values, code_names)
            got = run_expansion(code, types, values)
            if got != want:
                out.append(('ensures.meaning',
                            f'{name} {" ".join(annots)} on {list(values)}: expansion {code} gives {got}, the macro means {want}',
                            f'{kind} annots={label} -> {got[0]} vs {want[0]}', dict(name=name, annots=annots, code=list(code_names))))
                break
            extra = prims_of(code, skip=args) - POLYMORPHIC
            if extra:
                out.append(('ensures.parametric', f'{name}: expansion uses {sorted(extra)}, the symbolic run does not cover all stacks',
                            f'{kind} uses {sorted(extra)}', dict(name=name, annots=annots, code=list(code_names))))
    return out, n_eval


def check_inverse(expand_macro, name):
    """P<tree>R ; UNP<tree>R is the identity on the leaves and UNP<tree>R ; P<tree>R on the tree value"""
    t = M.parse_pair_tree(name)
    tk = Tokens()
    lv = [tk.fresh() for _ in range(M.leaves(t) + 2)]
    out = []
    try:
        p = expand_macro(prim=name, annots=[], args=[])
        u = expand_macro(prim='UN' + name, annots=[], args=[])
    except Exception as e:  # noqa
        return [('safety.expands', f'{name} / UN{name}: {type(e).__name__}: {e}', f'inverse -> raises {type(e).__name__}', dict(name=name, inverse=True))]
    got = run_expansion([p, u], tuple(type_of(v) for v in lv), tuple(lv))
    if got != ('ok', lv):
        out.append(('ensures.unpair_inverts_pair', f'{name} ; UN{name} on {lv} gives {got}', 'inverse pair;unpair', dict(name=name, inverse=True)))
    v = [M.tree_shape_value(t, tk.fresh), tk.fresh()]
    got = run_expansion([u, p], tuple(type_of(x) for x in v), tuple(v))
    if got != ('ok', v):
        out.append(('ensures.pair_inverts_unpair', f'UN{name} ; {name} on {v} gives {got}', 'inverse unpair;pair', dict(name=name, inverse=True)))
    return out


def check_rejected(expand_macro, name, nargs_try=(0, 1, 2)):
    """a name some registered regex accepts but that is not a macro of the documented grammar must be refused"""
    for n in nargs_try:
        args = [list(CODE['SOME'][0]) for _ in range(n)]
        try:
            code = expand_macro(prim=name, annots=[], args=args)
        except Exception:  # noqa
            continue
        return [('raises.not_a_macro', f'{name} is not a macro (ill-formed pair tree) but expands to {code}',
                 'ill-formed name accepted', dict(name=name, reject=True, nargs=n))]
    return []


def check_arity(expand_macro, name):
    """wrong number of code arguments must be refused"""
    kind, par, nargs = M.classify(name)
    out = []
    for n in (0, 1, 2, 3):
        if n == nargs:
            continue
        args = [list(CODE['SOME'][0]) for _ in range(n)]
        try:
            code = expand_macro(prim=name, annots=[], args=args)
        except Exception:  # noqa
            continue
        out.append(('raises.arity', f'{name} takes {nargs} code argument(s) but is expanded with {n}: {code}',
                    f'{kind} arity {n} for {nargs} accepted', dict(name=name, arity=n)))
    return out


CODE_TEXT = {'SOME': '{ SOME }', 'DROP': '{ DROP }', 'UNIT': '{ UNIT }', 'T': '{ PUSH string "T" }', 'F': '{ PUSH string "F" }',
             'T1': '{ DROP ; PUSH string "T" }', 'F1': '{ DROP ; PUSH string "F" }'}


def check_parser(m2m, expand_macro, name):
    """the parser (michelson_to_micheline) gives a macro occurrence exactly the expansion of expand_macro"""
    out = []
    kind, par, nargs = M.classify(name)
    for label, annots, must in annotation_variants(name)[:2]:
        codes = (stacks_for(name) or [((), (), ())])[0][2]
        text = '{ ' + ' '.join([name] + list(annots) + [CODE_TEXT[c] for c in codes]) + ' }'
        try:
            want = [expand_macro(prim=name, annots=list(annots), args=[list(CODE[c][0]) for c in codes])]
        except Exception:  # noqa   reported by check_name when it matters
            continue
        try:
            got = m2m(text)
        except Exception as e:  # noqa
            out.append(('ensures.parser', f'{text}: parser raised {type(e).__name__}: {e}', f'{kind} annots={label} -> parser raises',
                        dict(name=name, parser=True)))
            continue
        if got != want:
            out.append(('ensures.parser', f'{text}: parser gives {got}, expand_macro {want}', f'{kind} annots={label} -> parser differs',
                        dict(name=name, parser=True)))
    return out


# ----------------------------------------------------------------------------- bodies of several stack arities

def _P(prim, *args):
    return {'prim': prim, 'args': list(args)} if args else {'prim': prim}


def body(k):
    """opaque body consuming k slots and producing one: f(x1..xk) = Some (Pair x1 .. xk)"""
    return [_P('SOME')] if k == 1 else [_P('PAIR', {'int': str(k)}), _P('SOME')]


BODY_1_2 = [_P('SOME'), _P('UNIT'), _P('SWAP')]                    # consumes 1, produces 2:  x -> Some x : Unit
TX = ('opaque:x',)


def arity_stacks(name):
    """-> [(label, types, values, code args as Micheline)] for the macros that take code bodies (and SET_C..R): bodies that
    reach below their operand, on stacks with opaque slots (tokens and pairs of tokens) underneath"""
    kind, par, nargs = M.classify(name)
    tk = Tokens()
    below = lambda: [(tk.fresh(), tk.fresh()), (tk.fresh(), tk.fresh()), tk.fresh(), tk.fresh()]      # noqa: E731
    same = lambda n: [f'x{i}' for i in range(n)]                                                       # noqa: E731  one common opaque type
    out = []

    def add(label, vals, code, types=None):
        vals = list(vals)
        out.append((label, tuple(types or [type_of(v) for v in vals]), tuple(vals), [list(c) for c in code]))
    if kind == 'map_cxr':
        for k in (1, 2, 3):
            add(f'body {k}->1', [M.path_shape_value(par, tk.fresh)] + below(), [body(k)])
        add('body 1->2', [M.path_shape_value(par, tk.fresh)] + below(), [BODY_1_2])
    elif kind == 'set_cxr':
        add('slots below', [M.path_shape_value(par, tk.fresh), tk.fresh()] + below(), [])
        add('pair as new value', [M.path_shape_value(par, tk.fresh), (tk.fresh(), tk.fresh())] + below(), [])
    elif kind == 'dip':
        n = len(par)
        for k in (1, 2, 3):
            add(f'body {k}->1', [tk.fresh() for _ in range(n)] + below(), [body(k)])
        add('body 1->2', [tk.fresh() for _ in range(n)] + below(), [BODY_1_2])
    elif kind in ('if', 'ifcmp'):
        heads = [[-1], [0], [1]] if kind == 'if' else [[0, 0], [0, 1], [1, 0]]
        for k in (2, 3):
            for h in heads:
                vals = h + same(4)
                add(f'branches {k}->1', vals, [body(k), [_P('SWAP')] + body(k)], [R.T_INT] * len(h) + [TX] * 4)
    elif kind == 'if_some':
        for k in (2, 3):
            for o in (None, ('Some', 'xs')):
                add(f'branches {k}->1', [o] + same(4), [body(k), [_P('DUP')] + body(k)], [('option', TX)] + [TX] * 4)
    elif kind == 'if_right':
        for k in (2, 3):
            for o in (('Left', 'xl'), ('Right', 'xr')):
                add(f'branches {k}->1', [o] + same(4), [body(k), [_P('SWAP')] + body(k)], [('or', TX, TX)] + [TX] * 4)
    return out


def _same(a, b):
    return a == b or (a[0] == b[0] == 'ill-typed')


def check_documented(expand_macro, name):
    """the real expansion and the expansion printed in the documentation have the same effect (reference interpreter),
    on the plain stacks and on the stacks with bodies of several arities"""
    out, n = [], 0
    kind, par, nargs = M.classify(name)
    cases = [('plain', t, v, [list(CODE[c][0]) for c in cn]) for t, v, cn in stacks_for(name)] + arity_stacks(name)
    for label, types, values, code in cases:
        try:
            real = expand_macro(prim=name, annots=[], args=[list(c) for c in code])
        except Exception:  # noqa   reported by check_name
            continue
        doc = M.documented_expansion(name, tuple(code))
        got, want = run_expansion(real, types, values), run_expansion(doc, types, values)
        n += 1
        if label != 'plain' and want[0] == 'ill-typed' and kind not in ('map_cxr',):
            out.append(('harness', f'{name} {label}: documented expansion is ill-typed on the test stack: {want}', 'harness', dict(name=name)))
        if not _same(got, want):
            out.append(('ensures.documented_expansion',
                        f'{name} with code {code} on {list(values)}: expansion {real} gives {got}; the documented expansion {doc} gives {want}',
                        f'{kind} {label} -> {got[0]} vs {want[0]}', dict(name=name, documented=True)))
            break
    return out, n
