"""Builds (program, input, environment) cases from the generator, evaluates the C01/C02 contracts on them in a
process pool, and isolates the instruction responsible for a contract failure (for minimal replay inputs and
stable witness classes).  Used by props/C01.py, props/C02.py and props/C17.py."""
from __future__ import annotations

import multiprocessing as mp
import os
import random

from specs import michelson_ref as R
from bounded import C01_engine as E
from bounded import C01_gen as G

TM = R.type_to_micheline


# ----------------------------------------------------------------------------- cases

def _cases_of(th, progs, c, rng):
    out = []
    for pi, (S0, prog, Sf) in enumerate(progs):
        vecs = G.input_vectors(S0, c['inputs'], rng) if S0 else [()]
        envs = G.ENVS[:th.envs]
        for vi, V in enumerate(vecs):
            env = envs[(pi + vi) % len(envs)] if th.envs > 1 and vi else envs[0]
            if th.envs > 1 and not S0:
                for env in envs:
                    out.append(dict(theme=th.name, S=S0, code=prog, V=V, env=env, n=len(prog)))
                break
            out.append(dict(theme=th.name, S=S0, code=prog, V=V, env=env, n=len(prog)))
    return out


def _cut(cases, budget, rng):
    if budget and len(cases) > budget:
        keep = [x for x in cases if x['n'] <= 1]
        rest = [x for x in cases if x['n'] > 1]
        rng.shuffle(rest)
        cases = (keep + rest)[:budget] if len(keep) < budget else keep[:budget]
    return cases


def make_tasks(themes, cfg, seed, parts=4):
    """generation + evaluation units that run inside the worker processes: for every (theme, initial stack) one task for
    the exhaustive part and `parts` tasks for the seeded walks"""
    tasks = []
    for th in themes:
        c = cfg[th.name]
        n = len(th.stacks) * (1 + parts)
        for si in range(len(th.stacks)):
            tasks.append(dict(theme=th.name, si=si, part='ex', cfg=c, seed=seed, budget=max(1, c['budget'] // (2 * len(th.stacks)))))
            for k in range(parts):
                tasks.append(dict(theme=th.name, si=si, part=k, cfg=c, seed=seed, walks=-(-c['walks'] // parts),
                                  budget=max(1, c['budget'] // (2 * len(th.stacks) * parts))))
    for i, t in enumerate(tasks):
        t['tid'] = i
    return tasks


def task_cases(task):
    th = next(t for t in G.C17_THEMES + G.C02_THEMES + G.THEMES if t.name == task['theme'])
    c, S0 = task['cfg'], None
    S0 = th.stacks[task['si']]
    rng = random.Random(f"{task['seed']}/{th.name}/{task['si']}/{task['part']}")
    g = G.Gen(th, c['body_len'], c.get('width', 2), c.get('site_cap', 12), 1, rng)
    progs, seen = [], set()
    if task['part'] == 'ex':
        progs = [(S0, p, Sf) for p, Sf in g.exhaustive(S0, c['ex_len'])]
    elif c['walk_len'] > c['ex_len']:
        tries = 0
        while len(progs) < task['walks'] and tries < 4 * task['walks']:
            tries += 1
            p, Sf = g.walk(S0, rng.randrange(c['ex_len'] + 1, c['walk_len'] + 1))
            key = R.freeze(p)
            if len(p) > c['ex_len'] and key not in seen:
                seen.add(key)
                progs.append((S0, p, Sf))
    cases = _cases_of(th, progs, c, rng)
    total = len(cases)
    cases = _cut(cases, task['budget'], rng)
    for i, x in enumerate(cases):
        x['id'] = (task['tid'], i)
        x['contract'] = (i % 4 == 0)
    return cases, dict(programs=len(progs), cases_enumerated=total, cases_run=len(cases))


def run_task(task):
    """-> (task id, slim results, stats); a slim result carries what the parent needs: status, findings, class, sample"""
    cases, st = task_cases(task)
    ev = task.get('evaluator') or eval_case
    out = []
    for c in cases:
        r = ev(c)
        r['cls'] = class_key(c)
        r['n'] = c['n']
        if c['n'] == 2 and c['id'][1] % 53 == 0:
            r['sample'] = dict(theme=c['theme'], code=c['code'], stack_types=[E.tstr(t) for t in c['S']],
                               stack=[R.data_to_micheline_safe(t, v) for t, v in zip(c['S'], c['V'])])
        if r['status'] == 'timeout':
            r['case'] = c
        out.append(r)
    return task['tid'], out, st


def run_tasks(tasks, procs=None, evaluator=None):
    """-> (results sorted by id, stats per theme)"""
    procs = procs or min(16, os.cpu_count() or 4)
    E.install_probe()
    for t in tasks:
        t['evaluator'] = evaluator
    order = sorted(tasks, key=lambda t: (t['part'] != 'ex', -t['budget']))       # heavy ones first
    if procs <= 1:
        done = [run_task(t) for t in order]
    else:
        with mp.get_context('fork').Pool(procs) as pool:
            done = list(pool.imap_unordered(run_task, order, chunksize=1))
    done.sort(key=lambda d: d[0])
    results, stats = [], {}
    by_tid = {t['tid']: t for t in tasks}
    for tid, res, st in done:
        th = by_tid[tid]['theme']
        agg = stats.setdefault(th, dict(programs=0, cases_enumerated=0, cases_run=0, tasks=0))
        for k in ('programs', 'cases_enumerated', 'cases_run'):
            agg[k] += st[k]
        agg['tasks'] += 1
        for r in res:
            if r['status'] == 'timeout':          # retried once, alone, before it counts
                c = r.pop('case')
                r2 = (evaluator or eval_case)(c)
                r2.update(cls=r['cls'], n=r['n'])
                r = r2
            results.append(r)
    return results, stats


def build_cases(themes, cfg, seed):
    """all cases in the parent process (used by small runs and tools).  -> (cases, stats)"""
    cases, stats = [], {}
    for t in make_tasks(themes, cfg, seed):
        cs, st = task_cases(t)
        cases += cs
        agg = stats.setdefault(t['theme'], dict(programs=0, cases_enumerated=0, cases_run=0))
        for k in agg:
            agg[k] += st[k]
    return cases, stats


def class_key(case):
    return case['theme'] + ':' + ' '.join(_top_prim(i) for i in case['code'])


def _top_prim(i):
    if isinstance(i, list):
        return '{}'
    n = ''.join(' ' + a['int'] for a in i.get('args', []) if isinstance(a, dict) and 'int' in a)
    return i['prim'] + n


# ----------------------------------------------------------------------------- evaluation of one case

def vclass(t, v, depth=1):
    k = t[0]
    if k in ('int', 'nat', 'mutez', 'timestamp'):
        return 'neg' if v < 0 else ('0' if v == 0 else 'pos')
    if k in ('string', 'bytes', 'list', 'set', 'map'):
        return 'empty' if len(v) == 0 else ('n=1' if len(v) == 1 else 'n>1')
    if k == 'bool':
        return 'T' if v else 'F'
    if k == 'option':
        return 'None' if v is None else 'Some'
    if k == 'or':
        return v[0][0]
    if k == 'pair':
        return '(' + vclass(t[1], v[0], depth - 1) + ',' + vclass(t[2], v[1], depth - 1) + ')' if depth > 0 else 'pair'
    if k == 'lambda':
        return 'lam-rec' if v[2] else ('lam-applied' if v[3] else 'lam')
    return '_'


def vtraits(ins, S, V):
    ins = R.freeze(ins)
    tr = [vclass(t, v) for t, v in list(zip(S, V))[:3]]
    if ins[0] == 'P' and ins[1] == 'SLICE' and len(V) >= 3:
        off, ln, s = V[0], V[1], V[2]
        tr.append('offset<len' if off < len(s) else ('offset=len' if off == len(s) else 'offset>len'))
        tr.append('end<=len' if off + ln <= len(s) else 'end>len')
    return ','.join(tr)


def run_both(code, S, V, env):
    """-> (ref outcome, real outcome) or raises R.RefError (no oracle) / E.Timeout"""
    ref = R.run(code, S, V, env)
    types = [TM(t) for t in S]
    vals = [R.data_to_micheline(t, v) for t, v in zip(S, V)]
    real = E.with_timeout(20, E.real_run, code, types, vals, env)
    return ref, real


def findings_for(code, S, V, env):
    ref, real = run_both(code, S, V, env)
    return E.compare_outcomes(ref, real), ref, real


def _size(n):
    if n[0] == 'Q':
        return 1 + sum(_size(i) for i in n[1])
    if n[0] == 'P':
        return 1 + sum(_size(a) for a in n[2])
    return 1


_ISO_CACHE = {}


def isolate(code, S, V, env, prop):
    """Find the executed instruction that violates the contract of `prop` when run alone on the operands the
    reference run gave it.  -> dict(code, S, V, finding) or None."""
    R.TRACE = tr = []
    try:
        R.run(code, S, V, env)
    except Exception:  # noqa
        pass
    finally:
        R.TRACE = None
    seen, steps = set(), []
    for ins, Ss, Vs in tr:
        try:
            key = (ins, Ss, Vs)
            if key in seen:
                continue
            seen.add(key)
        except TypeError:
            pass
        steps.append((ins, Ss, Vs))
    simple = [x for x in steps if x[0][1] not in R.CONTROL]
    ctrl = sorted([x for x in steps if x[0][1] in R.CONTROL], key=lambda x: _size(x[0]))
    envk = tuple(sorted((env or {}).items()))
    for ins, Ss, Vs in (simple + ctrl)[:400]:
        sub = [R.thaw(ins)]
        try:
            key = (ins, Ss, Vs, envk)
            hash(key)
        except TypeError:
            key = None
        if key is not None and key in _ISO_CACHE:
            fs = _ISO_CACHE[key]
        else:
            try:
                fs, ref, real = findings_for(sub, Ss, Vs, env)
            except E.Timeout:
                continue
            except Exception:  # noqa   no oracle, or these operands cannot be fed to the real interpreter (e.g. applied lambda)
                fs = None
            if fs is not None and any(f[1] == 'requires.input_accepted' for f in fs):
                fs = None                     # these operands cannot be handed to the real interpreter as literals
            if key is not None and len(_ISO_CACHE) < 200000:
                _ISO_CACHE[key] = fs
        if not fs:
            continue
        fs = [f for f in fs if f[0] == prop]
        if fs:
            return dict(code=sub, S=Ss, V=Vs, finding=fs[0], ins=ins)
    return None


def _flatten(code):
    out = []
    for i in code:
        if isinstance(i, list):
            out += _flatten(i)
        else:
            out.append(i)
    return out


def _descend(ins, St, Vt):
    """for DIP / IF* the failing instruction is looked for inside the body that the reference run executes:
    -> (body, stack types, stack values) or None"""
    if not (isinstance(ins, dict) and ins.get('prim') in ('DIP', 'IF', 'IF_NONE', 'IF_LEFT', 'IF_CONS')):
        return None
    prim, args = ins['prim'], ins.get('args', [])
    try:
        if prim == 'DIP':
            n = int(args[0]['int']) if len(args) == 2 else 1
            return args[-1], tuple(St[n:]), tuple(Vt[n:])
        s1, s2 = R._branch_inputs(prim, St)
        h, rest = Vt[0], tuple(Vt[1:])
        if prim == 'IF':
            return (args[0], s1, rest) if h else (args[1], s2, rest)
        if prim == 'IF_NONE':
            return (args[0], s1, rest) if h is None else (args[1], s2, (h[1],) + rest)
        if prim == 'IF_LEFT':
            return (args[0], s1, (h[1],) + rest) if h[0] == 'Left' else (args[1], s2, (h[1],) + rest)
        return (args[0], s1, (h[0], h[1:]) + rest) if h else (args[1], s2, rest)
    except Exception:  # noqa
        return None


def shrink_prefix(code, S, V, env, prop, depth=0):
    """shortest failing prefix of the (flattened) top-level sequence; the last instruction of it is described with
    the reference stack it is applied to (descending into DIP / IF* bodies)"""
    code = _flatten(code)
    for n in range(1, len(code) + 1):
        try:
            fs, _, _ = findings_for(code[:n], S, V, env)
        except Exception:  # noqa
            continue
        if depth > 0 and any(f[1] == 'requires.input_accepted' for f in fs):
            return None                   # the inner stack cannot be handed to the real interpreter as literals
        fs = [f for f in fs if f[0] == prop]
        if fs:
            St, Vt = tuple(S), tuple(V)
            if n > 1:
                try:
                    before = R.run(code[:n - 1], S, V, env)
                    if before[0] == 'ok':
                        St, Vt = before[1], before[2]
                except R.RefError:
                    pass
            inner = _descend(code[n - 1], St, Vt) if depth < 4 else None
            if inner is not None:
                sub = shrink_prefix(inner[0], inner[1], inner[2], env, prop, depth + 1)
                if sub is not None:
                    return sub
            return dict(code=code[:n], S=tuple(S), V=tuple(V), finding=fs[0], ins=R.freeze(code[n - 1]), St=St, Vt=Vt)
    return None


def jcase(code, S, V, env, prop, clause):
    return dict(code=code, types=[TM(t) for t in S], values=[R.data_to_micheline(t, v) for t, v in zip(S, V)],
                env=env, prop=prop, clause=clause)


def report(case, f, mode='stack'):
    """finding tuple (prop, clause, msg, trait) on a case -> violation record with minimal input and witness class"""
    prop, clause, msg, trait = f
    code, S, V, env = case['code'], case['S'], case['V'], case['env']
    if clause == 'requires.input_accepted':
        i = int(trait.split()[1])
        where = f'input :: {E.tstr(S[i], 6)} [{vclass(S[i], V[i])}]'
        return dict(prop=prop, oid=f'{prop}::{clause}', wclass=where, message=f'{where}: {msg}',
                    case=jcase([], (S[i],), (V[i],), env, prop, clause), id=case['id'])
    iso = isolate(code, S, V, env, prop) if mode == 'stack' else None
    if iso:
        where = E.describe(iso['ins'], iso['S']) + ' [' + vtraits(iso['ins'], iso['S'], iso['V']) + ']'
        f2 = iso['finding']
        try:
            jc = jcase(iso['code'], iso['S'], iso['V'], env, prop, f2[1])
        except R.RefError:
            iso = None
        else:
            return dict(prop=prop, oid=f'{prop}::{f2[1]}', wclass=f'{where} -> {f2[3]}',
                        message=f'{where}: {f2[2]}  (found in program {code} on {[R.data_to_micheline_safe(t, v) for t, v in zip(S, V)]})',
                        case=jc, id=case['id'])
    sh = shrink_prefix(code, S, V, env, prop) if mode == 'stack' else None
    if sh:
        where = 'in-context ' + E.describe(sh['ins'], sh['St']) + ' [' + vtraits(sh['ins'], sh['St'], sh['Vt']) + ']'
        return dict(prop=prop, oid=f'{prop}::{sh["finding"][1]}', wclass=f'{where} -> {sh["finding"][3]}',
                    message=f'{where}: {sh["finding"][2]}  (found in program {code})',
                    case=jcase(sh['code'], sh['S'], sh['V'], env, prop, sh['finding'][1]), id=case['id'])
    where = f'{mode} ' + ';'.join(_top_prim(i) for i in code)
    return dict(prop=prop, oid=f'{prop}::{clause}', wclass=f'{where} -> {trait}', message=f'{where}: {msg}',
                case=dict(jcase(code, S, V, env, prop, clause), mode=mode), id=case['id'])


def default_value(t):
    return G.values(t)[0]


def contract_wrap(code, S, Sf):
    """program : S -> [T]  as a contract  parameter comb(S) ; storage T ; code {CAR; UNPAIR n; program; NIL operation; PAIR}"""
    if len(Sf) != 1 or Sf == R.FAILED:
        return None
    T = Sf[0]
    if not (R.storable(T) and R.pushable(T)) or any(not R.pushable(t) for t in S):
        return None
    P = G.P
    if len(S) == 0:
        pt, pre = R.T_UNIT, [P('CAR'), P('DROP')]
    elif len(S) == 1:
        pt, pre = S[0], [P('CAR')]
    else:
        pt, pre = R.pair_t(*S), [P('CAR'), P('UNPAIR', G.I(len(S)))]
    return pt, T, pre + list(code) + [P('NIL', P('operation')), P('PAIR')]


def eval_contract_mode(case, ref):
    Sf = ref[1] if ref[0] == 'ok' else None
    if Sf is None:
        try:
            Sf = R.typecheck(case['code'], case['S'])
        except R.RefError:
            return []
    w = contract_wrap(case['code'], case['S'], Sf) if Sf != R.FAILED else None
    if w is None:
        return []
    pt, T, code = w
    S, V = case['S'], case['V']
    if len(S) == 0:
        pv = ()
    elif len(S) == 1:
        pv = V[0]
    else:
        pv = V[-1]
        for v in reversed(V[:-1]):
            pv = (v, pv)
    try:
        real = E.with_timeout(20, E.real_run_contract, code, TM(pt), TM(T), R.data_to_micheline(pt, pv),
                              R.data_to_micheline(T, default_value(T)), case['env'])
    except R.RefError:
        return []
    if real[0] == 'ok':
        real = ('ok', [(TM(T), real[1])])
    fs = E.compare_outcomes(ref, real)
    return [(p, 'run_code.' + c, m, t) for p, c, m, t in fs]


def eval_case(case):
    out = dict(id=case['id'], status='ok', findings=[])
    code, S, V, env = case['code'], case['S'], case['V'], case['env']
    try:
        fs, ref, real = findings_for(code, S, V, env)
    except R.Unsupported as e:
        out['status'] = 'no-oracle'
        out['why'] = str(e)[:80]
        return out
    except E.Timeout:
        out['status'] = 'timeout'
        return out
    for f in fs:
        out['findings'].append(report(case, f))
    if case.get('contract'):
        stack_props = {f[0] for f in fs}
        try:
            for f in eval_contract_mode(case, ref):
                if f[0] not in stack_props:          # a failure of run_code that the plain execution does not show
                    rep = report(case, f, mode='run_code')
                    c02 = [x for x in out['findings'] if x['prop'] == 'C02']
                    if c02 and "'END'" in f[2]:      # MichelsonProgram.end rejects the result because of its run-time type
                        rep['wclass'] = 'run_code END rejects result type: ' + c02[0]['wclass']
                    out['findings'].append(rep)
            out['contract_run'] = True
        except E.Timeout:
            out['status'] = 'timeout'
    return out


def _chunk(chunk):
    res = []
    for c in chunk:
        res.append(eval_case(c))
    return res


def run_cases(cases, procs=None, chunk=40):
    procs = procs or min(16, os.cpu_count() or 4)
    chunks = [cases[i:i + chunk] for i in range(0, len(cases), chunk)]
    if procs <= 1 or len(chunks) <= 1:
        return [r for ch in chunks for r in _chunk(ch)]
    E.install_probe()                     # import pytezos once, before forking
    ctx = mp.get_context('fork')
    with ctx.Pool(procs) as pool:
        out = []
        for res in pool.imap_unordered(_chunk, chunks):
            out += res
    out.sort(key=lambda r: r['id'])
    by_id = {c['id']: c for c in cases}
    for i, r in enumerate(out):               # a time-out under machine load is retried once, alone, before it counts
        if r['status'] == 'timeout':
            out[i] = eval_case(by_id[r['id']])
    return out


# ----------------------------------------------------------------------------- replay

def replay_case(case):
    """re-evaluate the contract of case['prop'] on the recorded minimal input with the current pytezos tree"""
    S = [R.parse_type(t) for t in case['types']]
    V = [R.parse_data(t, v) for t, v in zip(S, case['values'])]
    c = dict(code=case['code'], S=tuple(S), V=tuple(V), env=case.get('env') or {}, id=0)
    fs, ref, real = findings_for(c['code'], c['S'], c['V'], c['env'])
    if case.get('mode') == 'run_code':
        fs = eval_contract_mode(c, ref)
    fs = [f for f in fs if f[0] == case['prop']]
    info = f"program {case['code']} on stack {case['values']} : {case['types']}\n  reference: {_show(ref)}\n  real:      {real}"
    if fs:
        return True, info + '\n  ' + '; '.join(f'{f[1]}: {f[2]}' for f in fs)
    return False, info


def _show(ref):
    if ref[0] == 'ok':
        return ('ok', [(E.tstr(t, 9), R.data_to_micheline_safe(t, v)) for t, v in zip(ref[1], ref[2])])
    if ref[0] == 'failwith':
        return ('failwith', E.tstr(ref[1], 9), R.data_to_micheline_safe(ref[1], ref[2]))
    return ref
