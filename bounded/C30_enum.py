"""C30 — enumeration of small texts / text pairs / small protocols, and the worker that evaluates the
contracts of make_patch / apply_patch on the real functions.

Texts are sequences of lines over a small line alphabet, with or without a final newline (a text
whose last line is the empty line and has no final newline is the same string as the shorter text
with a final newline; texts are de-duplicated as strings).
"""
from __future__ import annotations
import itertools

# the main alphabet: two distinct non-empty lines and the blank line
ALPHA_MAIN = ('a', 'b', '')
# lines that look like unified-diff syntax (headers, hunk headers, sign characters, the no-EOL marker)
ALPHA_SYNTAX = ('-', '+x', '@@ -1 +1 @@')
ALPHA_SYNTAX2 = ('-- f', '++ f', '\\ No newline at end of file')
ALPHA_SYNTAX3 = (' ', '\\', '@')
# characters that str.splitlines() treats as line boundaries besides LF (CR, FF, FS, NEL, LS)
ALPHA_EXOTIC = (('a', 'b\r', 'c\x0cd'), ('a\r', '\x0c', 'b\u2028c'), ('a\x1cb', '\x85', '\r'))


def texts(alpha, max_lines):
    """All texts of <= max_lines lines over `alpha`, with and without final newline, no duplicates."""
    seen = set()
    out = []
    for k in range(0, max_lines + 1):
        for lines in itertools.product(alpha, repeat=k):
            for final_nl in ((True, False) if k else (True,)):
                t = '\n'.join(lines) + ('\n' if (final_nl and k) else '')
                if t not in seen:
                    seen.add(t)
                    out.append(t)
    return out


def n_lines(t):
    return t.count('\n') + (1 if t and not t.endswith('\n') else 0)


def text_class(t):
    return f'{n_lines(t)}{"n" if (t.endswith(chr(10)) or not t) else "x"}'


# ---------------------------------------------------------------------------------------------
# worker: evaluates, for one `a` and all `b`, all context sizes, the three clauses
#   make_patch.identical   : make_patch(a, a) == ''         (stated in its docstring, relied on by Protocol.patch)
#   apply_patch.forward    : apply_patch(a, make_patch(a, b, f, n)) == b
#   apply_patch.revert     : apply_patch(b, make_patch(a, b, f, n), revert=True) == a
# returns (n_evaluations, classes, failures[list of dict]) with at most `cap` failures per clause kept.

def eval_row(args):
    a, bs, ctxs, filename, cap = args
    from pytezos.protocol.diff import make_patch, apply_patch
    n = 0
    classes = set()
    fails = []
    per = {}

    def fail(clause, b, c, info, patch):
        per[clause] = per.get(clause, 0) + 1
        if per[clause] <= cap:
            fails.append(dict(clause=clause, a=a, b=b, context_size=c, filename=filename, info=info, patch=patch))

    for b in bs:
        for c in ctxs:
            n += 1
            try:
                p = make_patch(a, b, filename, c)
            except Exception as e:  # noqa
                fail('make_patch::safety.no_exception', b, c, f'make_patch raised {type(e).__name__}: {e}', None)
                continue
            hunks = p.count('\n@@') + (1 if p.startswith('@@') else 0)
            classes.add(f'a={text_class(a)} b={text_class(b)} n={c} hunks={min(hunks, 3)}')
            if not isinstance(p, str):
                fail('make_patch::ensures.str', b, c, f'returned {type(p).__name__}', None)
                continue
            if a == b and p != '':
                fail('make_patch::ensures.identical_empty', b, c, f'patch of identical texts is {p!r}, not empty', p)
            try:
                fwd = apply_patch(a, p)
                if fwd != b:
                    fail('apply_patch::ensures.forward', b, c, f'apply_patch(a, patch) == {fwd!r}, expected b == {b!r}', p)
            except Exception as e:  # noqa
                fail('apply_patch::safety.forward_no_exception', b, c,
                     f'apply_patch(a, patch) raised {type(e).__name__}: {e}', p)
            try:
                rev = apply_patch(b, p, revert=True)
                if rev != a:
                    fail('apply_patch::ensures.revert', b, c,
                         f'apply_patch(b, patch, revert=True) == {rev!r}, expected a == {a!r}', p)
            except Exception as e:  # noqa
                fail('apply_patch::safety.revert_no_exception', b, c,
                     f'apply_patch(b, patch, revert=True) raised {type(e).__name__}: {e}', p)
    return n, classes, fails, per


# ---------------------------------------------------------------------------------------------
# small protocols: a protocol = ordered list of (filename, text); file names `<module>.<mli|ml>`

def protocols(texts_, modules=('m', 'n'), max_files=3):
    """All file lists with <= max_files files over modules x {mli, ml}, in TEZOS_PROTOCOL order
    (for each module: .mli before .ml, as dir_to_files produces them), texts from `texts_`."""
    names = [f'{m}.{e}' for m in modules for e in ('mli', 'ml')]
    out = []
    for k in range(0, max_files + 1):
        for sel in itertools.combinations(range(len(names)), k):
            for ts in itertools.product(texts_, repeat=k):
                out.append([(names[i], t) for i, t in zip(sel, ts)])
    return out


# ---------------------------------------------------------------------------------------------
# long texts: hunk positions and lengths around every change in the number of decimal digits (9/10/11, 99/100/101) and lengths that
# end in the digit 0 (10, 20, 100) — the hunk header `@@ -s,n +t,m @@` is parsed textually, small texts never produce such headers
LONG_LENGTHS = (9, 10, 11, 12, 19, 20, 21, 30, 99, 100, 101, 110)
LONG_POSITIONS = (0, 1, 8, 9, 10, 11, 18, 19, 20, 21, 29, 30, 98, 99, 100, 101, 109)


def long_rows():
    """rows (a, [b...]) for eval_row: a = L distinct lines; b = a with one or two edits at the boundary positions"""
    rows = []
    for L in LONG_LENGTHS:
        lines = [f'l{i:03d}\n' for i in range(L)]
        for eol in (True, False):
            a_lines = list(lines)
            if not eol:
                a_lines[-1] = a_lines[-1][:-1]
            a = ''.join(a_lines)
            bs = []
            for p in [q for q in LONG_POSITIONS if q <= L]:
                new1 = ['NEW\n']
                new10 = [f'N{i}\n' for i in range(10)]
                variants = [a_lines[:p] + new1 + a_lines[p:],                       # insert one line before p
                            a_lines[:p] + new10 + a_lines[p:]]                      # insert ten lines
                if p < L:
                    variants += [a_lines[:p] + a_lines[p + 1:],                     # delete line p
                                 a_lines[:p] + new1 + a_lines[p + 1:],              # replace line p
                                 a_lines[:p] + a_lines[p + 10:],                    # delete ten lines from p
                                 a_lines[:p] + new10 + a_lines[p + 10:]]            # replace ten lines
                if 4 <= p < L:
                    variants += [['FIRST\n'] + a_lines[1:p] + new1 + a_lines[p + 1:],      # two hunks: line 0 and line p
                                 a_lines[:2] + a_lines[3:p] + a_lines[p + 1:]]             # two deletions
                for v in variants:
                    if v and not eol and v[-1].endswith('\n') and v[-1] in new1 + new10:
                        pass
                    bs.append(''.join(v))
            rows.append((a, bs))
    return rows
