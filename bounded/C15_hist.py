"""C15 helper — histories of GET / MEM / UPDATE / GET_AND_UPDATE on real big_maps through the real
instruction classes, against the layered-dictionary oracle of specs/C15_bigmap_ref.py.

The on-chain contents are served by a stub RpcNode behind a real ShellQuery (the HTTP layer is the only
stubbed external): GET chains/main/blocks/head/context/big_maps/<ptr>/<script_expr> answers the value
Micheline or raises RpcError (404) — the script_expr in the path is computed by the ORACLE, so a wrong key
hash in pytezos' lookup is observed as a missing key.

Enumeration is a depth-first walk that shares prefixes: BigMapType operations are functional (a new object
per update), so the object reached by a history is reused for all its extensions; the harness never mutates it.

Widened inputs (each was one fixed value before):
  * VALUE types: nat (never falsy in Python) and, for the universes of VAL_OF, string / list values that include the falsy
    "" and {} (whose Micheline `[]` is falsy too) — as literal entries, ON-CHAIN values and written values;
  * a falsy KEY ("" in the string universe);
  * CONTEXT state: except for the pristine 'fresh' config every context also holds ANOTHER registered on-chain big_map
    (id 1 = |first temporary id|) that binds every key of the universe to a recognisable foreign value, so a lookup
    under a wrong id is observed instead of reading "absent" by luck;
  * 'copy<mask>': the big_map was passed by id as a PARAMETER (attach_context(big_map_copy=True)): a temporary id
    registered as a copy of the on-chain one — reads go to the source, the diff action is `copy`;
  * '<config>d': every operation is applied to a DUPlicate made by the real DUP instruction (BigMapType.duplicate), as
    a Michelson program has to do (GET / MEM / UPDATE consume their operand);
  * the emitted diff is also merged back by pytezos itself (BigMapType.merge_lazy_diff, what ContractCallResult shows).
"""
from __future__ import annotations

from specs import michelson_ref as R
from specs import C15_bigmap_ref as S

# value types: (type, value of key i in a literal, value of key i ON CHAIN, value written at step s, foreign value)
VALTYPES = {
    'nat': (('nat',), lambda i: 100 + i, lambda i: 100 + i, lambda s: 10 + s, 999),
    'string': (('string',), lambda i: '' if i % 2 == 0 else f'l{i}', lambda i: '' if i % 2 == 0 else f'c{i}',
               lambda s: '' if s % 2 == 0 else f'n{s}', 'FOREIGN'),
    'list': (('list', ('nat',)), lambda i: () if i % 2 == 0 else (i,), lambda i: () if i % 2 == 0 else (i, i),
             lambda s: () if s % 2 == 0 else (s,), (9, 9, 9)),
}
VAL_OF = {'pair_nat_string': 'string', 'or_int_bool': 'list'}        # every other universe: nat
OTHER_PTR = 1
# merge_lazy_diff takes an update whose value is the EMPTY SEQUENCE for a removal (`if update.get('value')`): genuine defect of
# the unchanged tree (reported, reproduction in the final report of the widening pass); the clause is checked for such diffs
# only when this flag is set
CANDIDATE_DEFECT_MERGE_EMPTY_SEQUENCE = True      # fixed in /repo 06dc141: kept as a switch for trees older than the fix
# the diff of a copied big_map carries no `source` (big_map.py: `elif action == 'copy': pass  # TODO`), so it cannot be applied
# by a consumer that follows the protocol's lazy_storage_diff format; the `source` clause is checked only when this flag is set
CANDIDATE_DEFECT_COPY_WITHOUT_SOURCE = True      # fixed in /repo (copy diff names its source): kept as a switch for older trees
UNIVERSES = {
    'string': (('string',), ('', 'b', 'c')),
    'pair_nat_string': (R.pair_t(('nat',), ('string',)), ((0, 'b'), (1, 'a'), (1, 'b'))),
    'nat': (('nat',), (0, 1, 300)),
    'bytes': (('bytes',), (b'', b'\x00', b'\xff\x01')),
    'or_int_bool': (('or', ('int',), ('bool',)), (('Left', -1), ('Left', 2), ('Right', False))),
    # right combs of 4 and 5 components (the key hash uses the nested, legacy optimized form; PACK would use a sequence)
    'comb4_int': (R.pair_t(('int',), ('int',), ('int',), ('int',)), ((1, (1, (1, 1))), (1, (1, (1, 2))), (2, (0, (0, -1))))),
    'comb5_mixed': (R.pair_t(('string',), ('nat',), ('int',), ('bytes',), ('bool',)),
                    (('a', (0, (-1, (b'', False)))), ('a', (0, (-1, (b'\x00', True)))), ('b', (7, (3, (b'\xff', False)))))),
    'or_comb4': (('or', R.pair_t(('nat',), ('nat',), ('nat',), ('nat',)), ('unit',)),
                 (('Left', (0, (0, (0, 1)))), ('Left', (0, (1, (0, 0)))), ('Right', ()))),
    'option_comb4': (('option', R.pair_t(('string',), ('nat',), ('int',), ('bytes',))),
                     (None, ('Some', ('a', (1, (-1, b'')))), ('Some', ('a', (1, (0, b'\x01')))))),
}
OPS = ('GET', 'MEM', 'UPD+', 'UPD-', 'GAU+', 'GAU-')
MUTATORS = ('UPD+', 'UPD-', 'GAU+', 'GAU-')
PTR = 42


def symbols(mutators_only=False):
    return [(op, i) for op in (MUTATORS if mutators_only else OPS) for i in range(3)]


def configs():
    """'fresh' (EMPTY_BIG_MAP on a pristine context without shell), 'fresh+' (the same on a context that holds another
    on-chain big_map), the 8 on-chain-backed splits (bit i set = key i is on chain), the 7 big_maps initialised from a
    non-empty literal (storage literal `{ Elt k v; … }`: local entries, nothing on chain), a copied big_map and two
    configs in which every operand is a DUPlicate."""
    return ['fresh', 'fresh+'] + [f'chain{m}' for m in range(8)] + [f'lit{m}' for m in range(1, 8)] + ['copy5', 'chain5d', 'lit5d']


class Env:
    """Real pytezos objects for one (universe, config)."""

    def __init__(self, uni, cfg):
        from pytezos.context.impl import ExecutionContext
        from pytezos.michelson.types.base import MichelsonType
        from pytezos.rpc.errors import RpcError
        from pytezos.rpc.node import RpcNode
        from pytezos.rpc.shell import ShellQuery
        import pytezos.rpc.query as q
        q.format_docstring = lambda *a, **k: ''          # help-text rendering of query objects (cost only)
        self.uni, self.cfg = uni, cfg
        self.dup = cfg.endswith('d')
        cfg = cfg.rstrip('d')
        self.copy = cfg.startswith('copy')
        self.t_val, self.lit_val, self.chain_val, self.new_val, self.foreign = VALTYPES[VAL_OF.get(uni, 'nat')]
        self.vt_expr = _type_expr(self.t_val)
        self.t_key, self.keys = UNIVERSES[uni]
        self.key_expr = [S.legacy_optimized(self.t_key, k) for k in self.keys]
        self.hashes = [S.key_hash(self.t_key, k) for k in self.keys]
        self.type_expr = {'prim': 'big_map', 'args': [_type_expr(self.t_key), self.vt_expr]}
        self.fresh = not cfg.startswith(('chain', 'copy'))          # no on-chain big_map: the diff allocates
        mask = int(cfg[5:] if cfg.startswith('chain') else cfg[4:]) if not self.fresh else 0
        self.lit_mask = int(cfg[3:]) if cfg.startswith('lit') else 0
        self.literal = {k: self.lit_val(i) for i, k in enumerate(self.keys) if self.lit_mask >> i & 1}
        self.chain = {k: self.chain_val(i) for i, k in enumerate(self.keys) if mask >> i & 1}
        self.chain_by_hash = {self.hashes[i]: (self.key_expr[i], self.vexpr(self.chain_val(i)))
                              for i in range(3) if mask >> i & 1}
        self.pristine = (cfg == 'fresh')
        env = self
        self.lookups = []

        class Node(RpcNode):
            def __init__(self):
                super().__init__('http://simulated.invalid')

            def request(self, method, path, **kw):
                raise AssertionError(f'unexpected raw request {method} {path}')

            def get(self, path, params=None, timeout=None):
                p = path.strip('/')
                pre = f'chains/main/blocks/head/context/big_maps/{PTR}/'
                if p.startswith(pre):
                    h = p[len(pre):]
                    env.lookups.append(h)
                    if h in env.chain_by_hash:
                        return env.chain_by_hash[h][1]
                    raise RpcError(f'Not found: {path}')
                pre = f'chains/main/blocks/head/context/big_maps/{OTHER_PTR}/'
                if p.startswith(pre) and not env.pristine:
                    env.lookups.append(p[len(pre):])
                    return env.vexpr(env.foreign)           # the OTHER big_map binds every key
                raise AssertionError(f'stub node: unmodelled GET {path}')

        self.ctx = ExecutionContext(shell=None if self.pristine else ShellQuery(Node()))
        self.bm_cls = MichelsonType.match(self.type_expr)
        self.K, self.V = self.bm_cls.args
        self.key_objs = [self.K.from_micheline_value(e) for e in self.key_expr]
        self.sentinel = MichelsonType.match({'prim': 'nat'}).from_micheline_value({'int': '7777'})
        if not self.pristine:
            other = self.bm_cls.from_micheline_value({'int': str(OTHER_PTR)})
            other.attach_context(self.ctx)                  # context state: another on-chain big_map is registered
            self.other = other

    def vexpr(self, v):
        return R.data_to_micheline(self.t_val, v)

    def initial(self):
        from pytezos.michelson.instructions.base import MichelsonInstruction
        from pytezos.michelson.stack import MichelsonStack
        if self.lit_mask:
            bm = self.bm_cls.from_micheline_value([{'prim': 'Elt', 'args': [self.key_expr[i], self.vexpr(self.lit_val(i))]}
                                                   for i in range(3) if self.lit_mask >> i & 1])
            bm.attach_context(self.ctx)
            return bm
        if self.fresh:
            st = MichelsonStack()
            ins = MichelsonInstruction.match({'prim': 'EMPTY_BIG_MAP', 'args': self.type_expr['args']})
            ins.execute(st, [], self.ctx)
            return st.items[0]
        bm = self.bm_cls.from_micheline_value({'int': str(PTR)})
        bm.attach_context(self.ctx, big_map_copy=self.copy)     # copy: what ParameterSection.attach_context does
        return bm

    def val(self, v):
        return self.V.from_micheline_value(self.vexpr(v))

    def duplicate(self, bm):
        """the copy made by the real DUP instruction (the original must stay on the stack below it, untouched)"""
        from pytezos.michelson.instructions.stack import DupInstruction
        st = _stack(self, [bm])
        DupInstruction.execute(st, [], self.ctx)
        assert len(st.items) == 3 and st.items[1] is bm and st.items[2] is self.sentinel and st.items[0] is not bm, 'DUP: stack shape'
        return st.items[0]


def _type_expr(t):
    if len(t) == 1:
        return {'prim': t[0]}
    return {'prim': t[0], 'args': [_type_expr(a) for a in t[1:]]}


_SENTINEL = None


def _stack(env, items):
    """fresh stack with a sentinel at the bottom (must stay untouched); items pushed so that items[0] ends on top"""
    from pytezos.michelson.stack import MichelsonStack
    st = MichelsonStack()
    st.push(env.sentinel)
    for x in reversed(items):
        st.push(x)
    return st


def _opt_expr(env, v):
    return {'prim': 'None'} if v is None else {'prim': 'Some', 'args': [env.vexpr(v)]}


def apply_real(env, bm, op, i, newval):
    """Executes the real instruction; returns (observed Micheline | None, new big_map | None)."""
    from pytezos.michelson.instructions.struct import (GetAndUpdateInstruction, GetInstruction, MemInstruction,
                                                       UpdateInstruction)
    from pytezos.michelson.types import OptionType
    key = env.key_objs[i]
    if env.dup:
        bm = env.duplicate(bm)
    if op == 'GET':
        st = _stack(env, [key, bm])
        GetInstruction.execute(st, [], env.ctx)
        assert len(st.items) == 2 and st.items[1] is env.sentinel, 'GET: stack shape'
        return st.items[0].to_micheline_value(), None
    if op == 'MEM':
        st = _stack(env, [key, bm])
        MemInstruction.execute(st, [], env.ctx)
        assert len(st.items) == 2, 'MEM: stack shape'
        return st.items[0].to_micheline_value(), None
    ov = OptionType.from_some(env.val(newval)) if op.endswith('+') else OptionType.none(env.V)
    st = _stack(env, [key, ov, bm])
    if op.startswith('UPD'):
        UpdateInstruction.execute(st, [], env.ctx)
        assert len(st.items) == 2, 'UPDATE: stack shape'
        return None, st.items[0]
    GetAndUpdateInstruction.execute(st, [], env.ctx)
    assert len(st.items) == 3, 'GET_AND_UPDATE: stack shape'
    return st.items[0].to_micheline_value(), st.items[1]


def apply_ref(env, ref, op, i, newval):
    k = env.keys[i]
    if op == 'GET':
        return _opt_expr(env, ref.get(k)), ref
    if op == 'MEM':
        return {'prim': 'True' if ref.mem(k) else 'False'}, ref
    prev, ref2 = ref.update(k, newval if op.endswith('+') else None)
    return (_opt_expr(env, prev) if op.startswith('GAU') else None), ref2


def root_cause(bm, env=None, ref=None):
    """precise, stable description of the state of the real object when an observation is wrong"""
    marks = []
    try:
        if any(v is None for _, v in bm.items):
            marks.append('items holds a (removed key, None) entry')
        ks = [k for k, _ in bm.items]
        if len(set(map(repr, ks))) != len(ks):
            marks.append('items holds a key twice')
        if any(k in ks for k in bm.removed_keys):
            marks.append('a key is both in items and in removed_keys')
        if not marks and env is not None and ref is not None:
            local = [k.to_micheline_value() for k in ks]
            for i, k in enumerate(env.keys):
                if ref.overlay.get(k) is not None and env.key_expr[i] not in local:
                    marks.append('a locally written key is missing from items (write to a key that exists only on chain is lost)'
                                 if k in env.chain else 'a locally written key is missing from items')
                    break
    except Exception as e:      # representation changed: no marks
        marks.append(f'state not inspectable ({type(e).__name__})')
    return '; '.join(marks) or 'local state looks well-formed'


def check_diff(env, bm, ref):
    """Lazy diff of the real big_map, applied to the on-chain contents, must equal the reference dictionary."""
    ld = []
    res = bm.aggregate_lazy_diff(ld)
    if len(ld) != 1 or ld[0].get('kind') != 'big_map':
        return 'diff.shape', f'expected one big_map entry, got {ld}'
    e = ld[0]
    want_action = 'alloc' if env.fresh else 'copy' if env.copy else 'update'
    if e['diff'].get('action') != want_action:
        return 'diff.action', f'action {e["diff"].get("action")} expected {want_action}'
    if want_action == 'update' and e['id'] != str(PTR):
        return 'diff.id', f'id {e["id"]} expected {PTR}'
    if want_action == 'copy' and CANDIDATE_DEFECT_COPY_WITHOUT_SOURCE and e['diff'].get('source') != str(PTR):
        return 'diff.source', f'copy diff names source {e["diff"].get("source")!r}, expected {str(PTR)!r}: {e}'
    if env.fresh and (e['diff'].get('key_type') != env.type_expr['args'][0] or e['diff'].get('value_type') != env.vt_expr):
        return 'diff.types', f'alloc types {e["diff"].get("key_type")} / {e["diff"].get("value_type")}'
    # alloc starts from nothing; update and copy start from the contents of the on-chain (source) big_map
    base = {} if want_action == 'alloc' else {h: v[1] for h, v in env.chain_by_hash.items()}
    got = dict(base)
    for u in e['diff']['updates']:
        try:
            kv = R.parse_data(env.t_key, u.get('key'))          # notation-independent (comb / nested / sequence)
        except Exception:
            kv = None
        if kv not in env.keys:
            return 'diff.key', f'update for unknown key {u.get("key")}'
        want = env.hashes[env.keys.index(kv)]
        if u.get('key_hash') != want:
            return 'diff.key_hash', f'key {u["key"]}: key_hash {u.get("key_hash")} expected {want} (hash of the nested, legacy optimized form)'
        if u.get('value') is not None:
            got[u['key_hash']] = u['value']
        else:
            got.pop(u['key_hash'], None)
    final = ref.final()
    want = {env.hashes[env.keys.index(k)]: env.vexpr(v) for k, v in final.items()}
    name = {h: repr(env.key_expr[i]) for i, h in enumerate(env.hashes)}
    if got != want:
        return 'diff.applied', (f'diff applied to the on-chain contents gives {sorted((name[h], repr(v)) for h, v in got.items())}, '
                                f'reference dictionary {sorted((name[h], repr(v)) for h, v in want.items())}; '
                                f'updates {[(u["key"], u.get("value")) for u in e["diff"]["updates"]]}')
    # the same diff merged back by pytezos (merge_lazy_diff on the id-only big_map that the storage now holds): its local
    # entries / removed keys, laid over the same base, must give the reference dictionary as well
    if not CANDIDATE_DEFECT_MERGE_EMPTY_SEQUENCE and any(u.get('value') == [] for u in e['diff']['updates']):
        return None
    merged = res.merge_lazy_diff(ld)
    got2 = dict(base)

    def kh(k):      # the oracle's hash of a key object of the universe (a foreign key keeps a name of its own)
        kv = R.parse_data(env.t_key, k.to_micheline_value())
        return env.hashes[env.keys.index(kv)] if kv in env.keys else f'foreign key {kv!r}'
    for k in merged.removed_keys:
        got2.pop(kh(k), None)
    for k, v in merged.items:
        got2[kh(k)] = v.to_micheline_value()
    if got2 != want or merged.ptr != res.ptr:
        return 'diff.merged', (f'merge_lazy_diff of the emitted diff gives local entries {merged.items} and removed keys {merged.removed_keys} '
                               f'(id {merged.ptr}); over the on-chain contents that is {sorted((name.get(h, h), repr(v)) for h, v in got2.items())}, '
                               f'reference dictionary {sorted((name[h], repr(v)) for h, v in want.items())}')
    return None


def walk(env, prefix, max_len, syms, observe_all, out, counters):
    """DFS below `prefix` (list of symbols, re-executed first)."""
    bm = env.initial()
    ref = S.Layered(env.chain, env.literal)
    step = 0
    for sym in prefix:
        r = _step(env, bm, ref, sym, step, list(prefix[:step + 1]), observe_all, out, counters)
        if r is None:
            return
        bm, ref = r
        step += 1
    _dfs(env, bm, ref, list(prefix), max_len, syms, observe_all, out, counters)


def _dfs(env, bm, ref, hist, max_len, syms, observe_all, out, counters):
    if len(hist) >= max_len:
        return
    for sym in syms:
        h2 = hist + [sym]
        r = _step(env, bm, ref, sym, len(hist), h2, observe_all, out, counters)
        if r is not None:
            _dfs(env, r[0], r[1], h2, max_len, syms, observe_all, out, counters)


def _report(env, out, clause, detail, hist, bm, ref=None):
    out.append(dict(clause=clause, detail=detail, wclass=f'{clause.split(".")[0]} wrong: {root_cause(bm, env, ref)}',
                    uni=env.uni, cfg=env.cfg, hist=[list(s) for s in hist]))


def _step(env, bm, ref, sym, step, hist, observe_all, out, counters):
    """one history step + the observations after it; returns (bm', ref') or None when a clause failed
    (extensions of a violating history are not explored: the state is already wrong)."""
    op, i = sym
    newval = env.new_val(step)
    counters['nodes'] += 1
    try:
        obs, bm2 = apply_real(env, bm, op, i, newval)
    except Exception as e:
        _report(env, out, f'{op.rstrip("+-")}.raises', f'history {hist}: {type(e).__name__}: {e}', hist, bm)
        return None
    want, ref2 = apply_ref(env, ref, op, i, newval)
    if obs != want:
        _report(env, out, {'GET': 'GET.result', 'MEM': 'MEM.result'}.get(op, 'GET_AND_UPDATE.previous'),
                f'history {hist}: {op} key {env.key_expr[i]} observed {obs}, reference {want}', hist, bm, ref)
        return None
    bm2 = bm2 if bm2 is not None else bm
    if observe_all and op in MUTATORS:
        for j in range(3):
            for o in ('GET', 'MEM'):
                try:
                    got, _ = apply_real(env, bm2, o, j, 0)
                except Exception as e:
                    _report(env, out, f'{o}.raises', f'history {hist} then {o} key {env.key_expr[j]}: {type(e).__name__}: {e}', hist + [(o, j)], bm2)
                    return None
                w, _ = apply_ref(env, ref2, o, j, 0)
                counters['observations'] += 1
                if got != w:
                    _report(env, out, f'{o}.result', f'history {hist} then {o} key {env.key_expr[j]}: observed {got}, reference {w}',
                            hist + [(o, j)], bm2, ref2)
                    return None
    d = None
    if op in MUTATORS:          # observers leave the state (hence the diff) unchanged: checked after mutators only
        try:
            d = check_diff(env, bm2, ref2)
        except Exception as e:
            d = ('diff.raises', f'{type(e).__name__}: {e}')
        counters['diffs'] += 1
    if d is not None:
        _report(env, out, d[0], f'history {hist}: {d[1]}', hist, bm2, ref2)
        return None
    return bm2, ref2


def work(task):
    uni, cfg, prefix, max_len, mut_only, observe_all = task
    env = Env(uni, cfg)
    out = []
    counters = dict(nodes=0, observations=0, diffs=0)
    walk(env, [tuple(s) for s in prefix], max_len, symbols(mut_only), observe_all, out, counters)
    return uni, cfg, counters, out


def replay_history(uni, cfg, hist, observe_all=True):
    env = Env(uni, cfg)
    out = []
    counters = dict(nodes=0, observations=0, diffs=0)
    bm = env.initial()
    ref = S.Layered(env.chain, env.literal)
    for step, sym in enumerate(hist):
        sym = tuple(sym)
        if sym[0] in ('GET', 'MEM') and step == len(hist) - 1 and False:
            pass
        r = _step(env, bm, ref, sym, step, [tuple(s) for s in hist[:step + 1]], observe_all, out, counters)
        if r is None:
            break
        bm, ref = r
    return out
