"""C15 helper — histories of GET / MEM / UPDATE / GET_AND_UPDATE on real big_maps through the real
instruction classes, against the layered-dictionary oracle of specs/C15_bigmap_ref.py.

The on-chain contents are served by a stub RpcNode behind a real ShellQuery (the HTTP layer is the only
stubbed external): GET chains/main/blocks/head/context/big_maps/<ptr>/<script_expr> answers the value
Micheline or raises RpcError (404) — the script_expr in the path is computed by the ORACLE, so a wrong key
hash in pytezos' lookup is observed as a missing key.

Enumeration is a depth-first walk that shares prefixes: BigMapType operations are functional (a new object
per update), so the object reached by a history is reused for all its extensions; the harness never mutates it.
"""
from __future__ import annotations

from specs import michelson_ref as R
from specs import C15_bigmap_ref as S

T_VAL = ('nat',)
UNIVERSES = {
    'string': (('string',), ('a', 'b', 'c')),
    'pair_nat_string': (R.pair_t(('nat',), ('string',)), ((0, 'b'), (1, 'a'), (1, 'b'))),
    'nat': (('nat',), (0, 1, 300)),
    'bytes': (('bytes',), (b'', b'\x00', b'\xff\x01')),
    'or_int_bool': (('or', ('int',), ('bool',)), (('Left', -1), ('Left', 2), ('Right', False))),
    # right combs of 4 and 5 components (the key hash uses the nested, legacy optimized form; PACK would use a sequence)
    'comb4_int': (R.pair_t(('int',), ('int',), ('int',), ('int',)), ((1, (1, (1, 1))), (1, (1, (1, 2))), (2, (0, (0, -1))))),
    'comb5_mixed': (R.pair_t(('string',), ('nat',), ('int',), ('bytes',), ('bool',)),
                    (('a', (0, (-1, (b'', False)))), ('a', (0, (-1, (b'\x00', True)))), ('b', (7, (3, (b'\xff', False)))))),
    'or_comb4': (('or', R.pair_t(('nat',), ('nat',), ('nat',), ('nat',)), ('unit',)),
                 (('Left', (0, (0, (0, 1)))), ('Left', (0, (1, (0, 0)))), ('Right', ()))),
    'option_comb4': (('option', R.pair_t(('string',), ('nat',), ('int',), ('bytes',))),
                     (None, ('Some', ('a', (1, (-1, b'')))), ('Some', ('a', (1, (0, b'\x01')))))),
}
OPS = ('GET', 'MEM', 'UPD+', 'UPD-', 'GAU+', 'GAU-')
MUTATORS = ('UPD+', 'UPD-', 'GAU+', 'GAU-')
PTR = 42


def symbols(mutators_only=False):
    return [(op, i) for op in (MUTATORS if mutators_only else OPS) for i in range(3)]


def configs():
    """'fresh' (EMPTY_BIG_MAP), the 8 on-chain-backed splits (bit i set = key i is on chain) and the 7 big_maps
    initialised from a non-empty literal (storage literal `{ Elt k v; … }`: local entries, nothing on chain)."""
    return ['fresh'] + [f'chain{m}' for m in range(8)] + [f'lit{m}' for m in range(1, 8)]


class Env:
    """Real pytezos objects for one (universe, config)."""

    def __init__(self, uni, cfg):
        from pytezos.context.impl import ExecutionContext
        from pytezos.michelson.types.base import MichelsonType
        from pytezos.rpc.errors import RpcError
        from pytezos.rpc.node import RpcNode
        from pytezos.rpc.shell import ShellQuery
        import pytezos.rpc.query as q
        q.format_docstring = lambda *a, **k: ''          # help-text rendering of query objects (cost only)
        self.uni, self.cfg = uni, cfg
        self.t_key, self.keys = UNIVERSES[uni]
        self.key_expr = [S.legacy_optimized(self.t_key, k) for k in self.keys]
        self.hashes = [S.key_hash(self.t_key, k) for k in self.keys]
        self.type_expr = {'prim': 'big_map', 'args': [R.thaw(R.type_to_micheline(self.t_key)) if False else _type_expr(self.t_key),
                                                      {'prim': 'nat'}]}
        self.fresh = not cfg.startswith('chain')          # no on-chain big_map: the diff allocates
        mask = int(cfg[5:]) if cfg.startswith('chain') else 0
        self.lit_mask = int(cfg[3:]) if cfg.startswith('lit') else 0
        self.literal = {k: 100 + i for i, k in enumerate(self.keys) if self.lit_mask >> i & 1}
        self.chain = {k: 100 + i for i, k in enumerate(self.keys) if mask >> i & 1}
        self.chain_by_hash = {self.hashes[i]: (self.key_expr[i], {'int': str(100 + i)})
                              for i in range(3) if mask >> i & 1}
        env = self
        self.lookups = []

        class Node(RpcNode):
            def __init__(self):
                super().__init__('http://simulated.invalid')

            def request(self, method, path, **kw):
                raise AssertionError(f'unexpected raw request {method} {path}')

            def get(self, path, params=None, timeout=None):
                p = path.strip('/')
                pre = f'chains/main/blocks/head/context/big_maps/{PTR}/'
                if p.startswith(pre):
                    h = p[len(pre):]
                    env.lookups.append(h)
                    if h in env.chain_by_hash:
                        return env.chain_by_hash[h][1]
                    raise RpcError(f'Not found: {path}')
                raise AssertionError(f'stub node: unmodelled GET {path}')

        self.ctx = ExecutionContext(shell=None if self.fresh else ShellQuery(Node()))
        self.bm_cls = MichelsonType.match(self.type_expr)
        self.K, self.V = self.bm_cls.args
        self.key_objs = [self.K.from_micheline_value(e) for e in self.key_expr]
        self.sentinel = self.val(7777)

    def initial(self):
        from pytezos.michelson.instructions.base import MichelsonInstruction
        from pytezos.michelson.stack import MichelsonStack
        if self.lit_mask:
            bm = self.bm_cls.from_micheline_value([{'prim': 'Elt', 'args': [self.key_expr[i], {'int': str(100 + i)}]}
                                                   for i in range(3) if self.lit_mask >> i & 1])
            bm.attach_context(self.ctx)
            return bm
        if self.fresh:
            st = MichelsonStack()
            ins = MichelsonInstruction.match({'prim': 'EMPTY_BIG_MAP', 'args': self.type_expr['args']})
            ins.execute(st, [], self.ctx)
            return st.items[0]
        bm = self.bm_cls.from_micheline_value({'int': str(PTR)})
        bm.attach_context(self.ctx)
        return bm

    def val(self, n):
        return self.V.from_micheline_value({'int': str(n)})


def _type_expr(t):
    if len(t) == 1:
        return {'prim': t[0]}
    return {'prim': t[0], 'args': [_type_expr(a) for a in t[1:]]}


_SENTINEL = None


def _stack(env, items):
    """fresh stack with a sentinel at the bottom (must stay untouched); items pushed so that items[0] ends on top"""
    from pytezos.michelson.stack import MichelsonStack
    st = MichelsonStack()
    st.push(env.sentinel)
    for x in reversed(items):
        st.push(x)
    return st


def _opt_expr(v):
    return {'prim': 'None'} if v is None else {'prim': 'Some', 'args': [{'int': str(v)}]}


def apply_real(env, bm, op, i, newval):
    """Executes the real instruction; returns (observed Micheline | None, new big_map | None)."""
    from pytezos.michelson.instructions.struct import (GetAndUpdateInstruction, GetInstruction, MemInstruction,
                                                       UpdateInstruction)
    from pytezos.michelson.types import OptionType
    key = env.key_objs[i]
    if op == 'GET':
        st = _stack(env, [key, bm])
        GetInstruction.execute(st, [], env.ctx)
        assert len(st.items) == 2 and st.items[1] is env.sentinel, 'GET: stack shape'
        return st.items[0].to_micheline_value(), None
    if op == 'MEM':
        st = _stack(env, [key, bm])
        MemInstruction.execute(st, [], env.ctx)
        assert len(st.items) == 2, 'MEM: stack shape'
        return st.items[0].to_micheline_value(), None
    ov = OptionType.from_some(env.val(newval)) if op.endswith('+') else OptionType.none(env.V)
    st = _stack(env, [key, ov, bm])
    if op.startswith('UPD'):
        UpdateInstruction.execute(st, [], env.ctx)
        assert len(st.items) == 2, 'UPDATE: stack shape'
        return None, st.items[0]
    GetAndUpdateInstruction.execute(st, [], env.ctx)
    assert len(st.items) == 3, 'GET_AND_UPDATE: stack shape'
    return st.items[0].to_micheline_value(), st.items[1]


def apply_ref(ref, keys, op, i, newval):
    k = keys[i]
    if op == 'GET':
        return _opt_expr(ref.get(k)), ref
    if op == 'MEM':
        return {'prim': 'True' if ref.mem(k) else 'False'}, ref
    prev, ref2 = ref.update(k, newval if op.endswith('+') else None)
    return (_opt_expr(prev) if op.startswith('GAU') else None), ref2


def root_cause(bm, env=None, ref=None):
    """precise, stable description of the state of the real object when an observation is wrong"""
    marks = []
    try:
        if any(v is None for _, v in bm.items):
            marks.append('items holds a (removed key, None) entry')
        ks = [k for k, _ in bm.items]
        if len(set(map(repr, ks))) != len(ks):
            marks.append('items holds a key twice')
        if any(k in ks for k in bm.removed_keys):
            marks.append('a key is both in items and in removed_keys')
        if not marks and env is not None and ref is not None:
            local = [k.to_micheline_value() for k in ks]
            for i, k in enumerate(env.keys):
                if ref.overlay.get(k) is not None and env.key_expr[i] not in local:
                    marks.append('a locally written key is missing from items (write to a key that exists only on chain is lost)'
                                 if k in env.chain else 'a locally written key is missing from items')
                    break
    except Exception as e:      # representation changed: no marks
        marks.append(f'state not inspectable ({type(e).__name__})')
    return '; '.join(marks) or 'local state looks well-formed'


def check_diff(env, bm, ref):
    """Lazy diff of the real big_map, applied to the on-chain contents, must equal the reference dictionary."""
    ld = []
    res = bm.aggregate_lazy_diff(ld)
    if len(ld) != 1 or ld[0].get('kind') != 'big_map':
        return 'diff.shape', f'expected one big_map entry, got {ld}'
    e = ld[0]
    want_action = 'alloc' if env.fresh else 'update'
    if e['diff'].get('action') != want_action:
        return 'diff.action', f'action {e["diff"].get("action")} expected {want_action}'
    if not env.fresh and e['id'] != str(PTR):
        return 'diff.id', f'id {e["id"]} expected {PTR}'
    if env.fresh and (e['diff'].get('key_type') != env.type_expr['args'][0] or e['diff'].get('value_type') != {'prim': 'nat'}):
        return 'diff.types', f'alloc types {e["diff"].get("key_type")} / {e["diff"].get("value_type")}'
    got = {} if e['diff']['action'] != 'update' else {h: v[1] for h, v in env.chain_by_hash.items()}
    for u in e['diff']['updates']:
        try:
            kv = R.parse_data(env.t_key, u.get('key'))          # notation-independent (comb / nested / sequence)
        except Exception:
            kv = None
        if kv not in env.keys:
            return 'diff.key', f'update for unknown key {u.get("key")}'
        want = env.hashes[env.keys.index(kv)]
        if u.get('key_hash') != want:
            return 'diff.key_hash', f'key {u["key"]}: key_hash {u.get("key_hash")} expected {want} (hash of the nested, legacy optimized form)'
        if u.get('value') is not None:
            got[u['key_hash']] = u['value']
        else:
            got.pop(u['key_hash'], None)
    final = ref.final()
    want = {env.hashes[env.keys.index(k)]: {'int': str(v)} for k, v in final.items()}
    if got != want:
        name = {h: repr(env.key_expr[i]) for i, h in enumerate(env.hashes)}
        return 'diff.applied', (f'diff applied to the on-chain contents gives {sorted((name[h], v["int"]) for h, v in got.items())}, '
                                f'reference dictionary {sorted((name[h], v["int"]) for h, v in want.items())}; '
                                f'updates {[(u["key"], u.get("value")) for u in e["diff"]["updates"]]}')
    return None


def walk(env, prefix, max_len, syms, observe_all, out, counters):
    """DFS below `prefix` (list of symbols, re-executed first)."""
    bm = env.initial()
    ref = S.Layered(env.chain, env.literal)
    step = 0
    for sym in prefix:
        r = _step(env, bm, ref, sym, step, list(prefix[:step + 1]), observe_all, out, counters)
        if r is None:
            return
        bm, ref = r
        step += 1
    _dfs(env, bm, ref, list(prefix), max_len, syms, observe_all, out, counters)


def _dfs(env, bm, ref, hist, max_len, syms, observe_all, out, counters):
    if len(hist) >= max_len:
        return
    for sym in syms:
        h2 = hist + [sym]
        r = _step(env, bm, ref, sym, len(hist), h2, observe_all, out, counters)
        if r is not None:
            _dfs(env, r[0], r[1], h2, max_len, syms, observe_all, out, counters)


def _report(env, out, clause, detail, hist, bm, ref=None):
    out.append(dict(clause=clause, detail=detail, wclass=f'{clause.split(".")[0]} wrong: {root_cause(bm, env, ref)}',
                    uni=env.uni, cfg=env.cfg, hist=[list(s) for s in hist]))


def _step(env, bm, ref, sym, step, hist, observe_all, out, counters):
    """one history step + the observations after it; returns (bm', ref') or None when a clause failed
    (extensions of a violating history are not explored: the state is already wrong)."""
    op, i = sym
    newval = 10 + step
    counters['nodes'] += 1
    try:
        obs, bm2 = apply_real(env, bm, op, i, newval)
    except Exception as e:
        _report(env, out, f'{op.rstrip("+-")}.raises', f'history {hist}: {type(e).__name__}: {e}', hist, bm)
        return None
    want, ref2 = apply_ref(ref, env.keys, op, i, newval)
    if obs != want:
        _report(env, out, {'GET': 'GET.result', 'MEM': 'MEM.result'}.get(op, 'GET_AND_UPDATE.previous'),
                f'history {hist}: {op} key {env.key_expr[i]} observed {obs}, reference {want}', hist, bm, ref)
        return None
    bm2 = bm2 if bm2 is not None else bm
    if observe_all and op in MUTATORS:
        for j in range(3):
            for o in ('GET', 'MEM'):
                try:
                    got, _ = apply_real(env, bm2, o, j, 0)
                except Exception as e:
                    _report(env, out, f'{o}.raises', f'history {hist} then {o} key {env.key_expr[j]}: {type(e).__name__}: {e}', hist + [(o, j)], bm2)
                    return None
                w, _ = apply_ref(ref2, env.keys, o, j, 0)
                counters['observations'] += 1
                if got != w:
                    _report(env, out, f'{o}.result', f'history {hist} then {o} key {env.key_expr[j]}: observed {got}, reference {w}',
                            hist + [(o, j)], bm2, ref2)
                    return None
    d = None
    if op in MUTATORS:          # observers leave the state (hence the diff) unchanged: checked after mutators only
        try:
            d = check_diff(env, bm2, ref2)
        except Exception as e:
            d = ('diff.raises', f'{type(e).__name__}: {e}')
        counters['diffs'] += 1
    if d is not None:
        _report(env, out, d[0], f'history {hist}: {d[1]}', hist, bm2, ref2)
        return None
    return bm2, ref2


def work(task):
    uni, cfg, prefix, max_len, mut_only, observe_all = task
    env = Env(uni, cfg)
    out = []
    counters = dict(nodes=0, observations=0, diffs=0)
    walk(env, [tuple(s) for s in prefix], max_len, symbols(mut_only), observe_all, out, counters)
    return uni, cfg, counters, out


def replay_history(uni, cfg, hist, observe_all=True):
    env = Env(uni, cfg)
    out = []
    counters = dict(nodes=0, observations=0, diffs=0)
    bm = env.initial()
    ref = S.Layered(env.chain, env.literal)
    for step, sym in enumerate(hist):
        sym = tuple(sym)
        if sym[0] in ('GET', 'MEM') and step == len(hist) - 1 and False:
            pass
        r = _step(env, bm, ref, sym, step, [tuple(s) for s in hist[:step + 1]], observe_all, out, counters)
        if r is None:
            break
        bm, ref = r
    return out
