"""C33 — enumeration of Micheline templates (scripts / registered values with symbolic references),
registries (acyclic reference graphs) and their instantiation with real script-expression hashes.

A *template* is Micheline JSON where some leaves are symbolic:
    {"$ref": j}       -> {"prim": "constant", "args": [{"string": hash of registered constant j}]}
    {"$unknown": k}   -> {"prim": "constant", "args": [{"string": a well-formed expr hash that is not registered}]}
    {"$hashstr": j}   -> {"string": hash of constant j}    (a string literal that spells a hash, NOT a reference)
    {"$opaque": k}    -> an opaque Python object (leaf the expansion must pass through untouched)
A registry template is a list of value templates; value i may only reference constants j < i (acyclic).
"""
from __future__ import annotations
import itertools


class Opaque:
    """Opaque leaf: neither dict nor list nor str; compared by identity tag."""
    __slots__ = ('k',)

    def __init__(self, k):
        self.k = k

    def __eq__(self, other):
        return isinstance(other, Opaque) and other.k == self.k

    def __hash__(self):
        return hash(('Opaque', self.k))

    def __repr__(self):
        return f'<opaque {self.k}>'


def compositions(n, k):
    """Ordered k-tuples of positive ints summing to n."""
    if k == 1:
        if n >= 1:
            yield (n,)
        return
    for first in range(1, n - k + 2):
        for rest in compositions(n - first, k - 1):
            yield (first,) + rest


def trees(n, internals, leaves, max_children=3, _memo=None):
    """All templates with exactly n nodes.  internals: list of ('seq',) or ('prim', name, annots|None);
    leaves: list of ready leaf templates.  A node with children is built from an internal label."""
    if _memo is None:
        _memo = {}
    if n in _memo:
        return _memo[n]
    out = []
    if n == 1:
        out = list(leaves)
    else:
        for k in range(1, min(max_children, n - 1) + 1):
            for comp in compositions(n - 1, k):
                child_sets = [trees(c, internals, leaves, max_children, _memo) for c in comp]
                for children in itertools.product(*child_sets):
                    for lab in internals:
                        if lab[0] == 'seq':
                            out.append(list(children))
                        else:
                            node = {'prim': lab[1], 'args': list(children)}
                            if lab[2]:
                                node['annots'] = list(lab[2])
                            out.append(node)
    _memo[n] = out
    return out


def unknown_hash(k):
    """A syntactically valid expr hash of something that is never registered in the scope."""
    from specs.global_constants import script_expr_hash
    return script_expr_hash({'string': f'C33 never registered #{k}'})


def instantiate(tpl, hashes):
    """Template -> Micheline, given the hashes of the registered constants (by index)."""
    if isinstance(tpl, list):
        return [instantiate(x, hashes) for x in tpl]
    if isinstance(tpl, dict):
        if '$ref' in tpl:
            return {'prim': 'constant', 'args': [{'string': hashes[tpl['$ref']]}]}
        if '$unknown' in tpl:
            return {'prim': 'constant', 'args': [{'string': unknown_hash(tpl['$unknown'])}]}
        if '$hashstr' in tpl:
            return {'string': hashes[tpl['$hashstr']]}
        if '$opaque' in tpl:
            return Opaque(tpl['$opaque'])
        return {k: (instantiate(v, hashes) if k == 'args' else (list(v) if isinstance(v, list) else v))
                for k, v in tpl.items()}
    return tpl


def build_registry(reg_tpl):
    """-> (values[list of Micheline], hashes[list of str]) computed bottom-up with the ORACLE hash."""
    from specs.global_constants import script_expr_hash
    values, hashes = [], []
    for t in reg_tpl:
        v = instantiate(t, hashes)
        values.append(v)
        hashes.append(script_expr_hash(v))
    return values, hashes


def tpl_refs(t):
    if isinstance(t, list):
        for x in t:
            yield from tpl_refs(x)
    elif isinstance(t, dict):
        if '$ref' in t:
            yield t['$ref']
        else:
            for a in t.get('args') or []:
                yield from tpl_refs(a)


def depth_of(reg_tpl):
    """Reference depth of each constant (0 = no references)."""
    d = []
    for t in reg_tpl:
        rs = list(tpl_refs(t))
        d.append(1 + max(d[j] for j in rs) if rs else 0)
    return d


# ---------------------------------------------------------------------------------------------
def value_templates(lower, rich):
    """Value templates for a constant that may reference the constants in `lower` (indices)."""
    base = [{'int': '7'}, {'prim': 'unit'}, [{'prim': 'DROP'}],
            {'prim': 'pair', 'args': [{'prim': 'int'}, {'prim': 'nat'}], 'annots': ['%f']},
            []]                                     # the empty sequence `{}`: the only falsy Micheline expression
    if rich:
        base += [{'string': 'txt'}, {'prim': 'Pair', 'args': [{'int': '1'}, {'bytes': '00'}]}]
    out = list(base)
    refs = [{'$ref': j} for j in lower]
    for r in refs:
        out.append(r)                                                       # alias: the value IS a reference
        out.append({'prim': 'option', 'args': [r], 'annots': ['%o']})       # one argument
        out.append([r, {'prim': 'DROP'}])                                   # inside a sequence
        out.append({'prim': 'PUSH', 'args': [{'prim': 'int'}, r]})          # data position
    for r1, r2 in itertools.product(refs + [{'prim': 'int'}], repeat=2):
        if r1 in refs or r2 in refs:
            out.append({'prim': 'pair', 'args': [r1, r2]})
    if rich and lower:
        out.append({'prim': 'pair', 'args': [{'$unknown': 0}, {'$ref': lower[0]}]})   # poisoned value
        out.append({'prim': 'LAMBDA', 'args': [{'prim': 'int'}, {'$ref': lower[-1]}, [[{'$ref': lower[0]}]]]})
    return out


def registries(n_consts, rich):
    """All registries of exactly n_consts constants, constant i drawn from value_templates(range(i))."""
    sets = [value_templates(list(range(i)), rich) for i in range(n_consts)]
    for combo in itertools.product(*sets):
        # distinct values only (equal values have equal hashes = one constant)
        if len({repr(c) for c in combo}) == len(combo):
            yield list(combo)


REPRESENTATIVE_REGISTRIES = [
    # chain of depth 3: c3 -> c2 -> c1 -> c0
    [{'prim': 'int'}, {'prim': 'option', 'args': [{'$ref': 0}]}, {'prim': 'pair', 'args': [{'$ref': 1}, {'prim': 'nat'}]},
     {'prim': 'list', 'args': [{'$ref': 2}], 'annots': [':l']}],
    # diamond: c2 -> {c0, c1}, c1 -> c0; c3 is an alias of c2
    [{'int': '7'}, [{'$ref': 0}, {'prim': 'DROP'}], {'prim': 'Pair', 'args': [{'$ref': 1}, {'$ref': 0}]}, {'$ref': 2}],
    # independent constants of the three sorts + a sequence of instructions
    [{'prim': 'unit'}, {'string': 'data'}, {'prim': 'SWAP', 'annots': ['@s']}, [{'prim': 'CDR'}, {'prim': 'NIL', 'args': [{'prim': 'operation'}]}, {'prim': 'PAIR'}]],
    # the empty sequence as a constant, referenced directly, through an alias and inside another constant
    [[], {'$ref': 0}, {'prim': 'PUSH', 'args': [{'prim': 'list', 'args': [{'prim': 'int'}]}, {'$ref': 0}]}, [{'$ref': 1}, {'prim': 'DROP'}]],
    # alias chain c2 = c1 = c0 and a poisoned constant c3 (references an unregistered hash)
    [{'prim': 'nat'}, {'$ref': 0}, {'$ref': 1}, {'prim': 'pair', 'args': [{'$unknown': 1}, {'$ref': 0}]}],
]


def script_internals():
    return [('seq',), ('prim', 'pair', None), ('prim', 'PUSH', ['@v', '%f'])]


def script_leaves(n_consts, with_opaque=True):
    lv = [{'prim': 'int'}, {'int': '1'}, {'$hashstr': 0}]
    lv += [{'$ref': j} for j in range(n_consts)]
    lv += [{'$unknown': 0}]
    if with_opaque:
        lv += [{'$opaque': 0}]
    return lv


def scripts_upto(size, n_consts, with_opaque=True):
    memo = {}
    internals = script_internals()
    leaves = script_leaves(n_consts, with_opaque)
    for n in range(1, size + 1):
        for t in trees(n, internals, leaves, 3, memo):
            yield n, t


# ---------------------------------------------------------------------------------------------
# well-formed scripts for the ContractInterface / ExecutionContext getter layer.
# Registry used there (index: value):
IFACE_REGISTRY = [
    {'prim': 'unit'},                                                        # 0 type
    {'prim': 'int'},                                                         # 1 type
    {'int': '5'},                                                            # 2 data
    {'prim': 'CDR'},                                                         # 3 instruction
    [{'prim': 'CDR'}, {'prim': 'NIL', 'args': [{'prim': 'operation'}]}, {'prim': 'PAIR'}],   # 4 code body
    {'prim': 'pair', 'args': [{'$ref': 1}, {'$ref': 0}]},                    # 5 type through constants (depth 1)
    {'prim': 'option', 'args': [{'$ref': 5}]},                               # 6 depth 2
    {'prim': 'PUSH', 'args': [{'$ref': 1}, {'$ref': 2}]},                    # 7 instruction with type+data refs
]


def iface_scripts(unknown=False):
    """(label, script template, storage value template) — after expansion every script is well-formed."""
    U = {'$unknown': 0}
    params = [('p-plain', {'prim': 'unit'}), ('p-ref', {'$ref': 0}), ('p-deep', {'$ref': 6}),
              ('p-ann', {'prim': 'or', 'args': [{'prim': 'unit', 'annots': ['%a']}, {'$ref': 1}]})]
    storages = [('s-plain', {'prim': 'int'}, {'int': '3'}), ('s-ref', {'$ref': 1}, {'int': '3'}),
                ('s-nested', {'prim': 'pair', 'args': [{'$ref': 1}, {'$ref': 0}]},
                 {'prim': 'Pair', 'args': [{'$ref': 2}, {'prim': 'Unit'}]})]
    tail = [{'prim': 'NIL', 'args': [{'prim': 'operation'}]}, {'prim': 'PAIR'}]
    codes = [('c-plain', [{'prim': 'CDR'}] + tail),
             ('c-instr-ref', [{'$ref': 3}] + tail),
             ('c-body-ref', {'$ref': 4}),
             ('c-data-ref', [{'prim': 'CDR'}, {'prim': 'PUSH', 'args': [{'prim': 'int'}, {'$ref': 2}]}, {'prim': 'DROP'}] + tail),
             ('c-type-ref', [{'prim': 'CDR'}, {'prim': 'PUSH', 'args': [{'$ref': 1}, {'int': '1'}]}, {'prim': 'DROP'}] + tail),
             ('c-nested', [{'prim': 'CDR'}, {'prim': 'DIP', 'args': [[{'$ref': 7}, {'prim': 'DROP'}]]}] + tail),
             ('c-lambda', [{'prim': 'CDR'}, {'prim': 'LAMBDA', 'args': [{'$ref': 1}, {'prim': 'int'}, [{'$ref': 7}, {'prim': 'ADD'}]]}, {'prim': 'DROP'}] + tail)]
    views = [('v-none', []),
             ('v-ref', [{'prim': 'view', 'args': [{'string': 'v1'}, {'$ref': 0}, {'$ref': 1},
                                                  [{'prim': 'DROP'}, {'$ref': 7}]]}])]
    for (pl, p), (sl, s, sv), (cl, c), (vl, v) in itertools.product(params, storages, codes, views):
        script = [{'prim': 'parameter', 'args': [p]}, {'prim': 'storage', 'args': [s]}, {'prim': 'code', 'args': [c]}] + v
        yield f'{pl} {sl} {cl} {vl}', script, sv
    if unknown:
        for where in ('parameter', 'storage', 'code', 'view'):
            p = U if where == 'parameter' else {'prim': 'unit'}
            s = U if where == 'storage' else {'prim': 'int'}
            c = [{'prim': 'CDR'}, {'prim': 'PUSH', 'args': [{'prim': 'int'}, U if where == 'code' else {'int': '1'}]},
                 {'prim': 'DROP'}] + tail
            v = [{'prim': 'view', 'args': [{'string': 'v1'}, {'prim': 'unit'}, U if where == 'view' else {'prim': 'int'},
                                           [{'prim': 'DROP'}, {'prim': 'PUSH', 'args': [{'prim': 'int'}, {'int': '1'}]}]]}]
            script = [{'prim': 'parameter', 'args': [p]}, {'prim': 'storage', 'args': [s]}, {'prim': 'code', 'args': [c]}] + v
            yield f'unknown-in-{where}', script, {'int': '3'}
