"""C16 — arithmetic / bitwise / conversion instructions on the real interpreter against specs/arith.py.

A case is {'prim': 'EDIV', 'ops': [[type, value], ...]} (top of stack first; bytes values as hex strings
prefixed '0x').  `eval_case` pushes the operands with PUSH, runs the instruction the way
pytezos.michelson.repl.Interpreter.execute does (see `execute`) and compares outcome, result type and result value with the reference.
"""
from specs import arith as A

O_VALUE = '{}::ensures.result_value_and_type'
O_FAIL = '{}::raises.exactly_on_overflow_or_shift_above_256'
O_NONE = '{}::ensures.None_exactly_where_Michelson_says'
O_SUPPORT = '{}::requires.operand_types_of_the_reference_accepted'
O_ROUNDTRIP = '{}::ensures.number_bytes_number_roundtrip'
O_REJECT = '{}::raises.on_operand_types_outside_the_reference_table'

# Contexts of the operands (widening: the operands used to be always two fresh PUSHes on an otherwise empty stack):
#   below  a sentinel string lies under the operands and must stay there, alone and unchanged
#   dup    `PUSH a ; DUP ; OP`: both operands are copies of one value
#   annot  the first operand is taken out of a pair component with %field and :type annotations (its run-time class keeps
#          them), the second out of the plain component: `PUSH (pair (ta %fld :ty) tb) (Pair a b) ; UNPAIR ; OP`
CONTEXTS = ('below', 'dup', 'annot')
SENTINEL = 'below'

def mlit(t, v):
    if t == 'bytes':
        return {'bytes': v.hex()}
    if t == 'string':
        return {'string': v}
    if t == 'bool':
        return {'prim': 'True' if v else 'False'}
    return {'int': str(v)}


def execute(instrs, text=None):
    """what pytezos.michelson.repl.Interpreter.execute does on a fresh stack; the instruction sequence is given as
    Micheline (the text parser rebuilds its LALR tables on every call and is property C18's subject); with `text` the
    code goes through the real Interpreter.execute.  -> (error | None, stack items)"""
    from pytezos.context.impl import ExecutionContext
    from pytezos.michelson.micheline import MichelsonRuntimeError
    from pytezos.michelson.sections import CodeSection
    from pytezos.michelson.stack import MichelsonStack
    if text is not None:
        from pytezos.michelson.repl import Interpreter
        r = Interpreter().execute(text)
        return r.error, (list(r.stack.items) if r.error is None else [])
    stack, stdout = MichelsonStack(), []
    try:
        CodeSection.match(instrs).args[0].execute(stack, stdout, ExecutionContext())
    except MichelsonRuntimeError as e:
        return e, []
    return None, list(stack.items)


def lit(t, v):
    if t == 'bytes':
        return '0x' + v.hex()
    if t == 'string':
        return f'"{v}"'
    if t == 'bool':
        return 'True' if v else 'False'
    return str(v)


def dec(t, v):
    """case value -> python"""
    if t == 'bytes':
        return bytes.fromhex(v[2:]) if isinstance(v, str) else bytes(v)
    return v


def enc(t, v):
    return '0x' + v.hex() if t == 'bytes' else v


def ty_of(expr):
    p = expr['prim']
    args = expr.get('args') or []
    if p == 'option':
        return ('option', ty_of(args[0]))
    if p == 'pair':
        assert len(args) == 2
        return ('pair', ty_of(args[0]), ty_of(args[1]))
    return p


def val_of(ty, m):
    if isinstance(ty, tuple) and ty[0] == 'option':
        if m.get('prim') == 'None':
            return None
        assert m.get('prim') == 'Some'
        return ('Some', val_of(ty[1], m['args'][0]))
    if isinstance(ty, tuple) and ty[0] == 'pair':
        assert m.get('prim') == 'Pair' and len(m['args']) == 2
        return (val_of(ty[1], m['args'][0]), val_of(ty[2], m['args'][1]))
    if ty == 'bytes':
        return bytes.fromhex(m['bytes'])
    if ty == 'bool':
        return {'True': True, 'False': False}[m['prim']]
    return int(m['int'])


def _push(t, v):
    return {'prim': 'PUSH', 'args': [{'prim': t}, mlit(t, v)]}


def program(prim, ops, ctx=None):
    """-> (Micheline instruction list, text)"""
    if ctx == 'annot':
        ta, a = ops[0]
        tb, b = ops[1] if len(ops) > 1 else ('unit', None)
        ty = {'prim': 'pair', 'args': [{'prim': ta, 'annots': ['%fld', ':ty']}, {'prim': tb}]}
        val = {'prim': 'Pair', 'args': [mlit(ta, a), mlit(tb, b) if len(ops) > 1 else {'prim': 'Unit'}]}
        take = 'UNPAIR' if len(ops) > 1 else 'CAR'
        text = f'PUSH (pair ({ta} %fld :ty) {tb}) (Pair {lit(ta, a)} {lit(tb, b) if len(ops) > 1 else "Unit"}) ; {take} ; {prim}'
        return [{'prim': 'PUSH', 'args': [ty, val]}, {'prim': take}, {'prim': prim}], text
    if ctx == 'dup':
        assert len(ops) == 2 and ops[0] == ops[1]
        return [_push(*ops[0]), {'prim': 'DUP'}, {'prim': prim}], f'PUSH {ops[0][0]} {lit(*ops[0])} ; DUP ; {prim}'
    pre, pretext = [], ''
    if ctx == 'below':
        pre, pretext = [{'prim': 'PUSH', 'args': [{'prim': 'string'}, {'string': SENTINEL}]}], f'PUSH string "{SENTINEL}" ; '
    code = pretext + ' ; '.join(f'PUSH {t} {lit(t, v)}' for t, v in reversed(ops)) + f' ; {prim}'
    return pre + [_push(t, v) for t, v in reversed(ops)] + [{'prim': prim}], code


def run(prim, ops, via_text=False, ctx=None):
    """-> ('ok', ty, val) | ('error', text) ; ops python values, top first"""
    instrs, code = program(prim, ops, ctx)
    err, items = execute(instrs, code if via_text else None)
    if err is not None:
        return ('error', f'{type(err).__name__}{getattr(err, "args", "")!s:.200}'), code
    depth = 2 if ctx == 'below' else 1
    if len(items) != depth:
        return ('ok', 'stack-depth-%d' % len(items), None), code
    if ctx == 'below' and not (type(items[1]).prim == 'string' and str(items[1]) == SENTINEL):
        return ('ok', 'stack-below-the-operands-changed', None), code
    it = items[0]
    ty = ty_of(type(it).as_micheline_expr())
    return ('ok', ty, val_of(ty, it.to_micheline_value(mode='optimized'))), code


def _res(oid, ok, info='', wclass=''):
    return dict(oid=oid, ok=bool(ok), info=info, wclass=wclass)


def tstr(t):
    if isinstance(t, tuple):
        return t[0] + ' (' + ') ('.join(tstr(x) for x in t[1:]) + ')' if t[0] == 'pair' else f'{t[0]} ({tstr(t[1])})'
    return t


def vstr(v):
    if isinstance(v, bytes):
        return '0x' + v.hex()
    if isinstance(v, tuple) and v and v[0] == 'Some':
        return f'Some {vstr(v[1])}'
    if isinstance(v, tuple):
        return '(' + ', '.join(vstr(x) for x in v) + ')'
    return str(v)


def shape(prim, ops, want):
    """stable description of the value region (for witness classes)"""
    ts = tuple(t for t, _ in ops)
    if prim == 'BYTES' and ts == ('int',):
        v = ops[0][1]
        b = A.bytes_of_int(v)
        if v > 0 and len(b) >= 2 and b[0] == 0:
            return 'positive-needs-00-sign-byte'
        return 'negative' if v < 0 else 'other'
    if prim == 'SUB_MUTEZ':
        return 'negative-difference' if ops[0][1] < ops[1][1] else 'nonnegative-difference'
    if want[0] == 'fail':
        return want[1]
    return ''


def eval_illtyped(case):
    """operand types OUTSIDE the reference's dispatch table: the instruction must refuse them (any exception = refusal)"""
    prim = case['prim']
    ops = [(t, dec(t, v)) for t, v in case['ops']]
    ts = ':'.join(t for t, _ in ops)
    assert A.spec(prim, ops) == ('illtyped',), case
    try:
        got, code = run(prim, ops)
    except Exception as e:  # noqa  a refusal that is not a MichelsonRuntimeError is still a refusal
        got, code = ('error', type(e).__name__), program(prim, ops)[1]
    return [_res(O_REJECT.format(prim), got[0] == 'error',
                 f'`{code}` is accepted -> {tstr(got[1]) if got[0] == "ok" and not isinstance(got[1], str) else got[1]}: {vstr(got[2]) if got[0] == "ok" else ""}; '
                 f'the Michelson reference has no {prim} on {ts} (ill-typed)', f'{prim} {ts} ill-typed-accepted')]


def eval_case(case):
    if case.get('ill'):
        return eval_illtyped(case)
    prim = case['prim']
    ops = [(t, dec(t, v)) for t, v in case['ops']]
    ts = ':'.join(t for t, _ in ops)
    want = A.spec(prim, ops)
    assert want[0] != 'illtyped', case
    ctx = case.get('ctx')
    got, code = run(prim, ops, via_text=bool(case.get('text')), ctx=ctx)
    sh = shape(prim, ops, want)
    tag = f'{prim} {ts}' + (f' {sh}' if sh else '') + (f' ctx={ctx}' if ctx else '')
    out = []
    unsupported = got[0] == 'error' and ('unexpected types' in got[1] or ('expected' in got[1] and ', got ' in got[1] and 'natural number' not in got[1]))
    if unsupported:
        return [_res(O_SUPPORT.format(prim), False, f'`{code}` is rejected: {got[1]}; the Michelson reference types {prim} on {ts}',
                     f'{prim} {ts} unsupported-operand-types')]
    out.append(_res(O_SUPPORT.format(prim), True))
    if want[0] == 'fail':
        out.append(_res(O_FAIL.format(prim), got[0] == 'error', f'`{code}` -> {vstr(got[2]) if got[0] == "ok" else got[1]}; the reference fails with {want[1]}', tag + ' no-failure'))
        return out
    _, wty, wval = want
    is_opt = isinstance(wty, tuple) and wty[0] == 'option'
    if got[0] == 'error':
        oid = O_NONE if (is_opt and wval is None) else O_FAIL
        out.append(_res(oid.format(prim), False, f'`{code}` raised {got[1]}; the reference gives {tstr(wty)}: {vstr(wval)}',
                        tag + (' raises-instead-of-None' if (is_opt and wval is None) else ' raises-instead-of-value')))
        return out
    out.append(_res(O_FAIL.format(prim), True))
    _, gty, gval = got
    if is_opt:
        out.append(_res(O_NONE.format(prim), (gval is None) == (wval is None), f'`{code}` -> {vstr(gval)}; the reference gives {vstr(wval)}', tag + ' option-case'))
    ok = gty == wty and gval == wval
    out.append(_res(O_VALUE.format(prim), ok, f'`{code}` -> {tstr(gty) if not isinstance(gty, str) or not gty.startswith("stack") else gty}: {vstr(gval)}; the reference gives {tstr(wty)}: {vstr(wval)}',
                    tag + (' wrong-type' if gty != wty else ' wrong-value')))
    # conversions back: INT(BYTES n) == n, NAT(BYTES n) == n
    if prim == 'BYTES' and got[0] == 'ok' and isinstance(gval, bytes):
        back_prim = 'INT' if ops[0][0] == 'int' else 'NAT'
        back, code2 = run(back_prim, [('bytes', gval)])
        ok2 = back[0] == 'ok' and back[2] == ops[0][1]
        out.append(_res(O_ROUNDTRIP.format(prim), ok2, f'`{code}` -> {vstr(gval)}, then {back_prim} -> {vstr(back[2]) if back[0] == "ok" else back[1]}; expected {ops[0][1]}', tag))
    return out


def eval_chunk(chunk):
    return [(c, eval_case(c)) for c in chunk]


# ------------------------------------------------------------------------------------- enumeration
def int_values(tier):
    ks = range(1, 10)
    vs = {0, 1, 2, 3, 5, 7, 10, 100, 127, 128, 129, 254, 255, 256, 257}
    for k in ks:
        vs |= {2 ** (8 * k) - 1, 2 ** (8 * k), 2 ** (8 * k - 1), 2 ** (8 * k - 1) - 1, 2 ** (8 * k - 1) + 1, 2 ** (8 * k) + 1}
    vs |= {2 ** 62, 2 ** 63 - 2, 2 ** 63 - 1, 2 ** 63, 2 ** 63 + 1, 2 ** 64 - 1, 2 ** 64, 2 ** 255, 2 ** 255 - 1, 2 ** 256 - 1, 2 ** 256, 2 ** 256 + 1, 2 ** 257,
           1193046, 10 ** 18, 3 * 2 ** 100 + 12345}
    pos = sorted(vs)
    return pos, sorted({-v for v in pos} | set(pos))


def pick(vals, n):
    """n values spread over a sorted list, always with both ends"""
    if len(vals) <= n:
        return list(vals)
    idx = sorted({round(i * (len(vals) - 1) / (n - 1)) for i in range(n)})
    return [vals[i] for i in idx]


BYTES_VALUES = [b'', b'\x00', b'\x01', b'\x7f', b'\x80', b'\xff', b'\x00\x80', b'\xff\x7f', b'\x00\x00', b'\x00\xff', b'\xff\xff', b'\x80\x00',
                bytes.fromhex('123456'), bytes.fromhex('0000123456'), bytes.fromhex('ffffff7f00'), bytes.fromhex('ff00000000'), b'\x06', b'\x00\x06',
                b'\xff' * 32, b'\x00' + b'\xff' * 32, b'\x80' + bytes(32), b'\x7f' + b'\xff' * 31, bytes(range(1, 34))]
SHIFTS = [0, 1, 7, 8, 9, 63, 64, 255, 256, 257, 258, 1000, 2 ** 64]


def values_for(t, tier, role='any'):
    thorough = tier == 'thorough'
    pos, allv = int_values(tier)
    if t == 'int':
        essential = [0, 1, -1, 127, 128, -128, -129, 255, 256, -255, -256, 32767, 32768, -32768, -32769, 2 ** 63 - 1, 2 ** 63, -2 ** 63, -2 ** 63 - 1, 2 ** 255, -2 ** 255, 2 ** 256, 2 ** 257, -2 ** 257]
        return sorted(set(allv if thorough else essential + pick(allv, 10)))
    if t == 'nat':
        essential = [0, 1, 2, 127, 128, 255, 256, 32767, 32768, 65535, 65536, 2 ** 63 - 1, 2 ** 63, 2 ** 64, 2 ** 255, 2 ** 256 - 1, 2 ** 256, 2 ** 257]
        return sorted(set(pos if thorough else essential + pick(pos, 8)))
    if t == 'mutez':
        m = [v for v in pos if v < 2 ** 63]
        essential = [0, 1, 2, 255, 256, 2 ** 31, 2 ** 32, 2 ** 62, 2 ** 63 - 2, 2 ** 63 - 1, 10 ** 18]
        return sorted(set(m if thorough else essential + pick(m, 6)))
    if t == 'timestamp':
        return sorted(set([0, 1, -1, 2 ** 31 - 1, 2 ** 31, 2 ** 63 - 1, 2 ** 63, -2 ** 63, 253402300800, -62135596800, 2 ** 255] + (pick(allv, 20) if thorough else [])))
    if t == 'bytes':
        return BYTES_VALUES if thorough else BYTES_VALUES[:19]
    if t == 'bool':
        return [False, True]
    raise KeyError(t)


CTX_VALUES = {
    'int': [0, 1, -1, 127, 128, -128, -129, 255, 256, 2 ** 63, -2 ** 63 - 1],
    'nat': [0, 1, 127, 128, 255, 256, 2 ** 63, 2 ** 64],
    'mutez': [0, 1, 2 ** 62, 2 ** 63 - 1],
    'timestamp': [0, -1, 2 ** 31, 2 ** 63],
    'bytes': [b'', b'\x00', b'\x80', b'\x00\x80', b'\xff\x7f', bytes.fromhex('123456')],
    'bool': [False, True],
}

# Operand-type universe for the "no row beyond the reference table" clause (BLS types: C21).
UNIVERSE = {'int': 5, 'nat': 5, 'mutez': 5, 'timestamp': 5, 'bool': True, 'bytes': b'\x05', 'string': 'x'}

# CANDIDATE_DEFECT (found by the widening on the UNCHANGED tree, reproduced natively, reported to the lead, NOT registered):
# pytezos accepts these operand types although the Michelson reference does not type them -
#   AND nat:int (top nat, second int; only int:nat exists)            PUSH int 5 ; PUSH nat 6 ; AND  -> nat 4
#   BYTES mutez, BYTES timestamp (assert_type_in uses issubclass; MutezType < NatType < IntType, TimestampType < IntType)
#   INT mutez (same reason)
# They stay out of the registered enumeration while RUN_CANDIDATE_DEFECTS is False; every other ill-typed combination is checked.
RUN_CANDIDATE_DEFECTS = False
CANDIDATE_DEFECT = {('AND', ('nat', 'int')), ('BYTES', ('mutez',)), ('BYTES', ('timestamp',)), ('INT', ('mutez',))}


def illtyped_cases():
    import itertools
    out = []
    for prim, combos in A.ALLOWED.items():
        arity = len(combos[0])
        for ts in itertools.product(UNIVERSE, repeat=arity):
            if ts in combos or ((prim, ts) in CANDIDATE_DEFECT and not RUN_CANDIDATE_DEFECTS):
                continue
            assert A.spec(prim, [(t, UNIVERSE[t]) for t in ts]) == ('illtyped',), (prim, ts)
            out.append(dict(prim=prim, ops=[[t, enc(t, UNIVERSE[t])] for t in ts], ill=1))
    return out


def context_cases():
    out = []
    for prim, combos in A.ALLOWED.items():
        for ts in combos:
            if len(ts) == 1:
                for ctx in ('below', 'annot'):
                    for a in CTX_VALUES[ts[0]]:
                        out.append(dict(prim=prim, ops=[[ts[0], enc(ts[0], a)]], ctx=ctx))
                continue
            va = pick(CTX_VALUES[ts[0]], 4)
            vb = [0, 1, 256, 257] if prim in ('LSL', 'LSR') else pick(CTX_VALUES[ts[1]], 4)
            for ctx in ('below', 'annot'):
                for a in va:
                    for b in vb:
                        out.append(dict(prim=prim, ops=[[ts[0], enc(ts[0], a)], [ts[1], enc(ts[1], b)]], ctx=ctx))
            if ts[0] == ts[1]:
                for a in CTX_VALUES[ts[0]]:
                    out.append(dict(prim=prim, ops=[[ts[0], enc(ts[0], a)], [ts[0], enc(ts[0], a)]], ctx='dup'))
    return out


def enumerate_cases(tier, seed=0):
    cases = []
    for prim, ops, _ in A.RECORDED:
        cases.append(dict(prim=prim, ops=[[t, enc(t, v)] for t, v in ops], text=1))
    for prim, combos in A.ALLOWED.items():
        for ts in combos:
            if len(ts) == 1:
                for a in values_for(ts[0], 'thorough'):      # unary: always the full value set
                    cases.append(dict(prim=prim, ops=[[ts[0], enc(ts[0], a)]]))
                continue
            if prim in ('LSL', 'LSR'):
                for a in values_for(ts[0], tier):
                    for s in SHIFTS:
                        cases.append(dict(prim=prim, ops=[[ts[0], enc(ts[0], a)], ['nat', s]]))
                continue
            for a in values_for(ts[0], tier):
                for b in values_for(ts[1], tier):
                    cases.append(dict(prim=prim, ops=[[ts[0], enc(ts[0], a)], [ts[1], enc(ts[1], b)]]))
    cases += context_cases()
    cases += illtyped_cases()
    seen, out = set(), []
    for c in cases:
        k = repr(c)
        if k not in seen:
            seen.add(k)
            out.append(c)
    return [out[i:i + 400] for i in range(0, len(out), 400)]
