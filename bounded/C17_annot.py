"""C17 — re-annotation of the type arguments of a program and of its input stack types, and the relational
evaluation  run(rho(P), rho(x)) ~ run(P, x),  pack(rho(v)) == pack(v)  on the real pytezos interpreter."""
from __future__ import annotations

import copy
import re

from specs import michelson_ref as R
from bounded import C01_engine as E
from bounded import C01_harness as H

TYPE_ARGS = {'PUSH': (0,), 'NIL': (0,), 'NONE': (0,), 'LEFT': (0,), 'RIGHT': (0,), 'EMPTY_SET': (0,), 'EMPTY_MAP': (0, 1),
             'EMPTY_BIG_MAP': (0, 1), 'LAMBDA': (0, 1), 'LAMBDA_REC': (0, 1), 'CAST': (0,)}
KINDS = {'%': lambda i: [f'%f{i}'], ':': lambda i: [f':t{i}'], '%:': lambda i: [f':t{i}', f'%f{i}']}
_ARG = {'pair': ('car', 'cdr'), 'or': ('left', 'right'), 'option': ('some',), 'list': ('elt',), 'set': ('elt',),
        'map': ('key', 'value'), 'lambda': ('arg', 'ret')}


def type_nodes(t, depth=3, path=(), parent=None):
    """[(path, prim, parent prim)] of the nodes of a type expression down to `depth` (root has depth 0)"""
    out = [(path, t['prim'], parent)]
    if depth > 0:
        for i, a in enumerate(t.get('args', [])):
            out += type_nodes(a, depth - 1, path + (i,), t['prim'])
    return out


def path_name(t, path):
    names, cur = [], t
    for i in path:
        n = _ARG.get(cur['prim'], ())
        names.append(n[i] if i < len(n) else str(i))
        cur = cur['args'][i]
    return '.'.join(names) or 'root'


def annotate(t, assign):
    """assign: {path: [annots]} -> annotated copy"""
    t = copy.deepcopy(t)
    for path, annots in assign.items():
        cur = t
        for i in path:
            cur = cur['args'][i]
        cur['annots'] = list(annots)
    return t


def allowed(kind, parent):
    """field annotations only on the components of pair / or (the positions where Michelson gives them a meaning)"""
    return '%' not in kind or parent in ('pair', 'or')


def flatten_combs(t):
    """n-ary notation of right combs: pair a (pair b c) -> pair a b c (same type, other spelling)"""
    t = dict(t)
    if 'args' in t:
        t['args'] = [flatten_combs(a) for a in t['args']]
        if t['prim'] == 'pair' and len(t['args']) == 2 and t['args'][1].get('prim') == 'pair' and not t['args'][1].get('annots'):
            t['args'] = [t['args'][0]] + t['args'][1]['args']
    return t


def type_sites(code, types):
    """all type expressions of a case: ('slot', i) for the input stack, ('code', path) for type arguments in the program"""
    sites = [(('slot', i), t) for i, t in enumerate(types)]

    def walk(n, path):
        if isinstance(n, list):
            for i, x in enumerate(n):
                walk(x, path + (i,))
        elif isinstance(n, dict) and 'prim' in n:
            for i, a in enumerate(n.get('args', [])):
                if i in TYPE_ARGS.get(n['prim'], ()):
                    sites.append((('code', path + ('args', i)), a))
                elif isinstance(a, list):
                    walk(a, path + ('args', i))
    walk(code, ())
    return sites


def _set(code, path, value):
    cur = code
    for p in path[:-1]:
        cur = cur['args'] if p == 'args' else cur[p]
    if path[-1] == 'args':
        raise AssertionError
    cur[path[-1]] = value


def apply(code, types, site_assign):
    """site_assign: {site key: annotated type expr} -> (code', types')"""
    code, types = copy.deepcopy(code), list(types)
    for (kind, where), t in site_assign.items():
        if kind == 'slot':
            types[where] = t
        else:
            _set(code, where, t)
    return code, types


def variants(code, types, depth=3):
    """-> [(pattern name, code', types')]: uniform patterns over all type sites, the n-ary spelling, and every single
    node (down to `depth`) of every site annotated with each of {%a, :t, both}"""
    sites = type_sites(code, types)
    out = []
    for kind, mk in KINDS.items():
        sa, n = {}, 0
        for key, t in sites:
            assign = {}
            for path, prim, parent in type_nodes(t, depth):
                if allowed(kind, parent):
                    assign[path] = mk(n)
                    n += 1
            sa[key] = annotate(t, assign)
        out.append((f'all:{kind}',) + apply(code, types, sa))
    out.append(('n-ary',) + apply(code, types, {key: flatten_combs(t) for key, t in sites}))
    for key, t in sites:
        for path, prim, parent in type_nodes(t, depth):
            for kind, mk in KINDS.items():
                if not allowed(kind, parent):
                    continue
                where = f'{key[0]}{key[1] if key[0] == "slot" else ""}:{path_name(t, path)}({prim})'
                out.append((f'{where}:{kind}',) + apply(code, types, {key: annotate(t, {path: mk(0)})}))
    return out


# ----------------------------------------------------------------------------- relational evaluation

def observe_run(code, types, values, env):
    """real run with PACK bytes of every final slot"""
    E.install_probe()
    saved = E._observe

    def obs(item):
        ty, v = saved(item)
        try:
            pk = item.pack().hex()
        except Exception as e:  # noqa   not packable (lambda with ..., operation): no serialization clause
            pk = None
        return (ty, v, pk)
    E._observe = obs
    try:
        return E.with_timeout(20, E.real_run, code, types, values, env)
    finally:
        E._observe = saved


def relate(base, var):
    """-> list of (clause, message, trait): differences between the baseline outcome and the re-annotated one"""
    if base[0] == 'input-error' or var[0] == 'input-error':
        if base[0] != var[0]:
            return [('ensures.same_outcome', f'input accepted without annotations, with annotations: {var}', 'input')] if var[0] == 'input-error' else []
        return []
    if base[0] != var[0]:
        why = ''
        for o in (base, var):
            if o[0] == 'error' and o[2]:
                why = ':' + re.sub(r'[^A-Za-z ].*', '', str(o[2][-1])).strip()[:60]
        return [('ensures.same_outcome', f'without annotations: {_brief(base)}; re-annotated: {_brief(var)}', f'{base[0]}->{var[0]}{why}')]
    out = []
    if base[0] == 'ok':
        if len(base[1]) != len(var[1]):
            return [('ensures.same_outcome', f'stack depth {len(base[1])} vs {len(var[1])}', 'depth')]
        for i, (b, v) in enumerate(zip(base[1], var[1])):
            tb, tv = E.real_type(b[0]), E.real_type(v[0])
            if tb != tv:
                out.append(('ensures.same_type', f'slot {i}: type {b[0]} vs {v[0]}', 'type'))
                continue
            if tb is None:
                continue
            vb, _ = E.read_real_value(tb, b[1])
            vv, _ = E.read_real_value(tb, v[1])
            if vb is E.BAD or vv is E.BAD or vb != vv:
                out.append(('ensures.same_value', f'slot {i}: value {b[1]} vs {v[1]}', 'value'))
            elif b[2] != v[2]:
                out.append(('ensures.same_pack', f'slot {i} : {E.tstr(tb, 9)} = {b[1]}: PACK 0x{b[2]} without annotations, 0x{v[2]} re-annotated ({v[0]})', 'pack'))
    elif base[0] == 'failwith':
        if R.strip_annots(base[1]) != R.strip_annots(var[1]) or base[2] != var[2]:
            out.append(('ensures.same_failwith', f'FAILWITH {base[2]} vs {var[2]}', 'failwith'))
    return out


def _brief(o):
    if o[0] == 'ok':
        return 'ok ' + str([x[1] for x in o[1]])[:200]
    return str(o)[:240]


def eval_case(case):
    """one (program, input) under all its re-annotations; the baseline must itself agree with the reference outcome kind"""
    code, S, V, env = case['code'], case['S'], case['V'], case['env']
    out = dict(id=case['id'], status='ok', findings=[], variants=0)
    types = [R.type_to_micheline(t) for t in S]
    try:
        vals = [R.data_to_micheline(t, v) for t, v in zip(S, V)]
        ref = R.run(code, S, V, env)
    except R.RefError:
        out['status'] = 'no-oracle'
        return out
    try:
        base = observe_run(code, types, vals, env)
        seen = set()
        for name, c2, t2 in variants(code, types, case.get('depth', 3)):
            out['variants'] += 1
            var = observe_run(c2, t2, vals, env)
            for clause, msg, trait in relate(base, var):
                pat = _pattern(name)
                where = _locate(code, c2, types, t2, vals, env, S, V, clause)
                w = f'{where} | annot {pat} -> {trait}'
                if (clause, w) in seen:
                    continue
                seen.add((clause, w))
                out['findings'].append(dict(prop='C17', oid=f'C17::{clause}', wclass=w,
                                            message=f'{where} with re-annotation {name}: {msg}  [reference outcome: {H._show(ref)}]',
                                            case=dict(code=code, code_annotated=c2, types=types, types_annotated=t2, values=vals, env=env,
                                                      clause=clause, annotation=name), id=case['id']))
    except E.Timeout:
        out['status'] = 'timeout'
    return out


def _pattern(name):
    """abstract the annotation site for the witness class: 'slot0:cdr(pair):%' -> 'cdr(pair):%' ; 'all:%' stays"""
    if name.startswith('slot'):
        return name.split(':', 1)[1]
    return name


def _locate(code, code2, types, types2, vals, env, S, V, clause):
    """shortest prefix of the flattened program on which baseline and re-annotated runs already differ"""
    flat, flat2 = H._flatten(code), H._flatten(code2)
    if len(flat) != len(flat2):
        return 'program'
    for n in range(0, len(flat) + 1):
        try:
            b = observe_run(flat[:n], types, vals, env)
            v = observe_run(flat2[:n], types2, vals, env)
        except E.Timeout:
            raise
        if any(c == clause for c, _, _ in relate(b, v)):
            if n == 0:
                return 'value ' + ' : '.join(E.tstr(t) for t in S)
            try:
                St = R.typecheck(flat[:n - 1], S)
            except R.RefError:
                St = ()
            return E.describe(flat[n - 1], St)
    return 'program'


def _chunk(chunk):
    return [eval_case(c) for c in chunk]


def run_cases(cases, procs=None, chunk=10):
    import multiprocessing as mp
    import os
    procs = procs or min(16, os.cpu_count() or 4)
    chunks = [cases[i:i + chunk] for i in range(0, len(cases), chunk)]
    E.install_probe()
    if procs <= 1 or len(chunks) <= 1:
        return [r for ch in chunks for r in _chunk(ch)]
    with mp.get_context('fork').Pool(procs) as pool:
        out = [r for res in pool.imap_unordered(_chunk, chunks) for r in res]
    out.sort(key=lambda r: r['id'])
    by_id = {c['id']: c for c in cases}
    for i, r in enumerate(out):               # a time-out under machine load is retried once, alone, before it counts
        if r['status'] == 'timeout':
            out[i] = eval_case(by_id[r['id']])
    return out


def replay_case(case):
    env = case.get('env') or {}
    base = observe_run(case['code'], case['types'], case['values'], env)
    var = observe_run(case['code_annotated'], case['types_annotated'], case['values'], env)
    diffs = relate(base, var)
    info = (f"program {case['code']} on {case['values']}\n  types          {case['types']}\n  re-annotated   {case['types_annotated']}"
            f"\n  program'       {case['code_annotated']}\n  without annotations: {_brief(base)}\n  re-annotated:        {_brief(var)}")
    if diffs:
        return True, info + '\n  ' + '; '.join(f'{c}: {m}' for c, m, t in diffs)
    return False, info
