"""Shared helpers of the C07 / C08 / C21 / C23 bounded checks (owner: agent `crypto`).

* deterministic key sets per curve (raw secrets), built without pytezos
* `run_instr`: execute one real Michelson instruction class on a fresh stack
* `pmap`: ordered multiprocessing map (fork), falls back to serial
"""
import hashlib
import multiprocessing as mp
import os

from specs import crypto_b58 as B58
from specs import crypto_sig as SIG

CURVES = ('ed', 'sp', 'p2', 'BL')
SK_KIND = {'ed': 'edsk_seed', 'sp': 'spsk', 'p2': 'p2sk', 'BL': 'BLsk'}

# secret keys recorded from octez-client in /repo/tests/unit_tests/test_crypto/test_crypto.py
RECORDED_SK = {
    'ed': 'edsk3nM41ygNfSxVU4w1uAW3G9EnTQEB5rjojeZedLTGmiGRcierVv',
    'sp': 'spsk1zkqrmst1yg2c4xi3crWcZPqgdc9KtPtb9SAZWYHAdiQzdHy7j',
    'p2': 'p2sk3PM77YMR99AvD3fSSxeLChMdiQ6kkEzqoPuSwQqhPsh29irGLC',
    'BL': 'BLsk1ijYmTDL6hfUvrFCqgwbetg6FTpHLbzPDKLAfP9tB9Cej8dME5',
}


def _h(tag: str) -> bytes:
    return hashlib.sha256(tag.encode()).digest()


def secrets_of(curve: str, n: int, seed: int = 0):
    """Deterministic list of n raw 32-byte secrets: recorded key, boundary scalars, then hash-derived ones."""
    out = [B58.decode(RECORDED_SK[curve])[1]]
    if curve == 'ed':
        out += [bytes(32), b'\xff' * 32]
    else:
        order = SIG.ORDER[curve]
        endian = 'little' if curve == 'BL' else 'big'
        out += [(1).to_bytes(32, endian), (order - 1).to_bytes(32, endian)]
    i = 0
    while len(out) < n:
        h = _h(f'verif-{curve}-{seed}-{i}')
        i += 1
        if curve == 'ed':
            out.append(h)
        else:
            v = int.from_bytes(h, 'big') % SIG.ORDER[curve]
            if v:
                out.append(v.to_bytes(32, 'little' if curve == 'BL' else 'big'))
    return out[:n]


def encoded_sk(curve: str, secret: bytes) -> str:
    return B58.encode(SK_KIND[curve], secret)


def encoded_pk(curve: str, secret: bytes) -> str:
    return B58.encode(curve + 'pk', SIG.public_key(curve, secret))


def run_instr(instr_cls, *items):
    """Run a real instruction class; items[0] is the top of the stack. Returns the resulting stack items."""
    from pytezos.context.impl import ExecutionContext
    from pytezos.michelson.stack import MichelsonStack
    st = MichelsonStack()
    for it in reversed(items):
        st.push(it)
    instr_cls.execute(st, [], ExecutionContext())
    return list(st.items)


def exc_text(e: BaseException) -> str:
    return f'{type(e).__name__}: {str(e)[:160]}'


def pmap(fn, jobs, procs=None):
    """Ordered parallel map over forked workers.  A worker that dies (killed from outside) must not hang the
    check: the broken pool is detected, the jobs without a result are retried once in a fresh pool and then
    serially in this process."""
    from concurrent.futures import ProcessPoolExecutor
    from concurrent.futures.process import BrokenProcessPool
    jobs = list(jobs)
    procs = procs or min(16, os.cpu_count() or 1, max(1, len(jobs)))
    if procs <= 1 or os.environ.get('VERIF_SERIAL'):
        return [fn(j) for j in jobs]
    results = [None] * len(jobs)
    done = [False] * len(jobs)
    for _attempt in range(2):
        todo = [i for i, d in enumerate(done) if not d]
        if not todo:
            break
        try:
            with ProcessPoolExecutor(max_workers=procs, mp_context=mp.get_context('fork')) as ex:
                futs = {i: ex.submit(fn, jobs[i]) for i in todo}
                for i, f in futs.items():
                    try:
                        results[i] = f.result()
                        done[i] = True
                    except BrokenProcessPool:
                        raise
        except BrokenProcessPool:
            continue
    for i, d in enumerate(done):
        if not d:
            results[i] = fn(jobs[i])
    return results
