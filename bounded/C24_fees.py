"""C24 helper — runs the real OperationGroup.fill / autofill on the simulated node (specs/C25_node.py, with a
configurable `run_operation` answer) and evaluates the node's fee rule (specs/C24_fee_rule.py) on the result.

A case = (source key kind, batch of content templates, counter size class, amount size class, node constants,
          mode fill|autofill, explicit arguments, simulated consumptions
          [, prefill: fields the caller set before the call: source / gas_limit / storage_limit]
          [, mode 'a+b': the call b is made on the RESULT of the call a (refill; the second simulation may answer differently)]).
requires: the fee is chosen by the client: no `fee=` argument, and for fill() every fee field is '0' on entry (fill keeps a fee it
          finds; autofill always recomputes it, so a group that was filled/autofilled before qualifies for autofill).
ensures : 1000 * sum(fee) >= 100000 + 1000 * size(signed op) + m * sum(gas_limit),   m = 100 (the node default), or the
          caller's `minimal_nanotez_per_gas_unit` when it is passed to fill (the caller states the node's setting);
          fill / autofill return (no exception) for these well-formed inputs.
"""
from __future__ import annotations

from specs import C24_fee_rule as F
from specs import C25_node as N
from specs import operation_schema as OS

SECRETS = {
    'tz1': 'edsk3nM41ygNfSxVU4w1uAW3G9EnTQEB5rjojeZedLTGmiGRcierVv',
    'tz2': 'spsk1zkqrmst1yg2c4xi3crWcZPqgdc9KtPtb9SAZWYHAdiQzdHy7j',
    'tz3': 'p2sk3PM77YMR99AvD3fSSxeLChMdiQ6kkEzqoPuSwQqhPsh29irGLC',
    'tz4': 'BLsk1ijYmTDL6hfUvrFCqgwbetg6FTpHLbzPDKLAfP9tB9Cej8dME5',
}
KT1 = OS.b58enc('KT1', bytes(range(20)))
SR1 = OS.b58enc('sr1', bytes(range(1, 21)))
SRC1 = OS.b58enc('src1', bytes(32))
BLSIG = OS.b58enc('BLsig', bytes(96))
CODE = [{'prim': 'parameter', 'args': [{'prim': 'unit'}]}, {'prim': 'storage', 'args': [{'prim': 'unit'}]},
        {'prim': 'code', 'args': [[{'prim': 'CDR'}, {'prim': 'NIL', 'args': [{'prim': 'operation'}]}, {'prim': 'PAIR'}]]}]

# LEB128 size classes 1, 2, 3, 5, 10 bytes
SIZE_CLASS = {1: 5, 2: 300, 3: 70000, 5: 2 ** 30, 10: 2 ** 63 + 5}
COUNTER_CLASS = {1: 5, 2: 300, 3: 70000, 5: 2 ** 30, 10: 2 ** 63 + 5}      # head counter (the filled one is +1..)
AMOUNT_CLASS = {1: 5, 2: 300, 3: 70000, 5: 2 ** 30, 9: 2 ** 62}            # mutez amounts are < 2^63 (9 bytes max)

KINDS = ['reveal', 'tx_implicit', 'tx_kt1_params', 'origination', 'delegation', 'register_global_constant',
         'transfer_ticket', 'smart_rollup_add_messages', 'smart_rollup_execute_outbox_message']
CONSTANTS = {
    'default': dict(hard_gas_limit_per_operation='1040000', hard_storage_limit_per_operation='60000'),
    'larger': dict(hard_gas_limit_per_operation='3000000', hard_storage_limit_per_operation='120000'),
    'smaller': dict(hard_gas_limit_per_operation='500000', hard_storage_limit_per_operation='30000'),
}
GAS_GRID = [0, 1, 999, 1000, 1001, 1234567, 1040000000]          # consumed_milligas per content
STORAGE_GRID = [(0, False), (1, False), (257, True), (60000, False)]   # (paid_storage_size_diff, allocated_destination_contract)

_KEYS = {}


def key(kind):
    if kind not in _KEYS:
        from pytezos.crypto.key import Key
        import pytezos.rpc.query as q
        q.format_docstring = lambda *a, **k: ''          # help-text rendering of query objects (cost only)
        _KEYS[kind] = Key.from_encoded_key(SECRETS[kind])
    return _KEYS[kind]


def template(kind, src_kind, amount):
    """content as the ContentMixin builders produce it (fee/counter/limits '0', source '')"""
    base = dict(source='', fee='0', counter='0', gas_limit='0', storage_limit='0')
    if kind == 'reveal':
        c = dict(kind='reveal', **base, public_key='')
        if src_kind == 'tz4':
            c['proof'] = BLSIG
        return c
    if kind == 'tx_implicit':
        return dict(kind='transaction', **base, amount=str(amount), destination=N.OTHER)
    if kind == 'tx_kt1_params':
        return dict(kind='transaction', **base, amount=str(amount), destination=KT1,
                    parameters={'entrypoint': 'transfer', 'value': {'prim': 'Pair', 'args': [{'int': str(amount)}, {'string': 'x' * 40}]}})
    if kind == 'tx_kt1_big':      # same kind (and, under fill, the same gas limit) as the other transactions, but thousands of bytes larger
        return dict(kind='transaction', **base, amount=str(amount), destination=KT1,
                    parameters={'entrypoint': 'store', 'value': {'bytes': 'c3' * 3000}})
    if kind == 'origination':
        return dict(kind='origination', **base, balance=str(amount), script={'code': CODE, 'storage': {'prim': 'Unit'}})
    if kind == 'delegation':
        return dict(kind='delegation', **base, delegate='')
    if kind == 'register_global_constant':
        return dict(kind='register_global_constant', value={'prim': 'Pair', 'args': [{'int': str(amount)}, {'bytes': 'ab' * 30}]}, **base)
    if kind == 'transfer_ticket':
        return dict(kind='transfer_ticket', ticket_contents={'string': 'ticket'}, ticket_ty={'prim': 'string'}, ticket_ticketer=KT1,
                    ticket_amount=str(amount), destination=KT1, entrypoint='default', **base)
    if kind == 'smart_rollup_add_messages':
        return dict(kind='smart_rollup_add_messages', message=['00' * 20, 'ff'], **base)
    if kind == 'smart_rollup_execute_outbox_message':
        return dict(kind='smart_rollup_execute_outbox_message', rollup=SR1, cemented_commitment=SRC1, output_proof='ab' * 64, **base)
    raise ValueError(kind)


# fields set by the caller before fill/autofill (the builders leave them '' / '0'); gas limits larger AND smaller than the defaults
PREFILL = ('source', 'gas', 'gas+storage', 'source+gas')
PRE_GAS = [900000, 12345, 1040000]
PRE_STORAGE = [5000, 1, 60000]
RESIM_EXTRA_MILLIGAS = 50_000_000          # the second simulation of a refilled group consumes 50000 gas more per content


class FeeSimState(N.SimState):
    """simulated node whose run_operation answers with chosen consumptions (per content, rotating through the grids)"""

    def __init__(self, pkh, counter, gas_i, sto_i, constants, gas_list=None, resim=None):
        super().__init__(pkh, counter, noise=False)
        self.gas_i, self.sto_i, self.constants = gas_i, sto_i, constants
        self.gas_list = gas_list            # explicit consumed_milligas per content (cycled); overrides the grid
        self.resim = resim                  # 'higher': every simulation after the first one reports more gas (state changed in between)
        self.simulated = 0

    def run_operation(self, body):
        out = super().run_operation(body)         # strict counter check of the head context
        again = self.simulated > 0 and self.resim == 'higher'
        self.simulated += 1
        for j, c in enumerate(out['contents']):
            mg = self.gas_list[j % len(self.gas_list)] if self.gas_list else GAS_GRID[(self.gas_i + j) % len(GAS_GRID)]
            if again:
                mg += RESIM_EXTRA_MILLIGAS
            psd, alloc = STORAGE_GRID[(self.sto_i + j) % len(STORAGE_GRID)]
            res = {'status': 'applied', 'consumed_milligas': str(mg)}
            if psd:
                res['paid_storage_size_diff'] = str(psd)
            if alloc and c['kind'] == 'transaction':
                res['allocated_destination_contract'] = True
            if c['kind'] == 'origination':
                res['originated_contracts'] = [KT1]
            md = {'balance_updates': [], 'operation_result': res}
            if c['kind'] == 'transaction' and c['destination'].startswith('KT1'):
                md['internal_operation_results'] = [{'kind': 'transaction', 'source': c['destination'], 'nonce': 0, 'amount': '0',
                                                     'destination': N.OTHER, 'result': {'status': 'applied', 'consumed_milligas': str(mg // 2)}}]
            c['metadata'] = md
        return out


def make_client(src_kind, counter, gas_i, sto_i, const_name, gas_list=None, resim=None):
    from pytezos.context.impl import ExecutionContext
    from pytezos.rpc.shell import ShellQuery
    k = key(src_kind)
    st = FeeSimState(k.public_key_hash(), counter, gas_i, sto_i, CONSTANTS[const_name], gas_list, resim)
    node = N.make_node(st, [])
    real_get = node.get

    def get(path, params=None, timeout=None):
        if path.strip('/').endswith('context/constants'):
            return dict(CONSTANTS[const_name], cost_per_byte='250', origination_size=257, minimal_block_delay='8')
        return real_get(path, params=params, timeout=timeout)

    node.get = get
    return ExecutionContext(shell=ShellQuery(node), key=k), st


def run_case(case):
    """case: dict(src, kinds, counter_class, amount_class, const, mode, args, gas_i, sto_i[, prefill][, resim]).  Returns None (holds) or
    dict(clause, detail, wclass, numbers…).  mode 'a+b' = call a, then call b on its result; the rule is evaluated after every call."""
    from pytezos.operation.group import OperationGroup
    src, kinds = case['src'], case['kinds']
    amount = AMOUNT_CLASS[case['amount_class']]
    ctx, st = make_client(src, COUNTER_CLASS[case['counter_class']], case.get('gas_i', 0), case.get('sto_i', 0), case['const'],
                          case.get('gas_list'), case.get('resim'))
    contents = [template(k, src, amount) for k in kinds]
    pre = (case.get('prefill') or '').split('+') if case.get('prefill') else []
    for j, c in enumerate(contents):
        if 'source' in pre:
            c['source'] = st.pkh
        if 'gas' in pre:
            c['gas_limit'] = str(PRE_GAS[j % len(PRE_GAS)])
        if 'storage' in pre:
            c['storage_limit'] = str(PRE_STORAGE[j % len(PRE_STORAGE)])
    g = OperationGroup(context=ctx, contents=contents)
    args = dict(case.get('args') or {})
    res = g
    calls = case['mode'].split('+')
    for ci, mode in enumerate(calls):
        stage = mode if len(calls) == 1 else f'{mode} (call {ci + 1} of {case["mode"]})'
        try:
            res = res.fill(**args) if mode == 'fill' else res.autofill(**{k: v for k, v in args.items() if k != 'minimal_nanotez_per_gas_unit'})
        except Exception as e:
            return dict(clause=f'{mode}::safety.no_exception', detail=f'{stage}: {type(e).__name__}: {e}',
                        wclass=f'{stage} raises {type(e).__name__} ({"+".join(sorted(args)) or "no arguments"})')
        r = _judge(case, res.contents, st, mode, stage, args)
        if r is not None:
            return r
    return None


def _judge(case, out, st, mode, stage, args):
    src, kinds = case['src'], case['kinds']
    extra = ''.join(f', {k} {case[k]}' for k in ('prefill', 'resim') if case.get(k))
    if any(c.get('source') != st.pkh for c in out):
        return dict(clause=f'{mode}::ensures.source_filled', detail=f'sources {[c.get("source") for c in out]}', wclass='source not filled')
    m = args.get('minimal_nanotez_per_gas_unit') if mode == 'fill' else None     # autofill has no such argument: the node default applies
    m_eff = F.NANOTEZ_PER_GAS_UNIT if m is None else m
    need = F.required_nanotez(out, m_eff)
    paid = F.paid_nanotez(out)
    if paid >= need:
        return None
    n = len(out)
    fees = [int(c['fee']) for c in out]
    special = (f' [{case["mode"]}]' if '+' in case['mode'] else '') + (f' [prefilled {case["prefill"]}]' if case.get('prefill') else '')
    if n >= 5:
        short = F.min_fee_mutez(out, m_eff) - sum(fees)
        return dict(clause=f'{mode}::ensures.mempool_minimum',
                    detail=(f'{src} source, batch of {n} ({kinds[0]} … {kinds[-1]}), {stage}({", ".join(f"{k}={v}" for k, v in args.items())}){extra}: '
                            f'total fee {sum(fees)} mutez < minimum {F.min_fee_mutez(out, m_eff)} mutez (size {F.signed_size(out)} bytes, '
                            f'gas limits {sorted(set(int(c["gas_limit"]) for c in out))}, fee fields {sorted(set(fees))})'),
                    wclass=f'{mode}: large batch (>= 5 contents) short by {"1..10" if short <= 10 else "more than 10"} mutez' + special,
                    paid=paid // 1000, need=F.min_fee_mutez(out, m_eff))
    shape = 'single content' if n == 1 else ('batch, fee only on the first content' if all(f == 0 for f in fees[1:]) else 'batch, fees on several contents')
    why = []
    if mode == 'fill' and n > 1 and all(f == 0 for f in fees[1:]):
        # would the first content's fee have been enough for the first content alone?
        alone = F.required_nanotez(out[:1], m_eff)
        why.append('the first content pays a single-content fee, the others pay 0' if 1000 * fees[0] >= alone else 'even the first content is underpaid')
    if mode == 'fill' and 'gas_limit' not in args and any(int(c['gas_limit']) > 1040000 for c in out):
        why.append('a default gas limit taken from the node constants exceeds the built-in 1040000 used for the fee')
    return dict(clause=f'{mode}::ensures.mempool_minimum',
                detail=(f'{src} source, batch {kinds}, {stage}({", ".join(f"{k}={v}" for k, v in args.items())}), node constants {case["const"]}{extra}: '
                        f'fees {fees} = {sum(fees)} mutez < minimum {F.min_fee_mutez(out, m_eff)} mutez '
                        f'(size {F.signed_size(out)} bytes, gas limits {[int(c["gas_limit"]) for c in out]}, {m_eff} nanotez/gas)'),
                wclass=f'{mode}: {shape}' + (': ' + '; '.join(why) if why else '') + (f' [{"+".join(sorted(args))}]' if args else '') + special,
                paid=paid // 1000, need=F.min_fee_mutez(out, m_eff))


def work(cases):
    out = []
    n = 0
    classes = {}
    for case in cases:
        r = run_case(case)
        n += 1
        key_ = repr((case['mode'], case['src'], len(case['kinds']), tuple(sorted(case.get('args') or {})), case['const'],
                     tuple(g % 10000 for g in case['gas_list'][:2]) if case.get('gas_list') else None)
                    + ((case.get('prefill'), case.get('resim')) if case.get('prefill') or case.get('resim') else ()))
        classes[key_] = classes.get(key_, 0) + 1
        if r is not None:
            out.append(dict(r, case=case))
    return n, classes, out
