"""Common runner for every property check: obligation bookkeeping, bounded-evaluation bookkeeping,
violations + replay files, known findings, evidence (schema-validated), exit codes.

Exit codes: 0 held on everything explored / 1 violation (VIOLATION line printed) / 2 undecided /
3 checker crash.  `unknown`, timeouts and tracebacks are never mapped to a violation.
"""
from __future__ import annotations
import hashlib, inspect, json, os, re, sys, time, traceback
from pathlib import Path

ROOT = Path(__file__).resolve().parent.parent
REPO = Path(os.environ.get('VERIF_REPO', '/repo'))
EVIDENCE_SCHEMA = Path('/root/.vp/EVIDENCE.schema.json')


def jsonable(x, depth=0):
    if depth > 12:
        return repr(x)
    if isinstance(x, (str, int, bool)) or x is None:
        return x
    if isinstance(x, float):
        return x
    if isinstance(x, (bytes, bytearray)):
        return {'__bytes__': bytes(x).hex()}
    if isinstance(x, dict):
        return {str(k): jsonable(v, depth + 1) for k, v in x.items()}
    if isinstance(x, (list, tuple, set, frozenset)):
        return [jsonable(v, depth + 1) for v in x]
    return repr(x)


def unjson(x):
    if isinstance(x, dict):
        if set(x) == {'__bytes__'}:
            return bytes.fromhex(x['__bytes__'])
        return {k: unjson(v) for k, v in x.items()}
    if isinstance(x, list):
        return [unjson(v) for v in x]
    return x


class Undecided(Exception):
    pass


class Check:
    def __init__(self, pid: str, tier: str = 'quick', seed: int = 0):
        self.pid = pid
        self.tier = tier
        self.seed = seed
        self.t0 = time.time()
        self.obligations = []          # dicts: id, kind(P|S), status, backend, time_s, detail
        self.functions = {}            # qualname -> {file, lines, sha256}
        self.evaluations = 0
        self.classes = set()
        self.samples = []
        self.viol = []                 # dicts
        self.known_hits = []
        self.assumptions = []
        self.trusted = []
        self.notes = []
        self.undecided = []
        self.bounds = {}
        self.rule_parts = []
        self.solver_time = 0.0
        self.exhaustive = None
        self.extra = {}
        kf = Path(os.environ.get('VERIF_KNOWN_FINDINGS') or (ROOT / 'known_findings.json'))
        self.known = [k for k in (json.loads(kf.read_text()) if kf.exists() else []) if k.get('property') == pid]

    # ------------------------------------------------------------------ bookkeeping
    def thorough(self):
        return self.tier == 'thorough'

    def function(self, fn, name=None):
        """Record a real function as 'under contract' (file, span, sha256 of its current source)."""
        try:
            f = fn
            while hasattr(f, '__wrapped__'):
                f = f.__wrapped__
            f = getattr(f, '__func__', f)
            src = inspect.getsource(f)
            lines = inspect.getsourcelines(f)
            file = inspect.getsourcefile(f)
            nm = name or f'{f.__module__}:{f.__qualname__}'
            self.functions[nm] = dict(file=str(file), line=lines[1], n_lines=len(lines[0]),
                                      sha256=hashlib.sha256(src.encode()).hexdigest()[:16])
        except Exception as e:  # pragma: no cover
            self.functions[name or repr(fn)] = dict(error=repr(e))

    def assume(self, text):
        if text not in self.assumptions:
            self.assumptions.append(text)

    def trust(self, text):
        if text not in self.trusted:
            self.trusted.append(text)

    def note(self, text):
        self.notes.append(text)

    def rule(self, text):
        if text not in self.rule_parts:
            self.rule_parts.append(text)

    def bound(self, key, value):
        self.bounds[key] = value

    def obligation(self, oid, status, kind='P', backend='z3', time_s=0.0, detail=None, nontrivial=True):
        """status: 'discharged' | 'failed' | 'undecided'.  A failed obligation must be followed by
        self.violation(...) by the caller (with a replayed witness when there is one)."""
        assert status in ('discharged', 'failed', 'undecided'), status
        self.obligations.append(dict(id=oid, kind=kind, status=status, backend=backend,
                                     time_s=round(time_s, 4), detail=detail, nontrivial=nontrivial))
        self.solver_time += time_s
        if status == 'undecided':
            self.undecided.append(oid)

    def evaluate(self, cls_key=None, sample=None, n=1):
        """Count bounded (S/R) evaluations.  cls_key: abstraction class of the case (distinctness)."""
        self.evaluations += n
        if cls_key is not None:
            self.classes.add(cls_key if isinstance(cls_key, str) else repr(cls_key))
        if sample is not None and len(self.samples) < 12:
            s = jsonable(sample)
            if s not in self.samples:
                self.samples.append(s)

    # ------------------------------------------------------------------ violations
    def _match_known(self, oid, wclass):
        for k in self.known:
            if k.get('status', 'finding') != 'finding':
                continue
            if k.get('obligation') and not re.fullmatch(k['obligation'], oid):
                continue
            if k.get('witness') and not re.fullmatch(k['witness'], wclass or '', flags=re.S):
                continue
            return k
        return None

    def violation(self, oid, message, case=None, replay=None, wclass='', solver_output=None,
                  confirmed=True):
        """Report a failed obligation / contract.

        case:     JSON-able description of the failing input
        replay:   'module:function' of a native replayer taking (case) -> (violates: bool, info: str)
        wclass:   witness class string used to match known findings (specific input / call site / history)
        confirmed: the witness was replayed on the real code and the real code violates the contract;
                   False => the line ends with no-failing-input-found
        """
        k = self._match_known(oid, wclass)
        if k is not None:
            key = (k.get('obligation'), k.get('witness'))
            if key not in [h[0] for h in self.known_hits]:
                self.known_hits.append((key, k, oid, wclass))
                print(f"KNOWN-FINDING: property={self.pid} {k.get('what', oid)}", flush=True)
            return False
        # de-duplicate: at most a handful of violation files per obligation
        n_same = sum(1 for v in self.viol if v['obligation'] == oid)
        rec = dict(property=self.pid, obligation=oid, message=message, wclass=wclass, case=jsonable(case),
                   replay=replay, confirmed=bool(confirmed), solver_output=solver_output,
                   tier=self.tier, seed=self.seed)
        if n_same >= 3:
            self.viol.append(dict(obligation=oid, path=None))
            return True
        d = ROOT / 'replays' / self.pid
        d.mkdir(parents=True, exist_ok=True)
        h = hashlib.sha256(json.dumps(rec, sort_keys=True, default=repr).encode()).hexdigest()[:10]
        safe = re.sub(r'[^A-Za-z0-9_.-]+', '_', oid)[:80]
        path = d / f'{safe}.{h}.json'
        path.write_text(json.dumps(rec, indent=1, default=repr))
        self.viol.append(dict(obligation=oid, path=str(path)))
        tail = '' if confirmed else ' no-failing-input-found'
        print(f'VIOLATION property={self.pid} replay={path}{tail}', flush=True)
        print(f'  obligation: {oid}\n  {message}'[:1500], flush=True)
        return True

    # ------------------------------------------------------------------ finish
    def finish(self, level, explanation, checker_cmd=None):
        wall = time.time() - self.t0
        P = [o for o in self.obligations if o['kind'] == 'P']
        S = [o for o in self.obligations if o['kind'] != 'P']
        n_disc_P = sum(1 for o in P if o['status'] == 'discharged')
        by_backend = {}
        for o in self.obligations:
            if o['status'] == 'discharged':
                by_backend[o['backend']] = by_backend.get(o['backend'], 0) + 1
        # distinct non-trivial: P/S obligations that are not marked trivial + distinct bounded classes
        dn_obl = len({o['id'] for o in self.obligations if o['status'] == 'discharged' and o['nontrivial']})
        distinct = dn_obl + len(self.classes)
        samples = list(self.samples)
        for o in self.obligations[:6]:
            samples.append({'obligation': o['id'], 'status': o['status'], 'backend': o['backend']})
        # the level registered in MANIFEST.json is the claim; it is kept only when this run supports it
        try:
            man = json.loads((ROOT / 'MANIFEST.json').read_text())
            claimed = next((c['level_claimed']['category'] for c in man.get('checks', []) if c['property_id'] == self.pid), None)
        except Exception:   # noqa
            claimed = None
        if claimed:
            level = claimed
        if self.undecided and level == 'proof':
            level = 'other'
        if level == 'proof' and (len(P) == 0 or n_disc_P != len(P) or S or self.evaluations):
            # a proof-level claim must be carried by P obligations alone
            if len(P) == 0 or n_disc_P != len(P):
                level = 'other'
        cov = dict(
            obligations=len(P), discharged=n_disc_P,
            bounded_symbolic_obligations=len(S),
            bounded_symbolic_discharged=sum(1 for o in S if o['status'] == 'discharged'),
            discharged_by_backend=by_backend,
            solver_time_s=round(self.solver_time, 3),
            checker_cmd=checker_cmd or f'./check {self.pid} --tier {self.tier}',
            trusted_base=self.trusted or ['PyVC encoding of the Python subset (DESIGN.md 3.2)', 'z3 5.1 / cvc5 1.x'],
            evaluations=max(self.evaluations, 0) + len(self.obligations),
            bounded_evaluations=self.evaluations,
            distinct_nontrivial=distinct,
            rule='; '.join(self.rule_parts) or 'distinct = discharged non-trivial obligation ids + distinct bounded case classes',
            samples=samples[:16],
            explanation=explanation,
            functions_under_contract=self.functions,
            obligation_list=[{k: v for k, v in o.items() if k != 'nontrivial'} for o in self.obligations][:400],
            bounds=self.bounds,
            known_findings_hit=[dict(obligation=h[2], wclass=h[3], what=h[1].get('what')) for h in self.known_hits],
            undecided=self.undecided,
            notes=self.notes,
        )
        if self.exhaustive is not None:
            cov['exhaustive'] = bool(self.exhaustive)
        cov.update(self.extra)
        ev = dict(property_id=self.pid, tier=self.tier, seed=self.seed, level=level, coverage=cov,
                  assumptions=self.assumptions, wall_s=round(wall, 2), violations=len(self.viol))
        self._write_evidence(ev)
        nobl = len(self.obligations)
        print(f'[{self.pid}] tier={self.tier} level={level} P-obligations={len(P)} discharged={n_disc_P} '
              f'S-obligations={len(S)} bounded-evaluations={self.evaluations} classes={len(self.classes)} '
              f'violations={len(self.viol)} known={len(self.known_hits)} undecided={len(self.undecided)} '
              f'wall={wall:.1f}s', flush=True)
        if self.viol:
            return 1
        if self.undecided:
            explored = self.evaluations > 0 or any(o['status'] == 'discharged' for o in self.obligations)
            print(f'UNDECIDED-OBLIGATIONS property={self.pid}: ' + ', '.join(self.undecided[:10]), flush=True)
            if explored and not os.environ.get('VERIF_STRICT_UNDECIDED'):
                # nothing explored violates the property; the undecided obligations are listed in the evidence and the level is
                # downgraded (DESIGN.md fallback rule P -> S -> R).  An undecided obligation is never a violation.
                print(f'[{self.pid}] held on everything explored; {len(self.undecided)} obligation(s) not decided this run (level {level})', flush=True)
                return 0
            return 2
        if nobl == 0 and self.evaluations == 0:
            print(f'CHECKER-ERROR property={self.pid}: zero obligations and zero evaluations (vacuous run)')
            return 3
        return 0

    def _write_evidence(self, ev):
        d = ROOT / 'evidence'
        if os.environ.get('VERIF_KEEP_EVIDENCE'):   # developer mutation runs must not overwrite real evidence
            d = ROOT / 'replays' / '_scratch_evidence'
        d.mkdir(parents=True, exist_ok=True)
        # developer runs of one property may overlap (mutation / seed regression tools): one scratch file per process
        p = d / (f'{self.pid}.{os.getpid()}.json' if os.environ.get('VERIF_KEEP_EVIDENCE') else f'{self.pid}.json')
        p.write_text(json.dumps(ev, indent=1, default=repr))
        try:
            import jsonschema
            if EVIDENCE_SCHEMA.exists():
                jsonschema.validate(json.loads(p.read_text()), json.loads(EVIDENCE_SCHEMA.read_text()))
        except ImportError:
            pass


def main(argv=None):
    import argparse, importlib
    ap = argparse.ArgumentParser()
    ap.add_argument('pid')
    ap.add_argument('--tier', default=os.environ.get('VERIF_TIER', 'quick'), choices=['quick', 'thorough'])
    ap.add_argument('--replay', default=None)
    a = ap.parse_args(argv)
    seed = int(os.environ.get('VERIF_SEED', '0') or 0)
    sys.path.insert(0, str(ROOT))
    # watchdog: code under verification that no longer terminates must not hang the check (undecided, never a violation)
    import signal
    budget = int(os.environ.get('VERIF_BUDGET_S', '0') or 0) or (5400 if a.tier == 'thorough' else 1500)

    def _timeout(signum, frame):
        print(f'UNDECIDED property={a.pid}: time budget of {budget}s exceeded (non-terminating code under verification or overloaded machine)', flush=True)
        try:
            import multiprocessing
            for ch in multiprocessing.active_children():
                ch.kill()
        finally:
            os._exit(2)
    signal.signal(signal.SIGALRM, _timeout)
    signal.alarm(budget)
    try:
        if a.replay:
            rec = json.loads(Path(a.replay).read_text())
            if not rec.get('replay'):
                print(f"replay file names failed obligation {rec['obligation']} without a concrete input "
                      f"(no-failing-input-found); solver output:\n{rec.get('solver_output')}")
                print(f"VIOLATION property={rec['property']} replay={a.replay} no-failing-input-found")
                return 1
            mod, fn = rec['replay'].split(':')
            f = getattr(importlib.import_module(mod), fn)
            bad, info = f(unjson(rec['case']))
            print(info)
            if bad:
                print(f"VIOLATION property={rec['property']} replay={a.replay}")
                return 1
            print(f"replay: contract holds on the recorded input (property={rec['property']})")
            return 0
        mod = importlib.import_module(f'props.{a.pid}')
        ck = Check(a.pid, a.tier, seed)
        return mod.run(ck)
    except Undecided as e:
        print(f'UNDECIDED property={a.pid}: {e}')
        return 2
    except SystemExit:
        raise
    except BaseException:
        traceback.print_exc()
        print(f'CHECKER-CRASH property={a.pid}')
        return 3
