"""Sidecar contracts on real pytezos functions.

A Contract names its target by import path and carries executable pre/postconditions.  The same
contract text is used by (a) PyVC (symbolic: vlib/pyvc.py) and (b) the run-time (R-mode) evaluator
below, which calls the *real* function natively and evaluates the clauses around it.
"""
from __future__ import annotations
import importlib, traceback
from dataclasses import dataclass, field
from typing import Any, Callable, Optional


def resolve(target: str):
    """'pkg.mod:Class.method' -> the real object from the live module (current /repo tree)."""
    mod, _, qn = target.partition(':')
    o = importlib.import_module(mod)
    for part in qn.split('.'):
        o = getattr(o, part)
    return o


@dataclass
class Contract:
    target: str
    requires: Callable[..., bool] = lambda *a, **k: True
    # ensures(result, *args) -> bool | (bool, info)
    ensures: Optional[Callable[..., Any]] = None
    # {ExceptionClass or tuple: predicate(*args)}: the call raises (one of) the class(es) IFF predicate
    raises: dict = field(default_factory=dict)
    # exceptions that count as "rejection" when a raises predicate holds (defaults to the key itself)
    name: str = ''
    doc: str = ''

    def fn(self):
        return resolve(self.target)

    @property
    def id(self):
        return self.name or self.target.split(':')[1]


class RtResult:
    __slots__ = ('ok', 'clause', 'info', 'result', 'exc', 'skipped')

    def __init__(self, ok, clause='', info='', result=None, exc=None, skipped=False):
        self.ok, self.clause, self.info, self.result, self.exc, self.skipped = ok, clause, info, result, exc, skipped


def rt_eval(c: Contract, *args, fn=None, **kwargs) -> RtResult:
    """Evaluate contract `c` natively around the real function on concrete arguments."""
    try:
        pre = c.requires(*args, **kwargs)
    except Exception as e:  # a crashing precondition is a contract bug, not a violation
        raise RuntimeError(f'precondition of {c.id} crashed: {e!r}')
    if not pre:
        return RtResult(True, skipped=True)
    f = fn or c.fn()
    exc = None
    result = None
    try:
        result = f(*args, **kwargs)
    except Exception as e:  # noqa
        exc = e
    should = []
    for ecls, pred in c.raises.items():
        if pred(*args, **kwargs):
            should.append(ecls)
    if exc is not None:
        if any(isinstance(exc, ecls) for ecls in should):
            return RtResult(True, exc=exc)
        tb = ''.join(traceback.format_exception_only(type(exc), exc)).strip()
        if should:
            return RtResult(False, 'raises.class', f'raised {tb}, expected one of {should}', exc=exc)
        return RtResult(False, 'safety.no_exception', f'raised {tb} under its precondition', exc=exc)
    if should:
        return RtResult(False, 'raises.iff', f'returned {result!r} where the contract demands {should}', result=result)
    if c.ensures is not None:
        r = c.ensures(result, *args, **kwargs)
        info = ''
        if isinstance(r, tuple):
            r, info = r
        if not r:
            return RtResult(False, 'ensures', info or f'postcondition false; result={result!r}', result=result)
    return RtResult(True, result=result)
