"""Solver wrapper: z3 first, cvc5 (CLI, SMT-LIB2 export) on unknown.  Results: 'unsat' | 'sat' | 'unknown'."""
from __future__ import annotations
import os, subprocess, tempfile, time
import z3

QUICK_MS = 10_000
THOROUGH_MS = 60_000


def budget_ms():
    return THOROUGH_MS if os.environ.get('VERIF_TIER') == 'thorough' else QUICK_MS


class SolveResult:
    __slots__ = ('status', 'model', 'backend', 'time_s', 'reason')

    def __init__(self, status, model=None, backend='z3', time_s=0.0, reason=''):
        self.status, self.model, self.backend, self.time_s, self.reason = status, model, backend, time_s, reason


def _cvc5(smt2: str, timeout_ms: int, strings=False):
    exe = '/usr/bin/cvc5'
    if not os.path.exists(exe):
        return 'unknown', 'no cvc5'
    with tempfile.NamedTemporaryFile('w', suffix='.smt2', delete=False, dir=os.environ.get('TMPDIR', '/tmp')) as f:
        f.write('(set-logic ALL)\n' + smt2 + '\n')
        path = f.name
    try:
        cmd = [exe, f'--tlimit={timeout_ms}', '--lang=smt2']
        if strings:
            cmd.append('--strings-exp')
        out = subprocess.run(cmd + [path], capture_output=True, text=True, timeout=timeout_ms / 1000 + 5)
        first = (out.stdout.strip().splitlines() or ['unknown'])[0].strip()
        return (first if first in ('sat', 'unsat') else 'unknown'), out.stdout[-300:] + out.stderr[-300:]
    except Exception as e:  # noqa
        return 'unknown', repr(e)
    finally:
        try:
            os.unlink(path)
        except OSError:
            pass


def check_sat(constraints, timeout_ms=None, want_model=True, fallback=True) -> SolveResult:
    """Is the conjunction satisfiable?"""
    timeout_ms = timeout_ms or budget_ms()
    t0 = time.time()
    s = z3.Solver()
    s.set('timeout', timeout_ms)
    for c in constraints:
        s.add(c)
    r = s.check()
    dt = time.time() - t0
    if r == z3.unsat:
        return SolveResult('unsat', None, 'z3', dt)
    if r == z3.sat:
        return SolveResult('sat', s.model() if want_model else None, 'z3', dt)
    reason = s.reason_unknown()
    if fallback:
        smt2 = s.to_smt2()
        uses_str = 'String' in smt2 or 'str.' in smt2
        st, why = _cvc5(smt2, timeout_ms, uses_str)
        dt = time.time() - t0
        if st == 'unsat':
            return SolveResult('unsat', None, 'cvc5', dt)
        if st == 'sat':
            # cvc5 says sat but we have no model object: retry z3 briefly for a model, else report sat w/o model
            return SolveResult('sat', None, 'cvc5', dt, 'cvc5 sat; no z3 model')
        reason += ' | cvc5: ' + why
    return SolveResult('unknown', None, 'z3+cvc5', dt, reason)


def prove(hyps, goal, timeout_ms=None) -> SolveResult:
    """hyps |= goal ?   'unsat' means proved; 'sat' carries a counter-model."""
    return check_sat(list(hyps) + [z3.Not(goal)], timeout_ms)
