"""Ghost model of typed base58check strings: a string of table row `row` (pytezos.crypto.encoding.base58_encodings)
with a symbolic payload, optionally followed by '%entrypoint'.

Justification (modular verification): C09 proves, for every row and ALL payloads, that the encoded text has the row's
human-readable prefix and length, that rows are unambiguous, that base58_encode selects the row by (prefix, payload
length) or raises ValueError, and base58_decode∘base58_encode = id.  The stubs below are exactly those contracts.
The base58 alphabet contains no '%', so split('%') separates address and entrypoint.
"""
from __future__ import annotations
import ast
import z3
from .values import Sym, SBytes, Unsupported, ZB
from .engine import RaiseEx, DecodedStr, FStr


def rows():
    from pytezos.crypto.encoding import base58_encodings
    return list(base58_encodings)


def row_of(prefix: bytes, payload_len: int):
    for r in rows():
        if r[0] == prefix and r[3] == payload_len:
            return r
    return None


class _M:
    __pyvc_symbolic__ = True

    def __init__(self, f):
        self.f = f

    def __pyvc_call__(self, eng, args, kwargs):
        return self.f(eng, *args, **kwargs)


class GB58:
    __pyvc_symbolic__ = True
    __pyvc_strlike__ = True

    def __init__(self, row, payload: SBytes, ep=None, as_bytes=False):
        self.row, self.payload, self.ep, self.as_bytes = row, payload, ep, as_bytes
        self.hp = row[0].decode()

    def __repr__(self):
        return f'GB58<{self.hp} ep={self.ep!r}>'

    def __pyvc_isinstance__(self, cs):
        return (bytes if self.as_bytes else str) in cs

    def _starts(self, eng, q):
        if isinstance(q, tuple):
            return any(self._starts(eng, x) for x in q)
        if isinstance(q, bytes):
            q = q.decode()
        if len(q) <= len(self.hp):
            return self.hp.startswith(q)
        if not q.startswith(self.hp):
            return False
        raise Unsupported(f'startswith({q!r}) depends on the payload digits of a {self.hp} string')

    def _ends(self, eng, q):
        if isinstance(q, bytes):
            q = q.decode()
        if '%' in q:
            tail = q.split('%')[-1]
            if q.count('%') != 1 or not q.startswith('%'):
                raise Unsupported('endswith with text before %')
            if self.ep is None:
                return False
            if isinstance(self.ep, str):
                return self.ep == tail
            return eng.bytes_eq(self.ep.b, tail.encode())
        raise Unsupported('endswith on base58 digits')

    def _split(self, eng, sep, *a):
        if sep != '%':
            raise Unsupported('split on ' + repr(sep))
        base = GB58(self.row, self.payload, None, self.as_bytes)
        return [base] if self.ep is None else [base, self.ep]

    def __pyvc_attr__(self, eng, name):
        if name == 'startswith':
            return _M(self._starts)
        if name == 'endswith':
            return _M(self._ends)
        if name == 'split':
            return _M(self._split)
        if name == 'partition':
            return _M(self._partition)
        if name in ('index', 'find'):
            return _M(lambda e, sub, *a: self._index(e, name, sub, *a))
        if name == 'encode':
            return _M(lambda e, *a: GB58(self.row, self.payload, self.ep, True))
        if name == 'decode':
            return _M(lambda e, *a: GB58(self.row, self.payload, self.ep, False))
        raise Unsupported(f'str.{name} on a ghost base58 string')

    def __pyvc_len__(self, eng):
        """C09: every string of a kind has the kind's encoded length (table column 1)"""
        if self.ep is None:
            return self.row[1]
        n = len(self.ep) if isinstance(self.ep, str) else eng.as_sbytes(self.ep.b).n
        if not isinstance(n, int):
            raise Unsupported('length of a ghost string with a symbolic-length entrypoint')
        return self.row[1] + 1 + n

    def __pyvc_truth__(self, eng):
        return True

    def _index(self, eng, how, sub, *a):
        """position of the separator '%': the base58 alphabet has no '%' and every string of a kind has the kind's encoded length (C09),
        so the first '%' of  <address>%<entrypoint>  stands at that length; entrypoint names contain no '%' (split('%') model above)"""
        if sub != '%' or a:
            raise Unsupported(f'str.{how}({sub!r}) on a ghost base58 string')
        if self.ep is None:
            if how == 'find':
                return -1
            raise RaiseEx(ValueError('substring not found'))
        return self.row[1]

    def _partition(self, eng, sep, *a):
        if sep != '%':
            raise Unsupported('partition on ' + repr(sep))
        base = GB58(self.row, self.payload, None, self.as_bytes)
        return (base, '', '') if self.ep is None else (base, '%', self.ep)

    def __pyvc_cmp__(self, eng, op, other, refl):
        """== / != : same kind, payload and entrypoint.   < <= > >= between two strings WITHOUT entrypoint:
        different kinds whose human-readable prefixes are not prefix-related are ordered by those prefixes (every string of a kind
        starts with its prefix: C09); the same kind by the payload bytes (lemma L-b58a: base58 strings of one kind have equal
        length and the base58 alphabet is ASCII-increasing, so text order == numeric order == byte order of prefix‖payload‖checksum,
        and the payload decides whenever it differs)."""
        if not isinstance(other, GB58):
            if isinstance(op, ast.Eq):
                return False
            if isinstance(op, ast.NotEq):
                return True
            return NotImplemented
        if isinstance(op, (ast.Eq, ast.NotEq)):
            f = self.same(eng, other)
            return Sym(f if isinstance(op, ast.Eq) else z3.Not(f))
        a, b = (other, self) if refl else (self, other)
        if a.ep is not None or b.ep is not None:
            raise Unsupported('ordering of base58 strings with entrypoints')
        if a.row != b.row:
            ha, hb = a.hp, b.hp
            if ha.startswith(hb) or hb.startswith(ha):
                raise Unsupported(f'ordering of {ha} and {hb} strings depends on payload digits')
            import operator
            return {ast.Lt: operator.lt, ast.LtE: operator.le, ast.Gt: operator.gt, ast.GtE: operator.ge}[type(op)](ha, hb)
        return eng.bytes_order(op, a.payload, b.payload)

    def __pyvc_getitem__(self, eng, s):
        if isinstance(s, slice) and s.start in (None, 0) and s.step is None and isinstance(s.stop, int) and 0 <= s.stop <= len(self.hp):
            return self.hp[:s.stop]
        if isinstance(s, slice) and s.step is None and not self.as_bytes:
            n = self.row[1]                      # C09: the encoded length of the kind; the separator (if any) stands at index n
            if (s.start is None or (isinstance(s.start, int) and s.start == 0)) and isinstance(s.stop, int) and s.stop == n:
                return GB58(self.row, self.payload, None, self.as_bytes)              # value[:value.index('%')]
            if self.ep is not None and isinstance(s.start, int) and s.start == n + 1 and s.stop is None:
                return self.ep                                                        # value[value.index('%') + 1:]
        raise Unsupported(f'subscript {s} of a ghost base58 string')

    def __pyvc_binop__(self, eng, op, other, refl):
        if isinstance(op, ast.Add) and not refl and self.ep is None:
            if isinstance(other, FStr) and len(other.items) == 2 and other.items[0] == '%':
                return GB58(self.row, self.payload, other.items[1], self.as_bytes)
            if isinstance(other, str) and other.startswith('%') and other.count('%') == 1:
                return GB58(self.row, self.payload, other[1:], self.as_bytes)
        if isinstance(op, ast.Add) and not refl and self.ep == '' and isinstance(other, (str, DecodedStr)):
            # address + '%' + name  (two concatenations)
            if isinstance(other, str) and '%' in other:
                return NotImplemented
            return GB58(self.row, self.payload, other, self.as_bytes)
        return NotImplemented

    def same(self, eng, other):
        """z3 Bool: same string"""
        if not isinstance(other, GB58) or other.row != self.row:
            return z3.BoolVal(False)
        r = eng.bytes_eq(self.payload, other.payload)
        f = ZB(r) if isinstance(r, Sym) else z3.BoolVal(bool(r))
        if (self.ep is None) != (other.ep is None):
            return z3.BoolVal(False)
        if self.ep is not None:
            a = self.ep.b if isinstance(self.ep, DecodedStr) else self.ep.encode()
            b = other.ep.b if isinstance(other.ep, DecodedStr) else other.ep.encode()
            r2 = eng.bytes_eq(a, b)
            f = z3.And(f, ZB(r2) if isinstance(r2, Sym) else z3.BoolVal(bool(r2)))
        return f


def install(eng):
    """contracts of base58 / pytezos.crypto.encoding used modularly (proved in C09)"""
    import base58
    from pytezos.crypto import encoding as E

    def _one(args, kwargs, name):
        """the single argument of a contract, passed positionally or by its keyword"""
        if len(args) == 1 and not kwargs:
            return args[0]
        if not args and set(kwargs) == {name}:
            return kwargs[name]
        raise Unsupported(f'call shape of a base58 contract: {len(args)} positional, keywords {sorted(kwargs)}')

    def b58decode_check(e, args, kwargs):
        s = _one(args, kwargs, 'v')
        if not isinstance(s, GB58) or s.ep is not None:
            raise Unsupported('b58decode_check of a non-ghost string')
        return e.bytes_concat(SBytes.from_bytes(s.row[2]), s.payload)

    def base58_encode(e, args, kwargs):
        args = list(args)
        if len(args) < 1 and 'v' in kwargs:
            args.append(kwargs['v'])
        if len(args) < 2 and 'prefix' in kwargs:
            args.append(kwargs['prefix'])
        if len(args) != 2 or set(kwargs) - {'v', 'prefix'}:
            raise Unsupported('call shape of base58_encode')
        v, prefix = args
        v = e.as_sbytes(v)
        if not v.concrete_len():
            raise Unsupported('base58_encode of symbolic-length bytes')
        if isinstance(prefix, SBytes):
            prefix = e.const_bytes(prefix)
        r = row_of(prefix, v.n)
        if r is None:
            raise RaiseEx(ValueError('Invalid encoding, prefix or length mismatch.'))
        return GB58(r, v, None, True)

    def base58_decode(e, args, kwargs):
        s = _one(args, kwargs, 'v')
        if not isinstance(s, GB58) or s.ep is not None:
            raise Unsupported('base58_decode of a non-ghost string')
        return SBytes(s.payload.arr, s.payload.n, s.payload.off, False)
    eng.stub(base58.b58decode_check, b58decode_check)
    eng.stub(E.base58_encode, base58_encode)
    eng.stub(E.base58_decode, base58_decode)
