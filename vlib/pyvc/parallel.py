"""Run PyVC harness jobs in a process pool.  A job is (label, 'module:factory', args): the factory returns a
harness h(eng); the worker explores it with a fresh Engine and returns the obligation records."""
from __future__ import annotations
import importlib, os, time, traceback
from concurrent.futures import ProcessPoolExecutor
from .engine import Engine
from .values import Unsupported


def _work(job):
    label, target, args, opts = job
    mod, fn = target.split(':')
    t0 = time.time()
    eng = Engine(**(opts or {}))
    try:
        h = getattr(importlib.import_module(mod), fn)(*args)
        try:
            eng.explore(h)
        except Unsupported as e:
            eng.unsupported(f'{label}::subset', str(e))
        except (TypeError, AttributeError, KeyError, IndexError, ValueError) as e:
            # an operation on a ghost/symbolic value that the engine does not model (typically after a change of the
            # code under verification): undecided, never a violation and not a checker crash
            eng.unsupported(f'{label}::subset', 'unmodelled operation: ' + traceback.format_exc()[-600:])
    except Exception:   # noqa  harness crash: reported as checker error by the parent
        return dict(label=label, error=traceback.format_exc()[-1500:])
    obl = {}
    for k, v in eng.obl.items():
        obl[k] = dict(v, backend=sorted(v['backend']))
    return dict(label=label, obl=obl, interpreted=sorted(eng.interpreted), stats=eng.stats, wall=time.time() - t0)


def run_jobs(jobs, nproc=None):
    nproc = nproc or min(16, os.cpu_count() or 4)
    if len(jobs) <= 1 or nproc <= 1:
        return [_work(j) for j in jobs]
    with ProcessPoolExecutor(max_workers=nproc) as ex:
        return list(ex.map(_work, jobs, chunksize=1))


class FakeEng:
    """adapter so vlib.pyvc.report.report() can consume a worker result"""

    def __init__(self, res):
        self.obl = {k: dict(v, backend=set(v['backend'])) for k, v in res['obl'].items()}
        self.interpreted = set(res['interpreted'])
        self.stats = res['stats']
