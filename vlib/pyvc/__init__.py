from .engine import Engine, RaiseEx, PathEnd, Closure, BoundM  # noqa
from .values import Sym, Obj, Opaque, SBytes, Unsupported, Z, ZB, fresh, has_sym  # noqa
