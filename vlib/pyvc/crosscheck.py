"""CPython cross-check of the PyVC interpreter: the engine interprets the REAL function from its AST on CONCRETE inputs
(force_interp) and the outcome (value or exception class) must equal native execution.  A mismatch is an engine defect:
the check aborts with a checker error (exit 3) — it is never reported as a property violation."""
from __future__ import annotations
from .engine import Engine, RaiseEx
from .values import Unsupported, SBytes, Sym


def _norm(v, eng):
    if isinstance(v, SBytes):
        b = eng.const_bytes(v)
        return bytes(b) if b is not None else ('<symbolic bytes>',)
    if isinstance(v, Sym):
        return eng.conc(v)
    if isinstance(v, (list, tuple)):
        return type(v)(_norm(x, eng) for x in v)
    if isinstance(v, dict):
        return {k: _norm(x, eng) for k, x in v.items()}
    if isinstance(v, bytearray):
        return bytes(v)
    return v


def crosscheck(ck, fn, arg_sets, label=None):
    label = label or getattr(fn, '__qualname__', str(fn))
    n = 0
    for args in arg_sets:
        args = list(args) if isinstance(args, (list, tuple)) else [args]
        try:
            want = ('ret', fn(*args))
        except Exception as e:   # noqa
            want = ('raise', type(e).__name__)
        eng = Engine()
        eng.force_interp = True
        try:
            res = eng.explore(lambda e: e.call(fn, args))
        except Unsupported as u:
            ck.note(f'crosscheck {label}{tuple(args)!r}: outside the subset ({u})')
            continue
        if len(res) != 1:
            raise RuntimeError(f'engine cross-check {label}{tuple(args)!r}: {len(res)} paths on concrete input')
        kind, val = res[0]
        got = ('ret', _norm(val, eng)) if kind == 'ret' else ('raise', type(val).__name__)
        w = (want[0], bytes(want[1]) if isinstance(want[1], bytearray) else want[1])
        if got != w and not (got[0] == 'ret' and w[0] == 'ret' and _norm(w[1], eng) == got[1]):
            raise RuntimeError(f'engine cross-check FAILED for {label}{tuple(args)!r}: interpreter {got!r} vs CPython {w!r}')
        n += 1
    ck.extra.setdefault('engine_crosscheck', {})[label] = n
    return n
