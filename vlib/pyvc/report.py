"""Turn engine obligation records into runner obligations / violations (with native replay of counter-models)."""
from __future__ import annotations
import traceback
from .values import Unsupported


def run_harness(ck, eng, harness, name, kind='P'):
    """explore all paths of one harness; Unsupported -> an undecided obligation named after the harness"""
    try:
        return eng.explore(harness)
    except Unsupported as e:
        eng.unsupported(f'{name}::subset', str(e))
        return None
    except (TypeError, AttributeError, KeyError, IndexError, ValueError):
        eng.unsupported(f'{name}::subset', 'unmodelled operation: ' + traceback.format_exc()[-600:])
        return None


def report(ck, eng, replayers=None, kind='P', prefix=''):
    """replayers: list of (oid_prefix, replay_target 'mod:fn', native(case)->(bad, info), search()->case|None)"""
    replayers = replayers or []
    for oid, rec in eng.obl.items():
        backend = '+'.join(sorted(rec['backend'])) or 'z3'
        foid = prefix + oid
        if rec['status'] == 'discharged':
            ck.obligation(foid, 'discharged', kind, backend, rec['time_s'], f"{rec['paths']} path(s)", rec.get('nontrivial', True))
            continue
        if rec['status'] == 'undecided':
            ck.obligation(foid, 'undecided', kind, backend, rec['time_s'], rec['reason'][:300])
            continue
        ck.obligation(foid, 'failed', kind, backend, rec['time_s'], rec['reason'][:300])
        cex = rec.get('cex')
        rp = next((r for r in replayers if oid.startswith(r[0])), None)
        confirmed, case, info = False, cex, ''
        if rp is not None:
            _, target, native, search = (list(rp) + [None, None])[:4]
            try:
                if cex is not None and native is not None:
                    bad, info = native(cex)
                    if bad:
                        confirmed = True
                if not confirmed and search is not None:
                    found = search()
                    if found is not None:
                        bad, info = native(found)
                        if bad:
                            confirmed, case = True, found
            except Exception:   # noqa  replay problems never upgrade/downgrade the verdict
                info = 'replay crashed: ' + traceback.format_exc()[-400:]
            ck.violation(foid, f'obligation failed ({rec["reason"]}); counter-model {cex}; native replay: {info}',
                         case=case, replay=target if confirmed else None, wclass=str(case) if confirmed else 'symbolic-only',
                         solver_output=f'{rec["reason"]} model={cex}', confirmed=confirmed)
        else:
            ck.violation(foid, f'obligation failed ({rec["reason"]}); counter-model {cex}', case=cex, replay=None,
                         wclass='symbolic-only', solver_output=f'{rec["reason"]} model={cex}', confirmed=False)


def functions_interpreted(ck, eng):
    ck.extra.setdefault('interpreted_from_real_ast', [])
    for q in sorted(eng.interpreted):
        if q not in ck.extra['interpreted_from_real_ast']:
            ck.extra['interpreted_from_real_ast'].append(q)
    st = ck.extra.setdefault('engine_stats', dict(paths=0, nodes=0, solver_calls=0, native_calls=0, interpreted_calls=0))
    for k in st:
        st[k] += eng.stats.get(k, 0)
