"""Symbolic values of PyVC (DESIGN.md 3.2)."""
from __future__ import annotations
import z3


class Unsupported(Exception):
    """Construct outside the verified subset -> the obligation is UNDECIDED, never a violation."""


class Sym:
    """A symbolic int or bool (SMT term).  Python ints are mathematical integers: no assumption."""
    __slots__ = ('e',)

    def __init__(self, e):
        self.e = e

    def __repr__(self):
        return f'Sym({self.e})'

    @property
    def is_bool(self):
        return z3.is_bool(self.e)

    def __bool__(self):
        raise Unsupported('native truth test of a symbolic value (engine bug or unmodelled builtin)')

    def __hash__(self):
        return id(self)


def Z(v):
    """python/symbolic scalar -> z3 Int term"""
    if isinstance(v, Sym):
        return z3.If(v.e, z3.IntVal(1), z3.IntVal(0)) if v.is_bool else v.e
    if isinstance(v, bool):
        return z3.IntVal(1 if v else 0)
    if isinstance(v, int):
        return z3.IntVal(v)
    if z3.is_expr(v):
        return v
    raise Unsupported(f'not a scalar: {v!r}')


def ZB(v):
    """python/symbolic scalar -> z3 Bool term (python truthiness of ints)"""
    if isinstance(v, Sym):
        return v.e if v.is_bool else v.e != 0
    if isinstance(v, (bool, int)):
        return z3.BoolVal(bool(v))
    if z3.is_expr(v):
        return v if z3.is_bool(v) else v != 0
    raise Unsupported(f'not a boolean: {v!r}')


class Obj:
    """Instance of a repository class: the REAL class object + a field map."""

    def __init__(self, cls):
        self.cls = cls
        self.f = {}

    def __repr__(self):
        return f'Obj<{self.cls.__name__} {self.f}>'


class Opaque(str):
    """A value whose content is not modelled (formatted strings, log text)."""


_ctr = [0]


def fresh(name, sort='int'):
    _ctr[0] += 1
    nm = f'{name}!{_ctr[0]}'
    if sort == 'int':
        return z3.Int(nm)
    if sort == 'bool':
        return z3.Bool(nm)
    if sort == 'arr':
        return z3.Array(nm, z3.IntSort(), z3.IntSort())
    raise ValueError(sort)


class SBytes:
    """bytes / bytearray as (Array Int Int, offset, length); element i is arr[off+i], 0 <= . < 256
    on [0, n) (the range fact is asserted by whoever creates the value).  n is a python int when the
    length is concrete, else a z3 Int term."""

    def __init__(self, arr, n, off=0, mutable=False):
        self.arr, self.n, self.off, self.mutable = arr, n, off, mutable

    def __repr__(self):
        return f'SBytes(n={self.n}, off={self.off})'

    def zn(self):
        return z3.IntVal(self.n) if isinstance(self.n, int) else self.n

    def zoff(self):
        return z3.IntVal(self.off) if isinstance(self.off, int) else self.off

    def at(self, i):
        """z3 term of element i (no bounds check)"""
        i = Z(i)
        if isinstance(self.off, int) and self.off == 0:
            return z3.Select(self.arr, i)
        return z3.Select(self.arr, self.zoff() + i)

    def concrete_len(self):
        return isinstance(self.n, int)

    def elems(self):
        assert self.concrete_len()
        return [z3.simplify(self.at(i)) for i in range(self.n)]

    @staticmethod
    def from_elems(elems, mutable=False):
        arr = z3.K(z3.IntSort(), z3.IntVal(0))
        for i, e in enumerate(elems):
            arr = z3.Store(arr, i, Z(e))
        return SBytes(arr, len(elems), 0, mutable)

    @staticmethod
    def from_bytes(b, mutable=False):
        return SBytes.from_elems(list(b), mutable)

    def range_fact(self):
        """forall i in [0,n): 0 <= self[i] < 256"""
        if self.concrete_len():
            return z3.And(*[z3.And(self.at(i) >= 0, self.at(i) < 256) for i in range(self.n)]) if self.n else z3.BoolVal(True)
        j = z3.Int('j!rng')
        return z3.ForAll([j], z3.Implies(z3.And(j >= 0, j < self.n), z3.And(self.at(j) >= 0, self.at(j) < 256)))


def has_sym(v, depth=0):
    if isinstance(v, (Sym, Obj, SBytes)) or getattr(v, '__pyvc_symbolic__', False):
        return True
    if depth > 5:
        return False
    if isinstance(v, (list, tuple, set, frozenset)):
        return any(has_sym(x, depth + 1) for x in v)
    if isinstance(v, dict):
        return any(has_sym(x, depth + 1) for x in v.values()) or any(has_sym(x, depth + 1) for x in v.keys())
    # a real Michelson type class parametrised by ghost component types (induction-step harnesses)
    if isinstance(v, type) and getattr(v, '__module__', '').startswith('pytezos'):
        a = v.__dict__.get('args')
        return bool(a) and depth < 4 and any(has_sym(x, depth + 1) for x in a)
    # real repository objects used as containers (e.g. MichelsonStack.items) may hold symbolic records
    if depth < 3 and getattr(type(v), '__module__', '').startswith('pytezos') and not isinstance(v, type):
        d = getattr(v, '__dict__', None)
        if d:
            return any(has_sym(x, depth + 2) for x in d.values())
    return False
