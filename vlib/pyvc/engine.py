"""PyVC engine: a symbolic interpreter / VC generator over the REAL Python ASTs of /repo.

Execution model (DESIGN.md 3.1a): at every call
  1. all arguments concrete            -> the real function is called natively;
  2. the callee has a registered stub  -> modular rule (contract of the callee; pre checked, post assumed);
  3. the callee is a repository function -> its body is interpreted from the AST of the current source;
  4. a built-in on symbolic arguments  -> built-in model or Unsupported (=> undecided, never a violation).
Branches on symbolic conditions fork (DFS by re-execution with a decision prefix).  Loops with a
registered invariant are cut (established / preserved / variant); other loops must have a concrete
trip count.  Obligations are discharged by vlib.pyvc.solve (z3, then cvc5).
"""
from __future__ import annotations
import ast, builtins, contextlib, inspect, operator, textwrap, time, types
import z3
from .values import Sym, Obj, Opaque, SBytes, Unsupported, Z, ZB, fresh, has_sym
from . import solve


class RaiseEx(Exception):
    def __init__(self, exc):
        self.exc = exc


class Ret(Exception):
    def __init__(self, v):
        self.v = v


class Brk(Exception):
    pass


class Cont(Exception):
    pass


class PathEnd(Exception):
    """the current path is abandoned (after a loop-preservation check, or an infeasible assumption)"""


class Closure:
    __pyvc_symbolic__ = True     # an interpreter-level callable: never handed to native code

    def __init__(self, node, env, globs, name='<lambda>', fnobj=None):
        self.node, self.env, self.globs, self.name, self.fnobj = node, env, globs, name, fnobj


class BoundM:
    __pyvc_symbolic__ = True

    def __init__(self, fn, selfv):
        self.fn, self.selfv = fn, selfv


class SuperProxy:
    def __init__(self, after_cls, obj):
        self.after, self.obj = after_cls, obj


class SymMeth:
    def __init__(self, name, recv):
        self.name, self.recv = name, recv


class Frame:
    def __init__(self, qualname, loops):
        self.qualname, self.loops = qualname, loops


_src_cache = {}
_fn_meta = {}      # id(FunctionDef node) -> (node, is_generator, loops, nonlocal names)


def fn_ast(fn):
    """AST of the function's CURRENT source (inspect reads the file of the live module)."""
    key = getattr(fn, '__code__', fn)
    if key not in _src_cache:
        src = textwrap.dedent(inspect.getsource(fn))
        node = ast.parse(src).body[0]
        _src_cache[key] = node
    return _src_cache[key]


def loops_of(node):
    ls = [n for n in ast.walk(node) if isinstance(n, (ast.While, ast.For))]
    # loops of nested function definitions belong to those functions
    inner = set()
    for n in ast.walk(node):
        if n is not node and isinstance(n, (ast.FunctionDef, ast.Lambda)):
            for m in ast.walk(n):
                if isinstance(m, (ast.While, ast.For)):
                    inner.add(id(m))
    ls = [n for n in ls if id(n) not in inner]
    ls.sort(key=lambda n: (n.lineno, n.col_offset))
    return ls


def assigned_names(nodes):
    out, mutated = set(), set()
    for b in nodes:
        for n in ast.walk(b):
            if isinstance(n, ast.Name) and isinstance(n.ctx, ast.Store):
                out.add(n.id)
            elif isinstance(n, ast.AugAssign) and isinstance(n.target, ast.Name):
                out.add(n.target.id)
            elif isinstance(n, (ast.Subscript, ast.Attribute)) and isinstance(n.ctx, ast.Store):
                base = n.value
                while isinstance(base, (ast.Subscript, ast.Attribute)):
                    base = base.value
                if isinstance(base, ast.Name):
                    mutated.add(base.id)
            elif isinstance(n, ast.Call) and isinstance(n.func, ast.Attribute) and \
                    n.func.attr in ('append', 'extend', 'insert', 'pop', 'clear', 'remove', 'add', 'update'):
                base = n.func.value
                if isinstance(base, ast.Name):
                    mutated.add(base.id)
    return out, mutated


class PC(list):
    """path condition; mirrors every appended constraint into an incremental z3 solver"""

    def __init__(self, axioms=()):
        super().__init__()
        self.solver = z3.Solver()
        for a in axioms:
            self.solver.add(a)

    def append(self, f):
        super().append(f)
        self.solver.add(f)

    def extend(self, fs):
        for f in fs:
            self.append(f)


class Engine:
    def __init__(self, repo_prefix='pytezos', timeout_ms=None, max_paths=4000):
        self.repo_prefix = repo_prefix
        self.timeout_ms = timeout_ms or solve.budget_ms()
        self.max_paths = max_paths
        self.stubs = {}            # id(function) -> handler(eng, args, kwargs)
        self.fn_contracts = {}        # id(function) -> dict(handler=, inline_depth=1): recursion contract of a real function
        self.closure_contracts = {}   # nested function name -> dict(handler=, inline_depth=1): contract used at recursive calls
        self._closure_depth = {}
        self.invariants = {}       # (qualname, loop_index) -> dict(inv=, variant=, havoc_extra=)
        self.obl = {}              # oid -> dict(status, paths, time_s, backend, cex, reason)
        self.force_interp = False  # interpret repository functions even on concrete arguments (cross-check)
        self.axioms = []           # global axioms (uninterpreted function facts), part of every query
        self.noop_names = {'format_stdout'}
        self.stats = dict(paths=0, nodes=0, solver_calls=0, solver_time=0.0, native_calls=0, interpreted_calls=0)
        self.interpreted = set()
        self.frames = []
        self.inputs = {}
        self.pc = PC()
        self.trace, self.preset = [], []

    # ------------------------------------------------------------------ inputs / assumptions / obligations
    def int(self, name, lo=None, hi=None):
        v = z3.Int(name)
        self.inputs[name] = ('int', v)
        if lo is not None:
            self.pc.append(v >= lo)
        if hi is not None:
            self.pc.append(v <= hi)
        return Sym(v)

    def bool(self, name):
        v = z3.Bool(name)
        self.inputs[name] = ('bool', v)
        return Sym(v)

    def bytes(self, name, n=None, mutable=False):
        """symbolic byte string; n: python int (concrete length) or None (symbolic length >= 0)"""
        arr = z3.Array(name, z3.IntSort(), z3.IntSort())
        if n is None:
            ln = z3.Int(name + '.len')
            self.pc.append(ln >= 0)
        else:
            ln = n
        b = SBytes(arr, ln, 0, mutable)
        self.pc.append(b.range_fact())
        self.inputs[name] = ('bytes', b)
        return b

    def assume(self, f):
        f = ZB(f)
        self.pc.append(f)

    def feasible(self, extra=None):
        self.stats['solver_calls'] += 1
        t0 = time.time()
        sv = self.pc.solver
        sv.set('timeout', min(self.timeout_ms, 5000))
        sv.push()
        try:
            if extra is not None:
                sv.add(extra)
            r = sv.check()
        finally:
            sv.pop()
        self.stats['solver_time'] += time.time() - t0
        return r != z3.unsat

    def concretize(self, model):
        out = {}
        for name, (kind, v) in self.inputs.items():
            try:
                if kind == 'int':
                    out[name] = model.eval(v, model_completion=True).as_long()
                elif kind == 'bool':
                    out[name] = z3.is_true(model.eval(v, model_completion=True))
                elif kind == 'bytes':
                    n = v.n if isinstance(v.n, int) else model.eval(v.n, model_completion=True).as_long()
                    n = max(0, min(n, 4096))
                    out[name] = bytes((model.eval(v.at(i), model_completion=True).as_long()) % 256 for i in range(n))
            except Exception as e:  # noqa
                out[name] = f'<unconcretizable {e!r}>'
        return out

    def check(self, oid, goal, nontrivial=True, use_as_lemma=True):
        """Obligation: path condition |= goal.  Aggregated per oid over all paths."""
        goal = ZB(goal)
        if z3.is_true(z3.simplify(goal)):
            r = solve.SolveResult('unsat', None, 'simplifier', 0.0)
        else:
            self.stats['solver_calls'] += 1
            r = solve.prove(self.axioms + list(self.pc), goal, self.timeout_ms)
        self.stats['solver_time'] += r.time_s
        rec = self.obl.setdefault(oid, dict(status='discharged', paths=0, time_s=0.0, backend=set(), cex=None,
                                            reason='', nontrivial=nontrivial))
        rec['paths'] += 1
        rec['time_s'] += r.time_s
        rec['backend'].add(r.backend)
        if r.status == 'unsat':
            if use_as_lemma:
                self.pc.append(goal)
            return True
        if r.status == 'sat':
            if rec['status'] != 'failed':
                rec['status'] = 'failed'
                rec['cex'] = self.concretize(r.model) if r.model is not None else None
                rec['reason'] = f'counter-model on path {self.trace}'
        else:
            if rec['status'] == 'discharged':
                rec['status'] = 'undecided'
                rec['reason'] = r.reason
        return False

    def _prove_incremental(self, goal):
        t0 = time.time()
        sv = self.pc.solver
        sv.set('timeout', self.timeout_ms)
        sv.push()
        try:
            sv.add(z3.Not(goal))
            r = sv.check()
            if r == z3.unsat:
                return solve.SolveResult('unsat', None, 'z3', time.time() - t0)
            if r == z3.sat:
                return solve.SolveResult('sat', sv.model(), 'z3', time.time() - t0)
        finally:
            sv.pop()
        # unknown: fresh solver, then cvc5
        return solve.prove(self.axioms + list(self.pc), goal, self.timeout_ms)

    def unsupported(self, oid, why):
        rec = self.obl.setdefault(oid, dict(status='undecided', paths=0, time_s=0.0, backend=set(), cex=None,
                                            reason='', nontrivial=True))
        if rec['status'] == 'discharged':
            rec['status'] = 'undecided'
        rec['reason'] = f'outside the verified subset: {why}'

    # ------------------------------------------------------------------ path exploration
    def explore(self, harness):
        """Run harness(eng) on every feasible path.  Returns list of (outcome, value) per path."""
        worklist = [[]]
        results = []
        while worklist:
            if self.stats['paths'] >= self.max_paths:
                raise Unsupported(f'more than {self.max_paths} paths')
            self.preset = worklist.pop()
            self.trace, self.pc, self.frames = [], PC(self.axioms), []
            self._closure_depth = {}
            self._worklist = worklist
            self.stats['paths'] += 1
            try:
                out = ('ret', harness(self))
            except RaiseEx as r:
                out = ('raise', r.exc)
            except PathEnd:
                out = ('end', None)
            results.append(out)
        return results

    def truth(self, v):
        if isinstance(v, Sym):
            c = ZB(v)
            c = z3.simplify(c)
            if z3.is_true(c):
                return True
            if z3.is_false(c):
                return False
            i = len(self.trace)
            if i < len(self.preset):
                choice = self.preset[i]
            else:
                ft, ff = self.feasible(c), self.feasible(z3.Not(c))
                if ft and ff:
                    self._worklist.append(self.trace + [False])
                    choice = True
                elif ft:
                    choice = True
                elif ff:
                    choice = False
                else:
                    raise PathEnd()
            self.trace.append(choice)
            self.pc.append(c if choice else z3.Not(c))
            return choice
        if isinstance(v, Obj):
            for nm in ('__bool__', '__len__'):
                m = self.lookup(v.cls, nm)
                if m is not None:
                    return self.truth(self.call(BoundM(m, v), [], {}))
            return True
        if isinstance(v, SBytes):
            return self.truth(Sym(v.zn() != 0))
        if hasattr(v, '__pyvc_truth__'):
            return self.truth(v.__pyvc_truth__(self))
        return bool(v)

    @staticmethod
    def conc(v):
        """a symbolic scalar whose term simplifies to a literal becomes the python value"""
        if isinstance(v, Sym):
            e = z3.simplify(v.e)
            if z3.is_int_value(e):
                return e.as_long()
            if z3.is_true(e):
                return True
            if z3.is_false(e):
                return False
        return v

    @staticmethod
    def const_bytes(b):
        """python bytes if every element of a concrete-length SBytes is a literal, else None"""
        if not b.concrete_len():
            return None
        out = []
        for i in range(b.n):
            e = z3.simplify(b.at(i))
            if not z3.is_int_value(e):
                return None
            out.append(e.as_long())
        try:
            return bytes(out)
        except ValueError:
            return None

    def fork(self, cond):
        """explicit fork on a z3 condition; returns python bool for this path"""
        return self.truth(Sym(cond))

    # ------------------------------------------------------------------ attribute / call
    def lookup(self, cls, name):
        for k in cls.__mro__:
            if name in k.__dict__:
                return k.__dict__[name]
        return None

    def getattr_(self, o, name):
        if isinstance(o, Obj):
            if name in o.f:
                return o.f[name]
            if name == '__class__':
                return o.cls
            a = self.lookup(o.cls, name)
            if a is None:
                if any(name in k.__dict__ for k in o.cls.__mro__):
                    return None                       # a class attribute whose value is None (e.g. field_name = None)
                raise RaiseEx(AttributeError(name))
            return self.bind(a, o, o.cls)
        if isinstance(o, SuperProxy):
            mro = o.obj.cls.__mro__ if isinstance(o.obj, Obj) else o.obj.__mro__
            idx = mro.index(o.after)
            for k in mro[idx + 1:]:
                if name in k.__dict__:
                    return self.bind(k.__dict__[name], o.obj, o.obj.cls if isinstance(o.obj, Obj) else o.obj)
            raise RaiseEx(AttributeError(name))
        if isinstance(o, (Sym, SBytes)):
            return SymMeth(name, o)
        if hasattr(o, '__pyvc_attr__'):
            return o.__pyvc_attr__(self, name)
        if getattr(o, '__pyvc_symbolic__', False) and not hasattr(type(o), name):
            raise Unsupported(f'attribute {name} of ghost {type(o).__name__} not modelled')
        try:
            return getattr(o, name)
        except AttributeError as e:
            raise RaiseEx(e)

    def bind(self, a, inst, cls):
        if isinstance(a, types.FunctionType):
            return BoundM(a, inst)
        if isinstance(a, classmethod):
            return BoundM(a.__func__, cls)
        if isinstance(a, staticmethod):
            return a.__func__
        if isinstance(a, property):
            return self.call(BoundM(a.fget, inst), [], {})
        if isinstance(a, (types.WrapperDescriptorType, types.MethodDescriptorType)):
            if a is object.__init__:
                return lambda *x, **k: None
            raise Unsupported(f'descriptor {a}')
        return a

    @staticmethod
    def unwrap(fn):
        while hasattr(fn, '__wrapped__'):   # ErrorTrace.catch wrappers carry __wrapped__ (functools.wraps)
            fn = fn.__wrapped__
        return fn

    def stub(self, fn, handler):
        f = self.unwrap(getattr(fn, '__func__', fn))
        self.stubs[id(f)] = handler
        self._stub_keep = getattr(self, '_stub_keep', []) + [f]

    def call(self, f, args=(), kwargs=None):
        kwargs = kwargs or {}
        try:
            return self.call0(f, list(args), kwargs)
        except RecursionError:
            raise Unsupported('recursion depth')

    def native(self, f, args, kwargs):
        """call real code natively; its exceptions are exceptional paths of the program"""
        self.stats['native_calls'] += 1
        try:
            return f(*args, **kwargs)
        except (RaiseEx, Ret, Brk, Cont, Unsupported, PathEnd):
            raise
        except Exception as e:   # noqa
            raise RaiseEx(e)

    def call0(self, f, args, kwargs):
        if self.stubs and not isinstance(f, (SymMeth, Closure, BoundM)):
            try:
                h = self.stubs.get(id(f))
            except TypeError:
                h = None
            if h is not None:
                return h(self, args, kwargs)
        if isinstance(f, SymMeth):
            return self.symmeth(f.name, f.recv, args, kwargs)
        if isinstance(f, Closure):
            cc = self.closure_contracts.get(f.name)
            if cc is not None:
                d = self._closure_depth.get(f.name, 0)
                if d >= cc.get('inline_depth', 1):
                    return cc['handler'](self, f, args, kwargs)     # modular: the closure's own contract (recursion)
                self._closure_depth[f.name] = d + 1
                try:
                    return self.run_fn(f.node, f.env, f.globs, args, kwargs, name=f.name)
                finally:
                    self._closure_depth[f.name] = d
            return self.run_fn(f.node, f.env, f.globs, args, kwargs, name=f.name)
        if isinstance(f, BoundM):
            return self.call_fn(f.fn, [f.selfv] + list(args), kwargs)
        if isinstance(f, types.MethodType):
            return self.call_fn(f.__func__, [f.__self__] + list(args), kwargs)
        if isinstance(f, type):
            if id(f) in self.stubs:
                return self.stubs[id(f)](self, args, kwargs)
            if f.__module__.startswith(self.repo_prefix) and (has_sym(args) or has_sym(kwargs) or self.force_obj(f) or has_sym(f)):
                o = Obj(f)
                init = self.lookup(f, '__init__')
                if isinstance(init, types.FunctionType):
                    self.call_fn(init, [o] + list(args), kwargs)
                return o
            if issubclass(f, BaseException) and (has_sym(args) or has_sym(kwargs)):
                # exception objects only carry messages: symbolic parts of the message are not modelled
                return self.native(f, ['<symbolic>' if has_sym(a) else a for a in args], {})
            if has_sym(args) or has_sym(kwargs) or f is bytearray:
                return self.builtin(f, args, kwargs)
            return self.native(f, args, kwargs)
        if isinstance(f, types.FunctionType):
            return self.call_fn(f, list(args), kwargs)
        if isinstance(f, Obj):
            m = self.lookup(f.cls, '__call__')
            if isinstance(m, types.FunctionType):
                return self.call_fn(m, [f] + list(args), kwargs)
            raise RaiseEx(TypeError(f"'{f.cls.__name__}' object is not callable"))
        if hasattr(f, '__pyvc_call__'):
            return f.__pyvc_call__(self, args, kwargs)
        if has_sym(args) or has_sym(kwargs) or has_sym(getattr(f, '__self__', None)):
            return self.builtin(f, args, kwargs)
        if f is next and args and isinstance(args[0], list):    # generators are materialised into lists
            return self.builtin(f, args, kwargs)
        return self.native(f, args, kwargs)

    def force_obj(self, cls):
        return False

    def is_repo_fn(self, fn):
        return getattr(fn, '__module__', '') is not None and str(getattr(fn, '__module__', '')).startswith(self.repo_prefix)

    def call_fn(self, fn, args, kwargs):
        fn = self.unwrap(fn)
        h = self.stubs.get(id(fn))
        if h is not None:
            return h(self, args, kwargs)
        fc = self.fn_contracts.get(id(fn))
        if fc is not None:
            key = ('fn', id(fn))
            d = self._closure_depth.get(key, 0)
            if d >= fc.get('inline_depth', 1):
                return fc['handler'](self, args, kwargs)       # modular: the function's own contract at recursive calls
            self._closure_depth[key] = d + 1
            try:
                return self.call_fn_body(fn, args, kwargs)
            finally:
                self._closure_depth[key] = d
        return self.call_fn_body(fn, args, kwargs)

    def contract_for(self, fn, handler, inline_depth=1):
        f = self.unwrap(getattr(fn, '__func__', fn))
        self.fn_contracts[id(f)] = dict(handler=handler, inline_depth=inline_depth)
        self._stub_keep = getattr(self, '_stub_keep', []) + [f]

    def call_fn_body(self, fn, args, kwargs):
        symbolic = has_sym(args) or has_sym(kwargs)
        if not self.is_repo_fn(fn):
            if symbolic:
                return self.builtin(fn, args, kwargs)
            return self.native(fn, args, kwargs)
        if not symbolic and not self.force_interp and not self.stubs and not self.fn_contracts and not self._closure_symbolic(fn):
            return self.native(fn, args, kwargs)
        if fn.__name__ in self.noop_names:
            return Opaque('<noop>')
        node = fn_ast(fn)
        env = {}
        if fn.__closure__:
            for nm, cell in zip(fn.__code__.co_freevars, fn.__closure__):
                try:
                    env[nm] = cell.cell_contents
                except ValueError:
                    pass
        self.stats['interpreted_calls'] += 1
        self.interpreted.add(f'{fn.__module__}:{fn.__qualname__}')
        return self.run_fn(node, env, fn.__globals__, args, kwargs, defaults=fn, name=fn.__qualname__)

    def _closure_symbolic(self, fn):
        if not fn.__closure__:
            return False
        for cell in fn.__closure__:
            try:
                if has_sym(cell.cell_contents):
                    return True
            except ValueError:
                pass
        return False

    def run_fn(self, node, cenv, globs, args, kwargs, defaults=None, name='<fn>'):
        a = node.args
        env = {'__parent__': cenv}
        params = [p.arg for p in a.posonlyargs + a.args]
        if defaults is not None:
            dvals = list(defaults.__defaults__ or ())
        else:
            dvals = [self.ev(d, cenv, globs) for d in a.defaults]
        if len(args) > len(params) and not a.vararg:
            raise RaiseEx(TypeError(f'{name}: too many positional arguments'))
        for i, p in enumerate(params):
            if i < len(args):
                env[p] = args[i]
            elif p in kwargs:
                env[p] = kwargs[p]
            else:
                di = i - (len(params) - len(dvals))
                if di < 0:
                    raise RaiseEx(TypeError(f'{name}: missing argument {p}'))
                env[p] = dvals[di]
        if a.vararg:
            env[a.vararg.arg] = tuple(args[len(params):])
        for j, p in enumerate(a.kwonlyargs):
            if p.arg in kwargs:
                env[p.arg] = kwargs[p.arg]
            else:
                kd = defaults.__kwdefaults__ if defaults is not None else None
                if kd and p.arg in kd:
                    env[p.arg] = kd[p.arg]
                elif a.kw_defaults[j] is not None:
                    env[p.arg] = self.ev(a.kw_defaults[j], cenv, globs)
                else:
                    raise RaiseEx(TypeError(f'{name}: missing keyword argument {p.arg}'))
        known = set(params) | {p.arg for p in a.kwonlyargs}
        extra = {k: v for k, v in kwargs.items() if k not in known}
        if a.kwarg:
            env[a.kwarg.arg] = extra
        elif extra:
            raise RaiseEx(TypeError(f'{name}: unexpected keyword arguments {sorted(extra)}'))
        if isinstance(node, ast.Lambda):
            return self.ev(node.body, env, globs)
        meta = _fn_meta.get(id(node))
        if meta is None or meta[0] is not node:
            # per-definition facts (generator? loops, nonlocal names): computed once per AST node, the node is kept alive by the entry
            meta = (node, any(isinstance(x, (ast.Yield, ast.YieldFrom)) for x in self._own_nodes(node)), loops_of(node),
                    frozenset(n for s in self._own_nodes(node) if isinstance(s, ast.Nonlocal) for n in s.names))
            _fn_meta[id(node)] = meta
        is_gen = meta[1]
        if is_gen:
            env['__yields__'] = []
        self.frames.append(Frame(name, meta[2]))
        # nonlocal/global declarations
        env['__nonlocal__'] = meta[3]
        try:
            self.ex(node.body, env, globs)
        except Ret as r:
            if not is_gen:
                return r.v
        finally:
            self.frames.pop()
        if is_gen:
            return list(env['__yields__'])
        return None

    @staticmethod
    def _own_nodes(node):
        """nodes of a function body excluding nested function bodies"""
        stack = list(node.body)
        while stack:
            n = stack.pop()
            yield n
            if isinstance(n, (ast.FunctionDef, ast.Lambda, ast.AsyncFunctionDef)):
                continue
            for c in ast.iter_child_nodes(n):
                if isinstance(c, (ast.FunctionDef, ast.Lambda, ast.AsyncFunctionDef)):
                    continue
                stack.append(c)

    # ------------------------------------------------------------------ symbolic methods and builtins
    def bytes_index(self, b: SBytes, i):
        """b[i] with Python semantics: IndexError path when out of range"""
        if isinstance(i, int) and i < 0:
            idx = b.zn() + i
        else:
            idx = Z(i)
            if not isinstance(i, int):
                idx = z3.If(idx < 0, b.zn() + idx, idx)
        inb = z3.And(idx >= 0, idx < b.zn())
        if not self.fork(inb):
            raise RaiseEx(IndexError('index out of range'))
        return Sym(b.at(idx))

    def bytes_slice(self, b: SBytes, sl):
        if sl.step is not None:
            raise Unsupported('slice step')
        n = b.zn()

        def norm(x, dflt):
            if x is None:
                return dflt
            zx = Z(x)
            if isinstance(x, int):
                if x < 0:
                    zx = n + x
                    return z3.If(zx < 0, 0, zx)
                return z3.If(zx > n, n, zx)
            zx = z3.If(zx < 0, z3.If(n + zx < 0, 0, n + zx), z3.If(zx > n, n, zx))
            return zx
        lo = norm(sl.start, z3.IntVal(0))
        hi = norm(sl.stop, n)
        ln = z3.simplify(z3.If(hi - lo < 0, 0, hi - lo))
        off = z3.simplify(b.zoff() + lo)
        if not z3.is_int_value(ln):
            # concrete bounds: the length is stop-start whenever the path condition implies it fits
            cands = []
            if (sl.start is None or isinstance(sl.start, int)) and isinstance(sl.stop, int) and sl.stop >= 0 and (sl.start or 0) >= 0:
                cands.append(max(0, sl.stop - (sl.start or 0)))
            for c in cands:
                self.stats['solver_calls'] += 1
                r = solve.prove(self.axioms + list(self.pc), ln == c, min(self.timeout_ms, 3000))
                self.stats['solver_time'] += r.time_s
                if r.status == 'unsat':
                    ln = z3.IntVal(c)
                    break
        ln_c = ln.as_long() if z3.is_int_value(ln) else ln
        off_c = off.as_long() if z3.is_int_value(off) else off
        r = SBytes(b.arr, ln_c, off_c, False)
        # int.to_bytes provenance survives concatenation and exact re-slicing (lemma: from_bytes(to_bytes(v)) == v)
        if isinstance(ln_c, int) and isinstance(off_c, int) and isinstance(b.off, int):
            for (st, k, src, order) in self._int_parts(b):
                if st == off_c - b.off and k == ln_c:
                    r._int_src = (src, k, order)
        return r

    @staticmethod
    def _int_parts(b):
        parts = list(getattr(b, '_int_parts', []))
        src = getattr(b, '_int_src', None)
        if src is not None and isinstance(b.n, int) and src[1] == b.n:
            parts.append((0, b.n, src[0], src[2]))
        return parts

    @staticmethod
    def _copy_with_provenance(b):
        """b'' + x (the first step of b''.join / of an accumulator loop) is x: the to_bytes provenance of x must survive it"""
        r = SBytes(b.arr, b.n, b.off, False)
        for attr in ('_int_src', '_int_parts'):
            if getattr(b, attr, None) is not None:
                setattr(r, attr, getattr(b, attr))
        return r

    def bytes_concat(self, a, b):
        a, b = self.as_sbytes(a), self.as_sbytes(b)
        if a.concrete_len() and a.n == 0:
            return self._copy_with_provenance(b)
        if b.concrete_len() and b.n == 0:
            return self._copy_with_provenance(a)
        if a.concrete_len() and b.concrete_len():
            r = SBytes.from_elems([a.at(i) for i in range(a.n)] + [b.at(i) for i in range(b.n)])
            parts = self._int_parts(a) + [(st + a.n, k, src, order) for (st, k, src, order) in self._int_parts(b)]
            if parts:
                r._int_parts = parts
            return r
        arr = fresh('cat', 'arr')
        n = z3.simplify(a.zn() + b.zn())
        j = z3.Int('j!cat')
        if a.concrete_len():
            for i in range(a.n):
                self.pc.append(z3.Select(arr, i) == a.at(i))
        else:
            self.pc.append(z3.ForAll([j], z3.Implies(z3.And(j >= 0, j < a.zn()), z3.Select(arr, j) == a.at(j))))
        if b.concrete_len():
            for i in range(b.n):
                self.pc.append(z3.Select(arr, a.zn() + i) == b.at(i))
        else:
            self.pc.append(z3.ForAll([j], z3.Implies(z3.And(j >= 0, j < b.zn()), z3.Select(arr, a.zn() + j) == b.at(j))))
        return SBytes(arr, n, 0, False)

    def as_sbytes(self, v):
        if isinstance(v, SBytes):
            return v
        if isinstance(v, (bytes, bytearray)):
            return SBytes.from_bytes(bytes(v))
        raise Unsupported(f'not bytes: {v!r}')

    def bytes_eq(self, a, b):
        a, b = self.as_sbytes(a), self.as_sbytes(b)
        if a.concrete_len() and b.concrete_len():
            if a.n != b.n:
                return False
            return Sym(z3.And(*[a.at(i) == b.at(i) for i in range(a.n)])) if a.n else True
        j = z3.Int('j!eq')
        return Sym(z3.And(a.zn() == b.zn(),
                          z3.ForAll([j], z3.Implies(z3.And(j >= 0, j < a.zn()), a.at(j) == b.at(j)))))

    def bytes_order(self, op, a, b):
        """lexicographic order of byte strings of concrete lengths (Python's bytes ordering)"""
        a, b = self.as_sbytes(a), self.as_sbytes(b)
        if not (a.concrete_len() and b.concrete_len()):
            raise Unsupported('ordering of symbolic-length bytes')
        n, m = a.n, b.n
        k = min(n, m)
        lt_terms, prefix = [], z3.BoolVal(True)
        for i in range(k):
            lt_terms.append(z3.And(prefix, a.at(i) < b.at(i)))
            prefix = z3.And(prefix, a.at(i) == b.at(i))
        lt = z3.Or(*lt_terms, z3.And(prefix, z3.BoolVal(n < m))) if lt_terms else z3.BoolVal(n < m)
        eq = z3.And(prefix, z3.BoolVal(n == m))
        if isinstance(op, ast.Lt):
            return Sym(lt)
        if isinstance(op, ast.LtE):
            return Sym(z3.Or(lt, eq))
        if isinstance(op, ast.Gt):
            return Sym(z3.And(z3.Not(lt), z3.Not(eq)))
        if isinstance(op, ast.GtE):
            return Sym(z3.Not(lt))
        raise Unsupported('bytes comparison operator')

    def symmeth(self, name, o, args, kwargs):
        if isinstance(o, Sym):
            if name == 'bit_length':
                return ('bitlen', o)
            if name == 'to_bytes':
                n = args[0]
                order = args[1] if len(args) > 1 else kwargs.get('byteorder', 'big')
                signed = kwargs.get('signed', False)
                if not isinstance(n, int) or signed:
                    raise Unsupported('to_bytes with symbolic length / signed')
                v = Z(o)
                fb = getattr(self, '_fb_src', {}).get(v.get_id())
                if fb is not None and fb[1].n == n and fb[2] == order and z3.eq(fb[0], v):
                    return SBytes(fb[1].arr, fb[1].n, fb[1].off, False)
                if not self.fork(z3.And(v >= 0, v < 256 ** n)):
                    raise RaiseEx(OverflowError('int too big to convert'))
                el = [(v / (256 ** k)) % 256 for k in range(n)]
                if order == 'big':
                    el.reverse()
                r = SBytes.from_elems(el)
                r._int_src = (o, n, order)        # lemma: int.from_bytes(v.to_bytes(n, order), order) == v for 0 <= v < 256**n
                return r
            raise Unsupported(f'int.{name}')
        if isinstance(o, SBytes):
            if name == 'append':
                if not o.mutable:
                    raise RaiseEx(AttributeError('append'))
                v = Z(args[0])
                if not self.fork(z3.And(v >= 0, v < 256)):
                    raise RaiseEx(ValueError('byte must be in range(0, 256)'))
                o.arr = z3.Store(o.arr, o.zoff() + o.zn(), v)
                o.n = (o.n + 1) if isinstance(o.n, int) else z3.simplify(o.n + 1)
                return None
            if name in ('startswith', 'endswith'):
                p = args[0]
                if isinstance(p, tuple):
                    raise Unsupported('startswith tuple')
                p = self.as_sbytes(p)
                if not p.concrete_len():
                    raise Unsupported('symbolic-length prefix')
                if name == 'startswith':
                    return Sym(z3.And(o.zn() >= p.n, *[o.at(i) == p.at(i) for i in range(p.n)]))
                return Sym(z3.And(o.zn() >= p.n, *[o.at(o.zn() - p.n + i) == p.at(i) for i in range(p.n)]))
            if name == 'hex':
                cb = self.const_bytes(o)
                return HexOf(o) if cb is None else cb.hex()
            if name == 'decode':
                cb = self.const_bytes(o)
                if cb is not None:
                    return self.native(cb.decode, args, kwargs)
                return DecodedStr(o)
            raise Unsupported(f'bytes.{name}')
        raise Unsupported(name)

    def builtin(self, f, args, kwargs):
        if f is int:
            a = args[0]
            if isinstance(a, Obj):
                return self.call(self.getattr_(a, '__int__'), [], {})
            if isinstance(a, Sym):
                return Sym(Z(a))
            if hasattr(a, '__pyvc_int__'):
                return a.__pyvc_int__(self)
            if isinstance(a, FloatQuot):
                return a.to_int(self)
        if f is bool:
            v = args[0]
            if isinstance(v, Sym):
                return Sym(ZB(v))
            return self.truth(v)
        if f is abs:
            e = Z(args[0])
            return Sym(z3.If(e >= 0, e, -e))
        if f is divmod:
            return (self.binop(ast.FloorDiv(), args[0], args[1]), self.binop(ast.Mod(), args[0], args[1]))
        if f is isinstance:
            o, c = args
            if isinstance(o, Obj):
                return issubclass(o.cls, c)
            cs = c if isinstance(c, tuple) else (c,)
            if isinstance(o, Sym):
                if o.is_bool:
                    return bool in cs or int in cs
                return int in cs
            if isinstance(o, SBytes):
                return (bytearray in cs) if o.mutable else (bytes in cs)
            if hasattr(o, '__pyvc_isinstance__'):
                return o.__pyvc_isinstance__(cs)
            return isinstance(o, c)
        if f is dict:
            return dict(*[(self.iterate(a) if not isinstance(a, dict) else a) for a in args], **kwargs)
        if f is issubclass:
            o, c = args
            if hasattr(o, '__pyvc_issubclass__'):
                return o.__pyvc_issubclass__(c if isinstance(c, tuple) else (c,))
            if isinstance(o, type):
                return issubclass(o, c)
            raise RaiseEx(TypeError('issubclass() arg 1 must be a class'))
        if f is type and len(args) == 3:
            if isinstance(args[0], str) and isinstance(args[1], tuple) and all(isinstance(b, type) for b in args[1]) and isinstance(args[2], dict) \
                    and all(isinstance(k, str) for k in args[2]):
                # a real class whose namespace may hold ghost values (e.g. Michelson type classes parametrised by ghost component types)
                return type(args[0], args[1], dict(args[2]))
            return NewType(args[0], args[1], args[2])
        if f is type:
            (o,) = args
            if hasattr(o, '__pyvc_type__'):
                return o.__pyvc_type__(self)
            if isinstance(o, Obj):
                return o.cls
            if isinstance(o, Sym):
                return bool if o.is_bool else int
            if isinstance(o, SBytes):
                return bytearray if o.mutable else bytes
        if f is str and len(args) == 1 and isinstance(args[0], Sym) and not args[0].is_bool:
            return IntStr(args[0])
        if f is str and len(args) == 1 and (isinstance(args[0], (IntStr, DecodedStr)) or getattr(args[0], '__pyvc_strlike__', False)):
            return args[0]
        if f is str and len(args) == 1 and isinstance(args[0], Obj):
            m = self.lookup(args[0].cls, '__str__')
            if isinstance(m, types.FunctionType) and self.is_repo_fn(m):
                return self.call_fn(m, [args[0]], {})
        if f is repr or f is str or f is format:
            return Opaque('<repr>')
        if getattr(f, '__name__', '') == 'fromhex' and len(args) == 1 and isinstance(args[0], HexOf):
            return args[0].b
        if getattr(f, '__name__', '') == 'fromhex' and len(args) == 1 and hasattr(args[0], '__pyvc_fromhex__'):
            return args[0].__pyvc_fromhex__(self)
        if f is len:
            (o,) = args
            if isinstance(o, Obj):
                return self.call(self.getattr_(o, '__len__'), [], {})
            if isinstance(o, SBytes):
                return o.n if o.concrete_len() else Sym(o.n)
            if hasattr(o, '__pyvc_len__'):
                return o.__pyvc_len__(self)
            return len(o)
        if f is bytes or f is bytearray:
            if not args:
                return SBytes.from_elems([], mutable=(f is bytearray))
            (o,) = args
            if isinstance(o, Obj):
                o = self.call(self.getattr_(o, '__bytes__'), [], {})
            if isinstance(o, (bytes, bytearray)):
                return SBytes.from_bytes(bytes(o), mutable=(f is bytearray))
            if isinstance(o, SBytes):
                return SBytes(o.arr, o.n, o.off, mutable=(f is bytearray))
            if isinstance(o, (list, tuple)):
                for x in o:
                    zx = Z(x)
                    if not self.fork(z3.And(zx >= 0, zx < 256)):
                        raise RaiseEx(ValueError('bytes must be in range(0, 256)'))
                return SBytes.from_elems(list(o), mutable=(f is bytearray))
            raise Unsupported('bytes() of ' + repr(o))
        if f is list and len(args) == 1 and isinstance(args[0], SymRange) and not args[0].is_concrete():
            return SymConcat(args[0], [])
        if f in (sorted, list, tuple, filter, len) and args and hasattr(args[-1], '__pyvc_seqop__'):
            # ghost sequences of symbolic length decide for themselves what sorted / list / filter of them is
            return args[-1].__pyvc_seqop__(self, f, args, kwargs)
        if f in (enumerate, reversed, zip, iter, sorted, set, sum, list, tuple, frozenset):
            conv = [self.iterate(a) for a in args]
            if f is sum:
                acc = args[1] if len(args) > 1 else 0
                for x in conv[0]:
                    acc = self.binop(ast.Add(), acc, x)
                return acc
            if f is sorted and has_sym(conv):
                return self.sym_sorted(conv[0], kwargs.get('key'), kwargs.get('reverse', False))
            if f in (set, frozenset) and has_sym(conv):
                return GSet(self, conv[0] if conv else [])
            r = f(*conv, **kwargs)
            return list(r) if f in (enumerate, reversed, zip, iter) else r
        if f in (all, any):
            for x in self.iterate(args[0]):
                t = self.truth(x)
                if f is all and not t:
                    return False
                if f is any and t:
                    return True
            return f is all
        if f is map:
            fn = args[0]
            return [self.call(fn, [x], {}) for x in self.iterate(args[1])]
        if f is filter:
            fn = args[0]
            return [x for x in self.iterate(args[1]) if self.truth(self.call(fn, [x], {}) if fn is not None else x)]
        if f is next and args and hasattr(args[0], '__pyvc_next__'):
            if len(args) < 2:
                raise Unsupported('next() of a ghost sequence without a default')
            return args[0].__pyvc_next__(self, args[1])
        if f is next:
            seq = args[0]
            if isinstance(seq, list):
                if seq:
                    return seq.pop(0)
                if len(args) > 1:
                    return args[1]
                raise RaiseEx(StopIteration())
            return next(*args)
        if f is min or f is max:
            vals = list(args) if len(args) > 1 else list(self.iterate(args[0]))
            acc = Z(vals[0])
            for v in vals[1:]:
                zv = Z(v)
                acc = z3.If(zv < acc, zv, acc) if f is min else z3.If(zv > acc, zv, acc)
            return Sym(acc)
        if f is range:
            return SymRange(*args)
        if getattr(f, '__name__', '') == 'cast' and getattr(f, '__module__', '') == 'typing':
            return args[1]
        if getattr(f, '__name__', '') == 'copy' and getattr(f, '__module__', '') == 'copy':
            (o,) = args
            if isinstance(o, Obj):
                m = self.lookup(o.cls, '__copy__')
                if m is not None:
                    return self.call(BoundM(m, o), [], {})
                c = Obj(o.cls)
                c.f = dict(o.f)
                return c
            if isinstance(o, (list, dict, tuple)):
                return type(o)(o)
            raise Unsupported('copy of ' + type(o).__name__)
        if f is getattr:
            try:
                return self.getattr_(args[0], args[1])
            except RaiseEx:
                if len(args) > 2:
                    return args[2]
                raise
        if f is hasattr:
            try:
                self.getattr_(args[0], args[1])
                return True
            except RaiseEx:
                return False
        if (f is int.from_bytes or (getattr(f, '__name__', '') == 'from_bytes')) and hasattr(args[0], '__pyvc_from_bytes__'):
            return args[0].__pyvc_from_bytes__(self, args[1] if len(args) > 1 else kwargs.get('byteorder', 'big'))
        if getattr(f, '__name__', '') == 'to_bytes' and args and isinstance(args[0], Sym):
            return self.symmeth('to_bytes', args[0], list(args[1:]), kwargs)
        if f is int.from_bytes or (getattr(f, '__name__', '') == 'from_bytes'):
            b = self.as_sbytes(args[0])
            order = args[1] if len(args) > 1 else kwargs.get('byteorder', 'big')
            if not b.concrete_len() or kwargs.get('signed'):
                raise Unsupported('from_bytes symbolic length')
            src = getattr(b, '_int_src', None)
            if src is not None and src[1] == b.n and src[2] == order:
                return src[0]
            el = [b.at(i) for i in range(b.n)]
            if order == 'big':
                el.reverse()
            r = self.conc(Sym(z3.Sum(*[e * (256 ** k) for k, e in enumerate(el)]) if el else z3.IntVal(0)))
            if isinstance(r, Sym):
                # lemma: int.from_bytes(b, order).to_bytes(len(b), order) == b
                if not hasattr(self, '_fb_src'):
                    self._fb_src = {}
                self._fb_src[Z(r).get_id()] = (Z(r), SBytes(b.arr, b.n, b.off, False), order)
            return r
        if isinstance(f, (types.BuiltinMethodType, types.BuiltinFunctionType)):
            slf = getattr(f, '__self__', None)
            if f.__name__ == 'join' and args and hasattr(args[0], '__pyvc_joined__'):
                return args[0].__pyvc_joined__(self, slf)
            if f.__name__ == 'join' and isinstance(slf, str) and args:
                parts = list(self.iterate(args[0]))
                if all(isinstance(x, str) and not isinstance(x, Opaque) for x in parts):
                    return slf.join(parts)
                if all((isinstance(x, str) and not isinstance(x, Opaque)) or getattr(x, '__pyvc_strlike__', False) for x in parts):
                    items = []
                    for i, x in enumerate(parts):          # text with string-like ghost parts: keep the structure
                        if i:
                            items.append(slf)
                        items.append(x)
                    return FStr(items)
            if isinstance(slf, (list, dict, set)) or (slf is None and f.__name__ != 'join'):
                # list.append/insert/pop, dict.get, ... : containers are concrete, payloads symbolic
                if f.__name__ == 'join' and isinstance(slf, (bytes, str)):
                    raise Unsupported('join over symbolic elements')
                return f(*args, **kwargs)
            if isinstance(slf, bytes) and f.__name__ == 'join':
                parts = list(self.iterate(args[0]))
                if len(slf) != 0:
                    raise Unsupported('bytes.join with separator')
                acc = b''
                for p in parts:
                    acc = self.binop(ast.Add(), acc, p)
                return acc
        raise Unsupported(f'builtin {getattr(f, "__qualname__", f)} on symbolic arguments')

    def sym_sorted(self, items, key=None, reverse=False):
        """sorted() on a list of concrete length with symbolic elements: stable insertion sort driven by the elements' own
        `<` (forks on each comparison).  For a strict weak order this is the result of CPython's sort (assumption: the order
        laws, which are C03's obligations)."""
        if reverse:
            raise Unsupported('sorted(reverse=True) on symbolic elements')
        keyed = [(self.call(key, [x], {}) if key is not None else x, x) for x in items]
        out = []
        for kx, x in keyed:
            pos = len(out)
            # stable: insert after the last element not greater than x
            while pos > 0 and self.truth(self.cmp(ast.Lt(), kx, out[pos - 1][0])):
                pos -= 1
            out.insert(pos, (kx, x))
        return [x for _, x in out]

    def iterate(self, o):
        if isinstance(o, GSet):
            return list(o.items)
        if isinstance(o, Obj):
            it = self.call(self.getattr_(o, '__iter__'), [], {})
            return list(it)
        if isinstance(o, SBytes):
            if not o.concrete_len():
                raise Unsupported('iteration over symbolic-length bytes')
            return [Sym(o.at(i)) for i in range(o.n)]
        if isinstance(o, SymRange):
            return o.concrete()
        if hasattr(o, '__pyvc_iter__'):
            return o.__pyvc_iter__(self)
        if isinstance(o, (Sym,)):
            raise RaiseEx(TypeError('int is not iterable'))
        return list(o)

    # ------------------------------------------------------------------ expressions
    def ev(self, n, env, g):
        self.stats['nodes'] += 1
        m = getattr(self, 'e_' + type(n).__name__, None)
        if m is None:
            raise Unsupported(f'expression {type(n).__name__}')
        return m(n, env, g)

    def e_Constant(self, n, env, g):
        return n.value

    def e_Name(self, n, env, g):
        e = env
        while e is not None:
            if n.id in e:
                return e[n.id]
            e = e.get('__parent__')
        if n.id in g:
            return g[n.id]
        try:
            return getattr(builtins, n.id)
        except AttributeError:
            raise RaiseEx(NameError(n.id))

    def e_Tuple(self, n, env, g):
        return tuple(self.e_List(n, env, g))

    def e_List(self, n, env, g):
        out = []
        for i, x in enumerate(n.elts):
            if isinstance(x, ast.Starred):
                v = self.ev(x.value, env, g)
                if isinstance(v, SymRange) and not v.is_concrete():
                    if i != 0 or any(isinstance(y, ast.Starred) for y in n.elts[1:]):
                        raise Unsupported('symbolic range in the middle of a list display')
                    return SymConcat(v, [self.ev(y, env, g) for y in n.elts[1:]])
                out.extend(self.iterate(v))
            else:
                out.append(self.ev(x, env, g))
        return out

    def e_Set(self, n, env, g):
        return set(self.e_List(n, env, g))

    def e_Dict(self, n, env, g):
        out = {}
        for k, v in zip(n.keys, n.values):
            if k is None:
                out.update(self.ev(v, env, g))
            else:
                out[self.ev(k, env, g)] = self.ev(v, env, g)
        return out

    def e_Attribute(self, n, env, g):
        return self.getattr_(self.ev(n.value, env, g), n.attr)

    def e_Subscript(self, n, env, g):
        v = self.ev(n.value, env, g)
        s = self.ev(n.slice, env, g)
        if isinstance(s, Sym):
            s = self.conc(s)
        elif isinstance(s, slice):
            s = slice(self.conc(s.start), self.conc(s.stop), self.conc(s.step))
        return self.conc(self.getitem(v, s)) if isinstance(v, SBytes) and not isinstance(s, slice) else self.getitem(v, s)

    def getitem(self, v, s):
        if isinstance(v, Obj):
            return self.call(self.getattr_(v, '__getitem__'), [s], {})
        if isinstance(v, SBytes):
            if isinstance(s, slice):
                return self.bytes_slice(v, s)
            return self.bytes_index(v, s)
        if hasattr(v, '__pyvc_getitem__'):
            return v.__pyvc_getitem__(self, s)
        if isinstance(s, SBytes) and isinstance(v, dict):
            cb = self.const_bytes(s)
            if cb is not None:
                s = cb
            else:
                for k in v:
                    if isinstance(k, (bytes, bytearray)) and s.concrete_len() and len(k) == s.n:
                        if self.truth(self.bytes_eq(s, k)):
                            return v[k]
                raise RaiseEx(KeyError('symbolic bytes key'))
        if isinstance(v, (bytes, bytearray)) and (isinstance(s, Sym) or (isinstance(s, slice) and has_sym([s.start, s.stop]))):
            return self.getitem(SBytes.from_bytes(bytes(v)), s)
        if isinstance(s, Sym):
            if isinstance(v, (list, tuple)):
                # symbolic index into a concrete container: fork over the positions
                for i in range(len(v)):
                    if self.fork(Z(s) == i):
                        return v[i]
                for i in range(1, len(v) + 1):
                    if self.fork(Z(s) == -i):
                        return v[-i]
                raise RaiseEx(IndexError('index out of range'))
            if isinstance(v, dict):
                for k in v:
                    if isinstance(k, int) and self.fork(Z(s) == k):
                        return v[k]
                raise RaiseEx(KeyError('symbolic key'))
            raise Unsupported('symbolic subscript')
        if getattr(v, '__pyvc_symbolic__', False) or getattr(s, '__pyvc_symbolic__', False):
            raise Unsupported(f'subscript of {type(v).__name__} by {type(s).__name__} (ghost value not modelled)')
        try:
            return v[s]
        except (IndexError, KeyError, TypeError) as e:
            raise RaiseEx(e)

    def e_Slice(self, n, env, g):
        f = lambda x: None if x is None else self.ev(x, env, g)
        return slice(f(n.lower), f(n.upper), f(n.step))

    def e_JoinedStr(self, n, env, g):
        parts = []
        opaque = False
        for v in n.values:
            if isinstance(v, ast.FormattedValue):
                x = self.ev(v.value, env, g)
                if not hasattr(self, '_fstr_cache'):
                    self._fstr_cache = {}
                self._fstr_cache[id(v)] = x
                if has_sym(x) or isinstance(x, Opaque) or v.format_spec is not None or v.conversion != -1:
                    opaque = True
                else:
                    parts.append(format(x))
            else:
                parts.append(v.value)
        if opaque:
            # keep the structure when every dynamic part is a string-like ghost (used by ghost string classes)
            return self._fstr(n, env, g)
        return ''.join(parts)

    def _fstr(self, n, env, g):
        if len(n.values) == 1 and isinstance(n.values[0], ast.FormattedValue) and n.values[0].format_spec is None and n.values[0].conversion == -1:
            x = self._fstr_cache.get(id(n.values[0]))
            if isinstance(x, Sym) and not x.is_bool:      # f'{n}' of a symbolic int is str(n)
                self._fstr_cache.pop(id(n.values[0]))
                return IntStr(x)
        items = []
        for v in n.values:
            if isinstance(v, ast.FormattedValue):
                if v.format_spec is not None or v.conversion != -1:
                    return Opaque('<fstr>')
                items.append(self._fstr_cache.pop(id(v)))
            else:
                items.append(v.value)
        if all(isinstance(x, str) and not isinstance(x, Opaque) or getattr(x, '__pyvc_strlike__', False) for x in items):
            return FStr(items)
        return Opaque('<fstr>')

    def e_Lambda(self, n, env, g):
        return Closure(n, env, g)

    def e_IfExp(self, n, env, g):
        return self.ev(n.body, env, g) if self.truth(self.ev(n.test, env, g)) else self.ev(n.orelse, env, g)

    def e_BoolOp(self, n, env, g):
        v = None
        for x in n.values:
            v = self.ev(x, env, g)
            t = self.truth(v)
            if isinstance(n.op, ast.And) and not t:
                return v if not isinstance(v, Sym) else False
            if isinstance(n.op, ast.Or) and t:
                return v if not isinstance(v, Sym) or not v.is_bool else True
        if isinstance(v, Sym) and v.is_bool:
            # the last operand decided: its truth value on this path is known
            return self.truth(v)
        return v

    def e_UnaryOp(self, n, env, g):
        v = self.ev(n.operand, env, g)
        if isinstance(n.op, ast.Not):
            if isinstance(v, Sym):
                return Sym(z3.Not(ZB(v)))
            return not self.truth(v)
        if isinstance(v, Sym):
            if isinstance(n.op, ast.USub):
                return Sym(-Z(v))
            if isinstance(n.op, ast.Invert):
                return Sym(-Z(v) - 1)
            if isinstance(n.op, ast.UAdd):
                return Sym(Z(v))
        if isinstance(v, Obj):
            nm = {ast.USub: '__neg__', ast.Invert: '__invert__', ast.UAdd: '__pos__'}[type(n.op)]
            return self.call(self.getattr_(v, nm), [], {})
        return {ast.USub: operator.neg, ast.Invert: operator.invert, ast.UAdd: operator.pos}[type(n.op)](v)

    def e_BinOp(self, n, env, g):
        a, b = self.ev(n.left, env, g), self.ev(n.right, env, g)
        return self.binop(n.op, a, b)

    _opnames = {ast.Add: ('__add__', '__radd__'), ast.Sub: ('__sub__', '__rsub__'), ast.Mult: ('__mul__', '__rmul__'),
                ast.FloorDiv: ('__floordiv__', '__rfloordiv__'), ast.Mod: ('__mod__', '__rmod__'),
                ast.LShift: ('__lshift__', '__rlshift__'), ast.RShift: ('__rshift__', '__rrshift__'),
                ast.BitOr: ('__or__', '__ror__'), ast.BitAnd: ('__and__', '__rand__'), ast.BitXor: ('__xor__', '__rxor__'),
                ast.Pow: ('__pow__', '__rpow__'), ast.Div: ('__truediv__', '__rtruediv__')}
    _optable = {ast.Add: operator.add, ast.Sub: operator.sub, ast.Mult: operator.mul, ast.FloorDiv: operator.floordiv,
                ast.Mod: operator.mod, ast.LShift: operator.lshift, ast.RShift: operator.rshift, ast.BitOr: operator.or_,
                ast.BitAnd: operator.and_, ast.BitXor: operator.xor, ast.Div: operator.truediv, ast.Pow: operator.pow}

    def binop(self, op, a, b):
        if isinstance(a, Obj) or isinstance(b, Obj):
            fw, rv = self._opnames[type(op)]
            if isinstance(a, Obj):
                m = self.lookup(a.cls, fw)
                if m is not None:
                    return self.call(BoundM(m, a), [b], {})
            if isinstance(b, Obj):
                m = self.lookup(b.cls, rv)
                if m is not None:
                    return self.call(BoundM(m, b), [a], {})
            raise RaiseEx(TypeError(f'unsupported operand for {fw}'))
        for x, y, refl in ((a, b, False), (b, a, True)):
            if hasattr(x, '__pyvc_binop__'):
                r = x.__pyvc_binop__(self, op, y, refl)
                if r is not NotImplemented:
                    return r
        if isinstance(a, SBytes) or isinstance(b, SBytes):
            if isinstance(op, ast.Add):
                return self.bytes_concat(a, b)
            if isinstance(op, ast.Mult):
                s, k = (a, b) if isinstance(a, SBytes) else (b, a)
                if isinstance(k, int) and s.concrete_len():
                    return SBytes.from_elems(s.elems() * k)
            raise Unsupported(f'bytes op {type(op).__name__}')
        if isinstance(a, Sym) or isinstance(b, Sym):
            if isinstance(a, (Opaque, str)) or isinstance(b, (Opaque, str)):
                return Opaque('<s>')
            if isinstance(op, ast.Div) and not isinstance(a, float) and not isinstance(b, float):
                # int / int -> float: kept as an exact quotient; only int(.) of it is modelled (see FloatQuot)
                return FloatQuot(Z(a), Z(b))
            if isinstance(a, float) or isinstance(b, float) or isinstance(op, ast.Div):
                raise Unsupported('float arithmetic')
            if isinstance(a, (bytes, bytearray)) and isinstance(op, ast.Mult):
                raise Unsupported('bytes * symbolic')
            x, y = Z(a), Z(b)
            if isinstance(op, ast.Add):
                return Sym(x + y)
            if isinstance(op, ast.Sub):
                return Sym(x - y)
            if isinstance(op, ast.Mult):
                return Sym(x * y)
            if isinstance(op, (ast.FloorDiv, ast.Mod)):
                if not self.fork(y != 0):
                    raise RaiseEx(ZeroDivisionError('integer division or modulo by zero'))
                # python floor semantics; z3 div/mod are Euclidean (remainder >= 0)
                if isinstance(b, int) and b > 0:
                    return Sym(x / y) if isinstance(op, ast.FloorDiv) else Sym(x % y)
                # for y<0: z3 x div y = -(x div -y) rounded so that remainder >=0 ; floor differs when remainder != 0
                fq = z3.If(y > 0, x / y, z3.If(x % (-y) == 0, -(x / (-y)), -(x / (-y)) - 1))
                if isinstance(op, ast.FloorDiv):
                    return Sym(fq)
                return Sym(x - fq * y)
            if isinstance(op, ast.LShift):
                if isinstance(b, int):
                    if b < 0:
                        raise RaiseEx(ValueError('negative shift count'))
                    return Sym(x * (2 ** b))
                raise Unsupported('symbolic shift amount')
            if isinstance(op, ast.RShift):
                if isinstance(b, int):
                    if b < 0:
                        raise RaiseEx(ValueError('negative shift count'))
                    return Sym(x / (2 ** b))
                raise Unsupported('symbolic shift amount')
            if isinstance(op, ast.BitAnd):
                return self.bitand(a, b)
            if isinstance(op, ast.BitOr):
                return self.bitor(a, b)
            if isinstance(op, ast.Pow):
                if isinstance(b, int) and 0 <= b <= 4:
                    r = z3.IntVal(1)
                    for _ in range(b):
                        r = r * x
                    return Sym(r)
            raise Unsupported(f'binop {type(op).__name__} on symbolic ints')
        if isinstance(op, ast.Add) and self._is_text(a) and self._is_text(b) and not (isinstance(a, str) and isinstance(b, str)):
            # text + text where an operand is a string-like ghost WITHOUT an operator model of its own: a + b is the text f'{a}{b}';
            # the structure is kept exactly as for an f-string (ghost classes that define __pyvc_binop__ decide for themselves above)
            return FStr([a, b])
        if has_sym(a) and not isinstance(a, (list, tuple, dict)) or has_sym(b) and not isinstance(b, (list, tuple, dict)):
            raise Unsupported(f'operator {type(op).__name__} on {type(a).__name__} and {type(b).__name__} (ghost/symbolic operand not modelled)')
        try:
            return self._optable[type(op)](a, b)
        except (TypeError, ValueError, ZeroDivisionError, OverflowError) as e:
            raise RaiseEx(e)

    @staticmethod
    def _is_text(v):
        """a Python str, or a string-like ghost that is a `str` (not bytes) in its own model and has no operator model of its own"""
        if isinstance(v, str):
            return not isinstance(v, Opaque)
        if not getattr(v, '__pyvc_strlike__', False) or hasattr(v, '__pyvc_binop__'):
            return False
        hook = getattr(v, '__pyvc_isinstance__', None)
        if hook is None:
            return False
        try:
            return bool(hook((str,))) and not bool(hook((bytes,)))
        except Unsupported:
            return False

    def bitand(self, a, b):
        """x & c for a constant c >= 0: sum of the selected bits (exact for all integers x)"""
        def _isb(v):
            return isinstance(v, bool) or (isinstance(v, Sym) and v.is_bool)
        if _isb(a) and _isb(b):
            return Sym(z3.And(ZB(a), ZB(b)))
        if isinstance(a, int):
            a, b = b, a
        if not isinstance(b, int) or b < 0:
            raise Unsupported('& of two symbolic operands')
        x = Z(a)
        if b == 0:
            return 0
        if (b & (b + 1)) == 0:          # contiguous low mask 2^k-1
            return Sym(x % (b + 1))
        terms = []
        j = 0
        c = b
        while c:
            if c & 1:
                terms.append(((x / (2 ** j)) % 2) * (2 ** j))
            c >>= 1
            j += 1
        return Sym(z3.Sum(*terms) if len(terms) > 1 else terms[0])

    def bitor(self, a, b):
        """a | b as a + b under a proved disjointness side condition (a = 0 mod 2^k, 0 <= b < 2^k)"""
        def _isb(v):
            return isinstance(v, bool) or (isinstance(v, Sym) and v.is_bool)
        if _isb(a) and _isb(b):
            return Sym(z3.Or(ZB(a), ZB(b)))
        x, y = Z(a), Z(b)
        cands = []
        for c, o in ((b, (x, y)), (a, (y, x))):
            if isinstance(c, int) and c >= 0:
                # other operand below the lowest set bit of the constant
                low = (c & -c).bit_length() - 1 if c else 0
                cands.append((low, o[1], o[0]) if c else (0, o[1], o[0]))
        for k in (6, 7, 8, 1, 2, 3, 4, 5, 16, 32, 64):
            cands.append((k, x, y))
            cands.append((k, y, x))
        for k, hi, lo in cands:
            side = z3.And(hi % (2 ** k) == 0, lo >= 0, lo < 2 ** k)
            self.stats['solver_calls'] += 1
            r = solve.prove(self.axioms + list(self.pc), side, min(self.timeout_ms, 3000))
            self.stats['solver_time'] += r.time_s
            if r.status == 'unsat':
                return Sym(x + y)
        # exact identity  x | c == x + c - (x & c)  for a constant c >= 0 (all integers x)
        for c, o in ((b, a), (a, b)):
            if isinstance(c, int) and not isinstance(c, bool) and c >= 0:
                return Sym(Z(o) + c - Z(self.bitand(o, c)))
        raise Unsupported('| without provable bit-disjointness')

    def e_Compare(self, n, env, g):
        left = self.ev(n.left, env, g)
        if len(n.ops) == 1:
            return self.cmp(n.ops[0], left, self.ev(n.comparators[0], env, g))
        acc = None
        for op, rn in zip(n.ops, n.comparators):
            right = self.ev(rn, env, g)
            r = self.cmp(op, left, right)
            if isinstance(r, Sym):
                acc = ZB(r) if acc is None else z3.And(acc, ZB(r))
            elif not self.truth(r):
                return False
            left = right
        return Sym(acc) if acc is not None else True

    def cmp(self, op, a, b):
        if isinstance(a, tuple) and a and a[0] == 'bitlen' or isinstance(b, tuple) and b and b[0] == 'bitlen':
            if isinstance(b, tuple):
                raise Unsupported('bitlen on the right')
            v = Z(a[1])
            av = z3.If(v >= 0, v, -v)
            if isinstance(b, int) and b >= 0:
                if isinstance(op, ast.Gt):
                    return Sym(av >= 2 ** b)
                if isinstance(op, ast.GtE):
                    return Sym(av >= 2 ** (b - 1)) if b > 0 else True
                if isinstance(op, ast.Lt):
                    return Sym(av < 2 ** (b - 1)) if b > 0 else False
                if isinstance(op, ast.LtE):
                    return Sym(av < 2 ** b)
            raise Unsupported('bit_length comparison')
        if isinstance(op, (ast.Is, ast.IsNot)):
            r = a is b
            return r if isinstance(op, ast.Is) else not r
        if isinstance(op, (ast.In, ast.NotIn)):
            r = self.contains(b, a)
            if isinstance(op, ast.In):
                return r
            return Sym(z3.Not(ZB(r))) if isinstance(r, Sym) else (not r)
        for x, y, refl in ((a, b, False), (b, a, True)):
            if hasattr(x, '__pyvc_cmp__'):
                r = x.__pyvc_cmp__(self, op, y, refl)
                if r is not NotImplemented:
                    return r
        if isinstance(a, Obj) or isinstance(b, Obj):
            name = {ast.Eq: '__eq__', ast.NotEq: '__ne__', ast.Lt: '__lt__', ast.Gt: '__gt__', ast.LtE: '__le__',
                    ast.GtE: '__ge__'}[type(op)]
            refl = {'__lt__': '__gt__', '__gt__': '__lt__', '__le__': '__ge__', '__ge__': '__le__',
                    '__eq__': '__eq__', '__ne__': '__ne__'}
            if isinstance(a, Obj):
                m = self.lookup(a.cls, name)
                if m is not None and m is not object.__dict__.get(name):
                    r = self.call(BoundM(m, a), [b], {})
                    if r is not NotImplemented:
                        return r
            if isinstance(b, Obj):
                m = self.lookup(b.cls, refl[name])
                if m is not None and m is not object.__dict__.get(refl[name]):
                    r = self.call(BoundM(m, b), [a], {})
                    if r is not NotImplemented:
                        return r
            if name == '__ne__':
                r = self.cmp(ast.Eq(), a, b)
                return Sym(z3.Not(ZB(r))) if isinstance(r, Sym) else (not r)
            if name == '__eq__':
                return a is b
            raise RaiseEx(TypeError(f'{name} not supported'))
        if isinstance(a, SBytes) or isinstance(b, SBytes):
            if isinstance(a, (SBytes, bytes, bytearray)) and isinstance(b, (SBytes, bytes, bytearray)):
                if isinstance(op, ast.Eq):
                    return self.bytes_eq(a, b)
                if isinstance(op, ast.NotEq):
                    r = self.bytes_eq(a, b)
                    return Sym(z3.Not(ZB(r))) if isinstance(r, Sym) else (not r)
                return self.bytes_order(op, a, b)
            return isinstance(op, ast.NotEq)
        if isinstance(a, Sym) or isinstance(b, Sym):
            if isinstance(a, (int, bool, Sym)) and isinstance(b, (int, bool, Sym)):
                if isinstance(a, Sym) and a.is_bool and isinstance(b, (Sym, bool)) and (not isinstance(b, Sym) or b.is_bool):
                    x, y = ZB(a), ZB(b)
                    if isinstance(op, ast.Eq):
                        return Sym(x == y)
                    if isinstance(op, ast.NotEq):
                        return Sym(x != y)
                x, y = Z(a), Z(b)
                return Sym({ast.Eq: x == y, ast.NotEq: x != y, ast.Lt: x < y, ast.LtE: x <= y, ast.Gt: x > y,
                            ast.GtE: x >= y}[type(op)])
            if isinstance(op, ast.Eq):
                return False
            if isinstance(op, ast.NotEq):
                return True
            raise RaiseEx(TypeError('ordering between int and non-int'))
        if has_sym(a) or has_sym(b):
            return self.struct_cmp(op, a, b)
        try:
            return {ast.Eq: operator.eq, ast.NotEq: operator.ne, ast.Lt: operator.lt, ast.LtE: operator.le,
                    ast.Gt: operator.gt, ast.GtE: operator.ge}[type(op)](a, b)
        except TypeError as e:
            raise RaiseEx(e)

    def struct_cmp(self, op, a, b):
        """==/!= and lexicographic order on tuples/lists with symbolic leaves"""
        if isinstance(a, (tuple, list)) and isinstance(b, (tuple, list)) and type(a) == type(b):
            if isinstance(op, (ast.Eq, ast.NotEq)):
                if len(a) != len(b):
                    return isinstance(op, ast.NotEq)
                acc = []
                for x, y in zip(a, b):
                    r = self.cmp(ast.Eq(), x, y)
                    if isinstance(r, Sym):
                        acc.append(ZB(r))
                    elif not self.truth(r):
                        return isinstance(op, ast.NotEq)
                e = z3.And(*acc) if acc else z3.BoolVal(True)
                return Sym(e if isinstance(op, ast.Eq) else z3.Not(e))
            # lexicographic
            for x, y in zip(a, b):
                if not self.truth(self.cmp(ast.Eq(), x, y)):
                    return self.cmp(op, x, y)
            return {ast.Lt: operator.lt, ast.LtE: operator.le, ast.Gt: operator.gt, ast.GtE: operator.ge}[type(op)](len(a), len(b))
        if isinstance(op, ast.Eq):
            if type(a) != type(b) and not (has_sym(a) and has_sym(b)):
                return False
        raise Unsupported(f'comparison of {type(a).__name__} and {type(b).__name__} with symbolic parts')

    def contains(self, container, x):
        if isinstance(container, Obj):
            m = self.lookup(container.cls, '__contains__')
            if m is not None:
                return self.call(BoundM(m, container), [x], {})
            return any(self.truth(self.cmp(ast.Eq(), x, y)) for y in self.iterate(container))
        if hasattr(container, '__pyvc_contains__'):
            return container.__pyvc_contains__(self, x)
        if has_sym(x) or has_sym(container):
            if isinstance(container, dict):
                container = list(container.keys())
            if isinstance(container, (list, tuple, set, frozenset)):
                acc = []
                for y in container:
                    r = self.cmp(ast.Eq(), x, y)
                    if isinstance(r, Sym):
                        acc.append(ZB(r))
                    elif r:
                        return True
                return Sym(z3.Or(*acc)) if acc else False
            raise Unsupported('symbolic membership')
        try:
            return x in container
        except TypeError as e:
            raise RaiseEx(e)

    def e_Call(self, n, env, g):
        if isinstance(n.func, ast.Name) and n.func.id == 'super' and 'super' not in env:
            args = [self.ev(a, env, g) for a in n.args]
            if args:
                return SuperProxy(args[0], args[1])
            def look(nm):
                e_ = env
                while e_ is not None:
                    if nm in e_:
                        return e_[nm]
                    e_ = e_.get('__parent__')
                return None
            klass = look('__class__')
            if klass is not None and self.frames:
                # zero-argument super(): the first positional parameter of the running method
                first = look('self') if look('self') is not None else look('cls')
                if first is not None:
                    return SuperProxy(klass, first)
            raise Unsupported('bare super')
        f = self.ev(n.func, env, g)
        args = []
        for a in n.args:
            if isinstance(a, ast.Starred):
                args.extend(self.iterate(self.ev(a.value, env, g)))
            else:
                args.append(self.ev(a, env, g))
        kwargs = {}
        for k in n.keywords:
            if k.arg is None:
                kwargs.update(self.ev(k.value, env, g))
            else:
                kwargs[k.arg] = self.ev(k.value, env, g)
        # logger.* : arguments evaluated above (exceptions while formatting count), the call is a no-op
        if isinstance(n.func, ast.Attribute) and isinstance(n.func.value, ast.Name) and n.func.value.id == 'logger':
            return self.log_call(n.func.attr, args, kwargs)
        return self.call(f, args, kwargs)

    def log_call(self, level, args, kwargs):
        """logging formats lazily with `msg % args`; a formatting error is swallowed by logging's
        handleError, so the call never raises.  (The explicit `'..' % x` in an argument IS evaluated.)"""
        return None

    def e_Yield(self, n, env, g):
        env['__yields__'].append(self.ev(n.value, env, g) if n.value else None)

    def e_YieldFrom(self, n, env, g):
        env['__yields__'].extend(self.iterate(self.ev(n.value, env, g)))

    def comp(self, n, env, g, emit):
        def rec(i, env):
            if i == len(n.generators):
                emit(env)
                return
            gen = n.generators[i]
            for v in self.iterate(self.ev(gen.iter, env, g)):
                e2 = dict(env)
                self.assign(gen.target, v, e2, g)
                if all(self.truth(self.ev(c, e2, g)) for c in gen.ifs):
                    rec(i + 1, e2)
        rec(0, env)

    def e_ListComp(self, n, env, g):
        if len(n.generators) == 1 and isinstance(n.generators[0].iter, (ast.Attribute, ast.Name)):
            gen = n.generators[0]
            it = self.ev(gen.iter, env, g)        # a name or an attribute: evaluating it again below has no effect
            if hasattr(it, '__pyvc_comp__'):
                # ghost sequence of symbolic length: condition and element are evaluated ONCE, on the generic element the ghost supplies
                def bind(v):
                    e2 = dict(env)
                    self.assign(gen.target, v, e2, g)
                    keep = z3.BoolVal(True)
                    for c in gen.ifs:
                        keep = z3.And(keep, ZB(self.ev(c, e2, g)))
                    return Sym(z3.simplify(keep)), self.ev(n.elt, e2, g)
                return it.__pyvc_comp__(self, bind)
        out = []
        self.comp(n, env, g, lambda e: out.append(self.ev(n.elt, e, g)))
        return out

    def e_GeneratorExp(self, n, env, g):
        return self.e_ListComp(n, env, g)   # materialised (laziness is not modelled)

    def e_SetComp(self, n, env, g):
        return set(self.e_ListComp(n, env, g))

    def e_DictComp(self, n, env, g):
        out = {}
        self.comp(n, env, g, lambda e: out.__setitem__(self.ev(n.key, e, g), self.ev(n.value, e, g)))
        return out

    def e_Starred(self, n, env, g):
        raise Unsupported('starred')

    # ------------------------------------------------------------------ statements
    def ex(self, body, env, g):
        for s in body:
            self.stats['nodes'] += 1
            m = getattr(self, 's_' + type(s).__name__, None)
            if m is None:
                raise Unsupported(f'statement {type(s).__name__}')
            m(s, env, g)

    def setname(self, name, v, env):
        if name in env.get('__nonlocal__', ()):
            e = env.get('__parent__')
            while e is not None:
                if name in e:
                    e[name] = v
                    return
                e = e.get('__parent__')
            raise Unsupported(f'nonlocal {name} not found')
        env[name] = v

    def assign(self, t, v, env, g):
        if isinstance(t, ast.Name):
            self.setname(t.id, v, env)
        elif isinstance(t, (ast.Tuple, ast.List)):
            vs = list(self.iterate(v))
            star = [i for i, e in enumerate(t.elts) if isinstance(e, ast.Starred)]
            if star:
                i = star[0]
                after = len(t.elts) - i - 1
                if len(vs) < len(t.elts) - 1:
                    raise RaiseEx(ValueError('not enough values to unpack'))
                for tt, vv in zip(t.elts[:i], vs[:i]):
                    self.assign(tt, vv, env, g)
                self.assign(t.elts[i].value, vs[i:len(vs) - after], env, g)
                for tt, vv in zip(t.elts[i + 1:], vs[len(vs) - after:]):
                    self.assign(tt, vv, env, g)
                return
            if len(vs) != len(t.elts):
                raise RaiseEx(ValueError('unpack: wrong number of values'))
            for tt, vv in zip(t.elts, vs):
                self.assign(tt, vv, env, g)
        elif isinstance(t, ast.Attribute):
            o = self.ev(t.value, env, g)
            if isinstance(o, Obj):
                o.f[t.attr] = v
            elif hasattr(o, '__pyvc_setattr__'):
                o.__pyvc_setattr__(self, t.attr, v)
            else:
                setattr(o, t.attr, v)
        elif isinstance(t, ast.Subscript):
            o = self.ev(t.value, env, g)
            k = self.ev(t.slice, env, g)
            self.setitem(o, k, v)
        else:
            raise Unsupported('assign target')

    def setitem(self, o, k, v):
        if isinstance(o, SBytes):
            if not o.mutable:
                raise RaiseEx(TypeError("'bytes' object does not support item assignment"))
            if isinstance(k, slice):
                raise Unsupported('slice assignment')
            if isinstance(k, int) and k < 0:
                idx = o.zn() + k
            else:
                idx = Z(k)
            if not self.fork(z3.And(idx >= 0, idx < o.zn())):
                raise RaiseEx(IndexError('bytearray index out of range'))
            zv = Z(v)
            if not self.fork(z3.And(zv >= 0, zv < 256)):
                raise RaiseEx(ValueError('byte must be in range(0, 256)'))
            o.arr = z3.Store(o.arr, o.zoff() + idx, zv)
            return
        if isinstance(o, Obj):
            return self.call(self.getattr_(o, '__setitem__'), [k, v], {})
        if hasattr(o, '__pyvc_setitem__'):
            return o.__pyvc_setitem__(self, k, v)
        if isinstance(k, Sym):
            raise Unsupported('symbolic subscript store')
        try:
            o[k] = v
        except (IndexError, KeyError, TypeError) as e:
            raise RaiseEx(e)

    def s_Assign(self, s, env, g):
        v = self.ev(s.value, env, g)
        for t in s.targets:
            self.assign(t, v, env, g)

    def s_AnnAssign(self, s, env, g):
        if s.value is not None:
            self.assign(s.target, self.ev(s.value, env, g), env, g)

    def s_AugAssign(self, s, env, g):
        import copy
        t2 = copy.copy(s.target)
        t2.ctx = ast.Load()
        cur = self.ev(t2, env, g)
        val = self.ev(s.value, env, g)
        if isinstance(cur, list) and isinstance(s.op, ast.Add):
            cur.extend(self.iterate(val))
            return
        self.assign(s.target, self.binop(s.op, cur, val), env, g)

    def s_Expr(self, s, env, g):
        self.ev(s.value, env, g)

    def s_Return(self, s, env, g):
        raise Ret(self.ev(s.value, env, g) if s.value else None)

    def s_Pass(self, s, env, g):
        pass

    def s_Nonlocal(self, s, env, g):
        pass

    def s_Global(self, s, env, g):
        raise Unsupported('global statement')

    def s_Break(self, s, env, g):
        raise Brk()

    def s_Continue(self, s, env, g):
        raise Cont()

    def s_If(self, s, env, g):
        self.ex(s.body if self.truth(self.ev(s.test, env, g)) else s.orelse, env, g)

    def s_Assert(self, s, env, g):
        if not self.truth(self.ev(s.test, env, g)):
            msg = self.ev(s.msg, env, g) if s.msg is not None else 'assert'
            raise RaiseEx(AssertionError(msg if not has_sym(msg) else '<symbolic message>'))

    def s_Raise(self, s, env, g):
        if s.exc is None:
            cur = env.get('__active_exc__')
            if cur is None:
                raise RaiseEx(RuntimeError('No active exception to reraise'))
            raise RaiseEx(cur)
        e = self.ev(s.exc, env, g)
        if isinstance(e, type):
            e = e()
        if isinstance(e, Obj):
            try:
                inst = e.cls.__new__(e.cls)
                inst.__dict__['_pyvc_fields'] = e.f
                e = inst
            except Exception:   # noqa
                e = Exception(f'<symbolic {e.cls.__name__}>')
        raise RaiseEx(e)

    def s_Delete(self, s, env, g):
        for t in s.targets:
            if isinstance(t, ast.Name):
                env.pop(t.id, None)
            elif isinstance(t, ast.Subscript):
                o = self.ev(t.value, env, g)
                k = self.ev(t.slice, env, g)
                if has_sym(k):
                    raise Unsupported('del with symbolic key')
                try:
                    del o[k]
                except (KeyError, IndexError) as e:
                    raise RaiseEx(e)
            else:
                raise Unsupported('del target')

    def s_FunctionDef(self, s, env, g):
        env[s.name] = Closure(s, env, g, s.name)

    def s_Import(self, s, env, g):
        import importlib
        for a in s.names:
            env[a.asname or a.name.split('.')[0]] = importlib.import_module(a.name if a.asname else a.name.split('.')[0])

    def s_ImportFrom(self, s, env, g):
        import importlib
        m = importlib.import_module(s.module)
        for a in s.names:
            env[a.asname or a.name] = getattr(m, a.name)

    def s_With(self, s, env, g):
        if len(s.items) != 1:
            raise Unsupported('with: several items')
        cm = self.ev(s.items[0].context_expr, env, g)
        if isinstance(cm, contextlib.suppress):
            try:
                self.ex(s.body, env, g)
            except RaiseEx as r:
                if not isinstance(r.exc, cm._exceptions):
                    raise
            return
        raise Unsupported(f'with {type(cm).__name__}')

    def s_Try(self, s, env, g):
        try:
            try:
                self.ex(s.body, env, g)
            except RaiseEx as r:
                for h in s.handlers:
                    ty = self.ev(h.type, env, g) if h.type else BaseException
                    if isinstance(r.exc, ty):
                        if h.name:
                            env[h.name] = r.exc
                        prev = env.get('__active_exc__')
                        env['__active_exc__'] = r.exc
                        try:
                            self.ex(h.body, env, g)
                        finally:
                            env['__active_exc__'] = prev
                        break
                else:
                    raise
            else:
                self.ex(s.orelse, env, g)
        finally:
            # a PathEnd/Unsupported in flight must not run user code
            import sys
            et = sys.exc_info()[0]
            if s.finalbody and (et is None or issubclass(et, (RaiseEx, Ret, Brk, Cont))):
                self.ex(s.finalbody, env, g)

    # ---- loops
    def loop_spec(self, s):
        if not self.frames:
            return None, None
        fr = self.frames[-1]
        for i, l in enumerate(fr.loops):
            if l is s:
                return self.invariants.get((fr.qualname, i)), f'{fr.qualname}::loop{i}'
        return None, None

    def s_While(self, s, env, g):
        spec, lid = self.loop_spec(s)
        if spec is not None:
            return self.cut_loop(s, env, g, spec, lid, test=lambda: self.truth(self.ev(s.test, env, g)), pre_body=None)
        n = nsym = 0
        while True:
            before = len(self.trace)
            if not self.truth(self.ev(s.test, env, g)):
                break
            n += 1
            if len(self.trace) > before:
                nsym += 1            # the loop condition was decided by a symbolic fork
            if n > 3000 or nsym > 48:
                raise Unsupported('while loop without invariant exceeded the unrolling bound (3000 iterations / 48 symbolic tests)')
            try:
                self.ex(s.body, env, g)
            except Brk:
                return
            except Cont:
                continue
        self.ex(s.orelse, env, g)

    def s_For(self, s, env, g):
        it = self.ev(s.iter, env, g)
        spec, lid = self.loop_spec(s)
        tail = None
        if isinstance(it, SymConcat):
            it, tail = it.rng, it.tail
        if isinstance(it, SymRange) and not it.is_concrete():
            if spec is None:
                raise Unsupported(f'for over a symbolic range without invariant ({lid})')
            if not isinstance(s.target, ast.Name):
                raise Unsupported('symbolic range: target')
            step = it.step
            if isinstance(step, int):
                if step == 0:
                    raise RaiseEx(ValueError('range() arg 3 must not be zero'))
                positive = step > 0
            else:
                zs = Z(step)
                if solve.prove(self.axioms + list(self.pc), zs > 0, min(self.timeout_ms, 3000)).status == 'unsat':
                    positive = True
                elif solve.prove(self.axioms + list(self.pc), zs < 0, min(self.timeout_ms, 3000)).status == 'unsat':
                    positive = False
                else:
                    raise Unsupported('symbolic range step of unknown sign')
            tv = s.target.id
            env[tv] = it.start if isinstance(it.start, Sym) else Sym(Z(it.start))
            stop = Z(it.stop)

            def test():
                cur = Z(env[tv])
                return self.fork(cur < stop if positive else cur > stop)

            def post_body():
                env[tv] = Sym(z3.simplify(Z(env[tv]) + Z(step)))
            r = self.cut_loop(s, env, g, spec, lid, test=test, pre_body=None, post_body=post_body, extra_havoc={tv},
                              has_tail=bool(tail))
            if tail:
                # [*range(..), t1, t2]: the remaining elements run the same body; the invariant (phrased with the loop
                # variable = next element) is re-checked after each of them
                for k, tv_val in enumerate(tail):
                    env[tv] = tv_val
                    y0 = len(env.get('__yields__', ())) if isinstance(env.get('__yields__'), list) else 0
                    snap = dict(env)
                    try:
                        self.ex(s.body, env, g)
                    except Brk:
                        return r
                    except Cont:
                        pass
                    if spec.get('iter_check'):
                        spec['iter_check'](self, snap, env, list(env.get('__yields__', []))[y0:], f'{lid}.iter@tail{k}')
                if spec.get('after'):
                    spec['after'](self, env, f'{lid}.after')
                return r
            env.pop(tv, None)     # after the loop Python keeps the last taken value; not modelled -> poisoned
            return r
        if hasattr(it, '__pyvc_seq__'):
            # ghost sequence of symbolic length: index loop with a hidden counter; env['__idx__'] is the next index
            if spec is None:
                raise Unsupported(f'for over a ghost sequence without invariant ({lid})')
            n = it.__pyvc_seq__()
            env['__idx__'] = Sym(z3.IntVal(0))

            def test():
                if not self.fork(Z(env['__idx__']) < n):
                    return False
                self.assign(s.target, it.elem(self, Z(env['__idx__'])), env, g)
                return True

            def post_body():
                env['__idx__'] = Sym(z3.simplify(Z(env['__idx__']) + 1))
            return self.cut_loop(s, env, g, spec, lid, test=test, post_body=post_body, extra_havoc={'__idx__'})
        if spec is not None and not isinstance(it, SymRange):
            raise Unsupported('invariant on a for loop over a non-range iterable')
        for v in self.iterate(it):
            self.assign(s.target, v, env, g)
            try:
                self.ex(s.body, env, g)
            except Brk:
                return
            except Cont:
                continue
        self.ex(s.orelse, env, g)

    def cut_loop(self, s, env, g, spec, lid, test, pre_body=None, post_body=None, extra_havoc=(), has_tail=False):
        inv, variant = spec['inv'], spec.get('variant')
        facts = spec.get('facts')      # instances of axioms about uninterpreted spec functions (assumed)
        if facts:
            self.pc.append(ZB(facts(env)))
        self.check(f'{lid}.established', inv(env))
        names, mutated = assigned_names(s.body)
        names |= set(extra_havoc)
        for nm in sorted(names | mutated):
            if nm not in env:
                continue
            v = env[nm]
            if isinstance(v, SBytes) and (nm in mutated or nm in names):
                nb = SBytes(fresh(nm, 'arr'), fresh(nm + '.len', 'int') if (nm in mutated or not v.concrete_len()) else v.n, 0, v.mutable)
                if not isinstance(nb.n, int):
                    self.pc.append(nb.n >= 0)
                self.pc.append(nb.range_fact())
                if nm in mutated and nm not in names:
                    v.arr, v.n, v.off = nb.arr, nb.n, nb.off      # in-place mutation: keep identity
                else:
                    self.setname(nm, nb, env)
            elif isinstance(v, Sym) or isinstance(v, (int, bool)):
                if nm in names:
                    isb = isinstance(v, bool) or (isinstance(v, Sym) and v.is_bool)
                    self.setname(nm, Sym(fresh(nm, 'bool' if isb else 'int')), env)
            elif nm in names or nm in mutated:
                hv = spec.get('havoc', {}).get(nm)
                if hv is None:
                    raise Unsupported(f'{lid}: cannot havoc {nm} of type {type(v).__name__}')
                self.setname(nm, hv(self, v), env)
        if facts:
            self.pc.append(ZB(facts(env)))
        self.pc.append(ZB(inv(env)))
        v0 = Z(variant(env)) if variant else None
        if isinstance(env.get('__yields__'), list):
            # a generator's earlier output is summarised by the invariant (ghost); only this iteration's yields are inspected
            env['__yields__'] = []
        if test():
            snap = dict(env)
            try:
                self.ex(s.body, env, g)
            except Brk:
                return
            except Cont:
                pass
            if spec.get('iter_check'):
                spec['iter_check'](self, snap, env, list(env.get('__yields__', [])) if isinstance(env.get('__yields__'), list) else [], f'{lid}.iter')
            if post_body:
                post_body()
            if facts:
                self.pc.append(ZB(facts(env)))
            self.check(f'{lid}.preserved', inv(env))
            if variant:
                v1 = Z(variant(env))
                self.check(f'{lid}.variant', z3.And(v0 >= 0, v1 < v0))
            raise PathEnd()
        self.ex(s.orelse, env, g)
        if spec.get('after') and not has_tail:
            spec['after'](self, env, f'{lid}.after')


class GSet:
    """Python set with symbolic elements, of concrete cardinality on each path: elements are deduplicated with their own
    `==` (forks); assumes __hash__ consistent with __eq__.  Iteration order is the insertion order (CPython's order is
    hash-dependent: users may only rely on the set of elements)."""
    __pyvc_symbolic__ = True

    def __init__(self, eng, items=()):
        self.items = []
        for x in items:
            self._add(eng, x)

    def _find(self, eng, x):
        for i, y in enumerate(self.items):
            if eng.truth(eng.cmp(ast.Eq(), x, y)):
                return i
        return None

    def _add(self, eng, x):
        if self._find(eng, x) is None:
            self.items.append(x)

    def __pyvc_len__(self, eng):
        return len(self.items)

    def __pyvc_truth__(self, eng):
        return len(self.items) > 0

    def __pyvc_contains__(self, eng, x):
        return self._find(eng, x) is not None

    def __pyvc_iter__(self, eng):
        return list(self.items)

    def __pyvc_isinstance__(self, cs):
        return set in cs

    def __pyvc_attr__(self, eng, name):
        if name == 'add':
            return _GM(lambda e, x: self._add(e, x))
        if name in ('remove', 'discard'):
            def rm(e, x):
                i = self._find(e, x)
                if i is None:
                    if name == 'remove':
                        raise RaiseEx(KeyError('element not in set'))
                    return None
                del self.items[i]
            return _GM(rm)
        raise Unsupported('set.' + name)


class _GM:
    __pyvc_symbolic__ = True

    def __init__(self, f):
        self.f = f

    def __pyvc_call__(self, eng, args, kwargs):
        return self.f(eng, *args)


class NewType:
    """type(name, bases, namespace) with symbolic parts: a record of the three arguments"""
    __pyvc_symbolic__ = True

    def __init__(self, name, bases, ns):
        self.name, self.bases, self.ns = name, bases, ns


class SymConcat:
    """[*range(symbolic), t1, ..., tk]   (also list(range(symbolic)) + [t1, ...])"""
    __pyvc_symbolic__ = True

    def __init__(self, rng, tail):
        self.rng, self.tail = rng, tail

    def __pyvc_binop__(self, eng, op, other, refl):
        if isinstance(op, ast.Add) and not refl and isinstance(other, list):
            return SymConcat(self.rng, list(self.tail) + other)
        return NotImplemented


class SymRange:
    __pyvc_symbolic__ = True

    def __init__(self, *a):
        if len(a) == 1:
            self.start, self.stop, self.step = 0, a[0], 1
        elif len(a) == 2:
            self.start, self.stop, self.step = a[0], a[1], 1
        else:
            self.start, self.stop, self.step = a

    def is_concrete(self):
        return not has_sym([self.start, self.stop, self.step])

    def concrete(self):
        if not self.is_concrete():
            raise Unsupported('iteration over a symbolic range')
        return list(range(self.start, self.stop, self.step))


class HexOf:
    """bytes.hex() of symbolic bytes; bytes.fromhex(HexOf(b)) == b (assumed inverse pair)"""
    __pyvc_symbolic__ = True

    def __init__(self, b):
        self.b = b

    def __pyvc_isinstance__(self, cs):
        return str in cs


class FloatQuot:
    """num / den as a Python float (true division of two ints).  int(.) is modelled by the axiom
         floor(num/den) <= int(num/den) <= ceil(num/den)      for 0 <= num < 2^53, den > 0
    (IEEE-754 division is correctly rounded and monotone, and integers below 2^53 are exact: the rounded quotient cannot
    cross an integer).  The side condition is an obligation; outside it the construct is unsupported."""
    __pyvc_symbolic__ = True

    def __init__(self, num, den):
        self.num, self.den = num, den

    def to_int(self, eng):
        side = z3.And(self.num >= 0, self.num < 2 ** 53, self.den > 0)
        r = solve.prove(eng.axioms + list(eng.pc), side, min(eng.timeout_ms, 5000))
        if r.status != 'unsat':
            raise Unsupported('float quotient outside 0 <= num < 2^53, den > 0')
        q = fresh('fquot')
        lo = self.num / self.den
        eng.pc.append(z3.And(q >= lo, q <= z3.If(self.num % self.den == 0, lo, lo + 1)))
        return Sym(q)


class FStr:
    """an f-string whose dynamic parts are string-like ghosts: list of str | ghost"""
    __pyvc_symbolic__ = True
    __pyvc_strlike__ = True

    def __init__(self, items):
        self.items = items

    def __pyvc_isinstance__(self, cs):
        return str in cs

    def __pyvc_len__(self, eng):
        total = 0
        for x in self.items:
            n = len(x) if isinstance(x, str) else eng.builtin(len, [x], {})
            total = eng.binop(ast.Add(), total, n)
        return total

    def __pyvc_truth__(self, eng):
        if any(isinstance(x, str) and x for x in self.items):
            return True
        raise Unsupported('emptiness of a text with ghost parts')


class IntStr:
    """str(n) of a symbolic int; int(IntStr(n)) == n (assumed inverse pair str/int on decimal spelling)"""
    __pyvc_symbolic__ = True

    def __init__(self, v):
        self.v = v

    def __pyvc_int__(self, eng):
        return self.v

    def __pyvc_isinstance__(self, cs):
        return str in cs


class DecodedStr:
    """bytes.decode() of symbolic bytes; .encode() gives the bytes back (assumed inverse pair, UTF-8 valid)"""
    __pyvc_symbolic__ = True
    __pyvc_strlike__ = True

    def __pyvc_cmp__(self, eng, op, other, refl):
        if isinstance(op, (ast.Eq, ast.NotEq)):
            if isinstance(other, str):
                r = eng.bytes_eq(self.b, other.encode())
            elif isinstance(other, DecodedStr):
                r = eng.bytes_eq(self.b, other.b)
            else:
                return NotImplemented
            if isinstance(op, ast.Eq):
                return r
            return Sym(z3.Not(ZB(r))) if isinstance(r, Sym) else (not r)
        # ordering: str order is code-point lexicographic and UTF-8 preserves it, so it equals the byte order of the encodings
        if isinstance(other, str):
            ob = other.encode()
        elif isinstance(other, DecodedStr):
            ob = other.b
        else:
            return NotImplemented
        a, b = (ob, self.b) if refl else (self.b, ob)
        return eng.bytes_order(op, a, b)

    def __init__(self, b):
        self.b = b

    def __pyvc_attr__(self, eng, name):
        if name == 'encode':
            return _Const(self.b)
        if name in ('endswith', 'startswith', 'removesuffix', 'removeprefix'):
            return _StrAffix(self, name)
        raise Unsupported(f'str.{name} on decoded symbolic bytes')

    def __pyvc_isinstance__(self, cs):
        return str in cs


class _StrAffix:
    """endswith / startswith / removesuffix / removeprefix of decoded symbolic bytes against a concrete ASCII affix (concrete length only)"""
    __pyvc_symbolic__ = True

    def __init__(self, s, name):
        self.s, self.name = s, name

    def __pyvc_call__(self, eng, args, kwargs):
        (q,) = args
        if not isinstance(q, str) or not q.isascii():
            raise Unsupported(f'str.{self.name} with a non-literal affix')
        b = eng.as_sbytes(self.s.b)
        if not b.concrete_len():
            raise Unsupported(f'str.{self.name} on a string of symbolic length')
        k, n = len(q), b.n
        suffix = self.name in ('endswith', 'removesuffix')
        if k > n:
            hit = False
        elif k == 0:
            hit = True
        else:
            part = eng.bytes_slice(b, slice(n - k, n) if suffix else slice(0, k))
            r = eng.bytes_eq(part, q.encode())
            hit = eng.fork(ZB(r)) if isinstance(r, Sym) else bool(r)
        if self.name in ('endswith', 'startswith'):
            return hit
        if not hit or k == 0:
            return self.s
        rest = eng.bytes_slice(b, slice(0, n - k) if suffix else slice(k, n))
        return DecodedStr(rest)


class _Const:
    def __init__(self, v):
        self.v = v

    def __pyvc_call__(self, eng, args, kwargs):
        return self.v
