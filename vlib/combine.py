"""A property check assembled from a deductive part props/Cxx_P.py (run_P) and a bounded part props/Cxx_R.py (run_R)."""
import importlib


def run_parts(ck, pid, level_both, level_R_only, explanation):
    parts = []
    for suffix, fn in (('_P', 'run_P'), ('_R', 'run_R')):
        try:
            mod = importlib.import_module(f'props.{pid}{suffix}')
        except ModuleNotFoundError as e:
            if e.name != f'props.{pid}{suffix}':
                raise
            continue
        getattr(mod, fn)(ck)
        parts.append(suffix)
    has_P = len(ck.obligations) > 0     # P or S obligations generated from the real AST
    ck.note('parts run: ' + ','.join(parts))
    return ck.finish(level_both if has_P else level_R_only, explanation)
