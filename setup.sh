#!/bin/sh
exit 0
