#!/bin/sh
# Builds /verif/.venv offline: python 3.12 (from /venv) + solver/contract tooling from the wheelhouse,
# with a .pth so that pytezos and its dependencies (installed in /venv, editable -> /repo/src) import.
set -e
cd "$(dirname "$0")"
if [ -x .venv/bin/python ] && .venv/bin/python -c "import z3, cvc5, jsonschema, pytezos" 2>/dev/null; then
  echo "setup: .venv present"; exit 0
fi
rm -rf .venv
/venv/bin/python -m venv .venv
PIP_NO_INDEX=1 .venv/bin/python -m pip install -q --no-index --find-links /opt/veriftools/wheels \
    z3-solver cvc5 jsonschema hypothesis icontract deal crosshair-tool 2>&1 | grep -v WARNING || true
echo "import site; site.addsitedir('/venv/lib/python3.12/site-packages')" > .venv/lib/python3.12/site-packages/zz_overlay.pth
.venv/bin/python -c "import z3, cvc5, jsonschema, pytezos; print('setup ok: z3', z3.get_version_string())"
