"""Contracts (P) on the real integer codecs of pytezos.michelson.forge:
forge_nat, forge_int, unforge_int  — against specs/zarith.py.  Used by C05 (and C04, C06, C24 via the
length facts).  Every obligation is generated from the current AST of the real function.
"""
import z3
from vlib.pyvc import Engine, RaiseEx, Sym, SBytes, Z, ZB
from specs.zarith import P128, WZ, is_leb, is_zenc, enc_int, enc_nat, dec_int_strict


def pw_facts(k):
    """instances of the defining equations of P128 = 128^k around the term k (assumed: definition of the spec function)"""
    fs = [P128(0) == 1]
    for t in (k - 2, k - 1, k, k + 1):
        fs.append(z3.Implies(t >= 0, z3.And(P128(t) > 0, P128(t + 1) == 128 * P128(t))))
    return z3.And(*fs)


def roles_of(fn, defaults):
    """Names of the local variables that play the roles used by the invariants, read from the CURRENT AST so that a renamed
    local does not break the proof:  param0 = first parameter; per loop k: test names, the variable `.append`-ed to, the
    augmented-assignment targets, the `for` target.  Falls back to the given defaults when the shape is unexpected."""
    import ast
    from vlib.pyvc.engine import fn_ast, loops_of
    r = dict(defaults)
    try:
        node = fn_ast(fn)
        r['param0'] = node.args.args[0].arg
        for k, lp in enumerate(loops_of(node)):
            if isinstance(lp, ast.While):
                names = [n.id for n in ast.walk(lp.test) if isinstance(n, ast.Name)]
                r[f'loop{k}.test'] = names
            if isinstance(lp, ast.For) and isinstance(lp.target, ast.Name):
                r[f'loop{k}.target'] = lp.target.id
            aug = [n.target.id for n in ast.walk(lp) if isinstance(n, ast.AugAssign) and isinstance(n.target, ast.Name)]
            r[f'loop{k}.aug'] = aug
            app = [n.func.value.id for n in ast.walk(lp) if isinstance(n, ast.Call) and isinstance(n.func, ast.Attribute)
                   and n.func.attr == 'append' and isinstance(n.func.value, ast.Name)]
            r[f'loop{k}.append'] = app
    except Exception:   # noqa
        pass
    return r


def divdiv(a, w):
    """instance of the lemma  a >= 0, w > 0  ==>  (a div w) div 128 == a div (128*w)   (lemma_divdiv, proved per run)"""
    return z3.Implies(z3.And(a >= 0, w > 0), (a / w) / 128 == a / (128 * w))


def lemma_divdiv(e: Engine):
    a, w = z3.Ints('a w')
    e.check('lemma::divdiv (a div w) div 128 == a div (128 w)', z3.Implies(z3.And(a >= 0, w > 0), (a / w) / 128 == a / (128 * w)))


# ------------------------------------------------------------------------------- forge_nat
def setup_forge_nat(eng, v0, F=None):
    import pytezos.michelson.forge as _F
    r = roles_of((F or _F).forge_nat, {})
    n_value = r.get('param0', 'value')
    n_more = next((x for x in r.get('loop0.test', []) if x != n_value), 'more')
    n_buf = (r.get('loop0.append') or ['buf'])[0]

    def inv(env):
        value, more, buf = Z(env[n_value]), ZB(env[n_more]), env[n_buf]
        k = buf.zn()
        j = z3.Int('j!inv')
        return z3.And(
            k >= 0, value >= 0, v0 >= 0,
            z3.Implies(more, value == v0 / P128(k)),
            z3.Implies(z3.And(more, k >= 1), value > 0),
            z3.Implies(z3.Not(more), z3.And(k >= 1, v0 < P128(k), z3.Implies(k > 1, v0 >= P128(k - 1)))),
            z3.ForAll([j], z3.Implies(z3.And(j >= 0, j < k),
                                      z3.And(buf.at(j) % 128 == (v0 / P128(j)) % 128,
                                             (buf.at(j) >= 128) == z3.Or(j < k - 1, more)))))
    eng.invariants[('forge_nat', 0)] = dict(
        inv=inv, facts=lambda env: z3.And(pw_facts(env[n_buf].zn()), divdiv(v0, P128(env[n_buf].zn()))),
        variant=lambda env: z3.If(ZB(env[n_more]), Z(env[n_value]) + 1, 0))


def harness_forge_nat(F):
    def h(e: Engine):
        v = e.int('value')
        setup_forge_nat(e, v.e, F)
        try:
            r = e.call(F.forge_nat, [v])
        except RaiseEx as ex:
            e.check('forge_nat::raises.ValueError.iff(value<0)', z3.And(v.e < 0, z3.BoolVal(isinstance(ex.exc, ValueError))))
            return
        e.check('forge_nat::returns.iff(value>=0)', v.e >= 0)
        e.check('forge_nat::returns.bytes', z3.BoolVal(isinstance(r, bytes) or (isinstance(r, SBytes) and not r.mutable)))
        r = e.as_sbytes(r)
        e.assume(pw_facts(r.zn()))
        e.check('forge_nat::ensures.is_canonical_N(result,value)', is_leb(r.at, r.zn(), v.e))
    return h


def native_forge_nat(case):
    from pytezos.michelson.forge import forge_nat
    v = case['value']
    if v < 0:
        try:
            forge_nat(v)
        except ValueError:
            return False, 'ValueError as specified'
        except Exception as e:  # noqa
            return True, f'forge_nat({v}) raised {e!r}, expected ValueError'
        return True, f'forge_nat({v}) returned instead of raising ValueError'
    try:
        got = forge_nat(v)
    except Exception as e:  # noqa
        return True, f'forge_nat({v}) raised {e!r}'
    want = enc_nat(v)
    return got != want, f'forge_nat({v}) = {got.hex()} ; canonical N encoding = {want.hex()}'


# ------------------------------------------------------------------------------- forge_int
def setup_forge_int(eng, v0, F=None):
    import pytezos.michelson.forge as _F
    a = z3.If(v0 >= 0, v0, -v0)
    r = roles_of((F or _F).forge_int, {})
    n_res = (r.get('loop0.append') or ['res'])[0]
    n_i = next((x for x in r.get('loop0.test', []) if x != n_res), 'i')

    def inv(env):
        i, res = Z(env[n_i]), env[n_res]
        k = res.zn()
        j = z3.Int('j!inv')
        return z3.And(
            k >= 1, i >= 0, i == a / WZ(k),
            z3.Implies(k > 1, a >= WZ(k - 1)),
            res.at(0) % 64 == a % 64, ((res.at(0) / 64) % 2 == 1) == (v0 < 0), res.at(0) >= 128, res.at(0) < 256,
            z3.ForAll([j], z3.Implies(z3.And(j >= 1, j < k),
                                      z3.And(res.at(j) % 128 == (a / WZ(j)) % 128, res.at(j) >= 128, res.at(j) < 256))))
    eng.invariants[('forge_int', 0)] = dict(inv=inv, facts=lambda env: z3.And(pw_facts(env[n_res].zn()), divdiv(a, WZ(env[n_res].zn()))),
                                            variant=lambda env: Z(env[n_i]))


def harness_forge_int(F):
    def h(e: Engine):
        v = e.int('value')
        setup_forge_int(e, v.e, F)
        try:
            r = e.call(F.forge_int, [v])
        except RaiseEx as ex:
            e.check(f'forge_int::safety.no_exception[{type(ex.exc).__name__}]', z3.BoolVal(False))
            return
        e.check('forge_int::returns.bytes', z3.BoolVal(isinstance(r, bytes) or (isinstance(r, SBytes) and not r.mutable)))
        r = e.as_sbytes(r)
        e.assume(pw_facts(r.zn()))
        e.check('forge_int::ensures.is_canonical_Z(result,value)', is_zenc(r.at, r.zn(), v.e))
    return h


def native_forge_int(case):
    from pytezos.michelson.forge import forge_int
    v = case['value']
    try:
        got = forge_int(v)
    except Exception as e:  # noqa
        return True, f'forge_int({v}) raised {e!r}'
    want = enc_int(v)
    return got != want, f'forge_int({v}) = {got.hex()} ; canonical Z encoding = {want.hex()}'


# ------------------------------------------------------------------------------- unforge_int
def _unforge_roles(F=None):
    import pytezos.michelson.forge as _F
    r = roles_of((F or _F).unforge_int, {})
    n_length = (r.get('loop0.aug') or ['length'])[0]
    n_i = r.get('loop1.target', 'i')
    n_value = next((x for x in r.get('loop1.aug', []) if x not in (n_length, n_i)), 'value')
    return n_length, n_i, n_value


def setup_unforge_int(eng, data: SBytes, n, L, F=None):
    a = z3.If(n >= 0, n, -n)
    n_length, n_i, n_value = _unforge_roles(F)

    def inv0(env):
        length = Z(env[n_length])
        j = z3.Int('j!inv')
        return z3.And(length >= 1, length <= L,
                      z3.ForAll([j], z3.Implies(z3.And(j >= 0, j < length - 1), data.at(j) >= 128)))

    def inv1(env):
        i, value, length = Z(env[n_i]), Z(env[n_value]), Z(env[n_length])
        return z3.And(length == L, i >= 0, i <= L - 1, value == a / WZ(i + 1), value >= 0)
    eng.invariants[('unforge_int', 0)] = dict(inv=inv0, variant=lambda env: L - Z(env[n_length]) + 1)
    eng.invariants[('unforge_int', 1)] = dict(inv=inv1, facts=lambda env: z3.And(pw_facts(Z(env[n_i])), pw_facts(L), divdiv(a, WZ(Z(env[n_i])))),
                                              variant=lambda env: Z(env[n_i]))


def harness_unforge_int(F):
    def h(e: Engine):
        data = e.bytes('data')             # any length
        n = e.int('n').e                   # ghost: the number encoded at the front of data
        L = e.int('L').e                   # ghost: its encoded length
        e.assume(z3.And(L >= 1, L <= data.zn()))
        e.assume(pw_facts(L))
        e.assume(is_zenc(data.at, L, n))   # requires: data[:L] is the canonical encoding of n
        setup_unforge_int(e, data, n, L, F)
        try:
            r = e.call(F.unforge_int, [data])
        except RaiseEx as ex:
            e.check(f'unforge_int::safety.no_exception_on_valid_input[{type(ex.exc).__name__}]', z3.BoolVal(False))
            return
        e.check('unforge_int::returns.pair', z3.BoolVal(isinstance(r, tuple) and len(r) == 2))
        e.check('unforge_int::ensures.value==n', Z(r[0]) == n)
        e.check('unforge_int::ensures.length==L', Z(r[1]) == L)
    return h


def native_unforge_roundtrip(case):
    from pytezos.michelson.forge import unforge_int
    if 'n' in case and isinstance(case.get('n'), int):
        n = case['n']
        rest = case.get('rest', b'')
        data = enc_int(n) + (rest if isinstance(rest, bytes) else b'')
    else:
        return False, 'no concrete n'
    try:
        got = unforge_int(data)
    except Exception as e:  # noqa
        return True, f'unforge_int({data.hex()}) raised {e!r}; expected ({n}, {len(enc_int(n))})'
    want = (n, len(enc_int(n)))
    return tuple(got) != want, f'unforge_int({data.hex()}) = {got}; expected {want}'


def harness_unforge_int_strict(F):
    """Strictness: a multi-byte encoding whose last group is zero is non-minimal and must be rejected."""
    def h(e: Engine):
        data = e.bytes('data')
        L = e.int('L').e
        j = z3.Int('j!s')
        e.assume(z3.And(L > 1, L <= data.zn(), data.at(L - 1) == 0,
                        z3.ForAll([j], z3.Implies(z3.And(j >= 0, j < L - 1), data.at(j) >= 128))))

        n_length, _, _ = _unforge_roles(F)

        def inv0(env):
            length = Z(env[n_length])
            jj = z3.Int('j!inv')
            return z3.And(length >= 1, length <= L,
                          z3.ForAll([jj], z3.Implies(z3.And(jj >= 0, jj < length - 1), data.at(jj) >= 128)))
        e.invariants[('unforge_int', 0)] = dict(inv=inv0, variant=lambda env: L - Z(env[n_length]) + 1)
        # the decoding loop is irrelevant for rejection: over-approximate it (invariant True)
        e.invariants[('unforge_int', 1)] = dict(inv=lambda env: z3.BoolVal(True))
        try:
            e.call(F.unforge_int, [data])
        except RaiseEx:
            return
        e.check('unforge_int::raises.non_minimal(trailing zero group)', z3.BoolVal(False))
    return h


def native_unforge_strict(case):
    from pytezos.michelson.forge import unforge_int
    data = case['data']
    try:
        dec_int_strict(data)
        return False, 'input is canonical'
    except ValueError as why:
        pass
    try:
        got = unforge_int(data)
    except Exception as e:  # noqa
        return False, f'rejected with {e!r}'
    return True, f'unforge_int({data.hex()}) = {got} although the encoding is not canonical ({why})'
