"""C11, deductive part: structural induction over Michelson types for
        T.from_micheline_value(v.to_micheline_value(mode)) == v          mode in readable / optimized / legacy_optimized
on the real ASTs of pytezos/michelson/types/*.py.

BASE CASES (P: all values symbolic): int, nat, mutez (0 <= v < 2^63), timestamp (all three modes, the whole integer range: the
RFC3339 window logic is interpreted, format_timestamp / optimize_timestamp are an assumed inverse pair with the precondition
"four-digit year" checked at every call), bool, unit, string (opaque ASCII text), bytes (symbolic bytes of symbolic length),
bls12_381_fr (0 <= v < field order; readable int / optimized 32 little-endian bytes), big_map by id; the base58 domain types are
C10's business (proved there on the same observation point).

INDUCTION STEP (components are OPAQUE values of OPAQUE component types; induction hypothesis = contract of the component type:
    A.from_micheline_value(x.to_micheline_value(m)) == x      for every value x of component type A
applied wherever the real code calls the component's methods):
    pair     right combs of n = 2..6 components (with / without annotated inner pairs), 3 modes            [S in n]
    option   None / Some x;      or   Left x / Right y
    list     k = 0..3 elements;  set  k = 0..3 strictly increasing elements;  map / big_map literal  k = 0..3 entries   [S in k]
    ticket   (ticketer address, content, amount)
The result must be the same constructor applied to the very same component values (object identity of the opaque leaves), of the
same class.  A component method called with a notation that is not the rendering of one of its own values yields a "mis-parsed"
marker, so any mix-up of components, order or layout fails the identity obligation.
"""
import z3
from vlib.pyvc import Engine, RaiseEx, Sym, Obj, SBytes, Z, ZB, Unsupported
from vlib.pyvc.engine import IntStr, HexOf
from vlib.pyvc.report import report, functions_interpreted
from vlib.pyvc.parallel import run_jobs, FakeEng

MODES = ('readable', 'optimized', 'legacy_optimized')
FR_ORDER = 52435875175126190479447740508185965837690552500527637822603658699938581184513


class F:
    __pyvc_symbolic__ = True

    def __init__(self, f):
        self.f = f

    def __pyvc_call__(self, eng, args, kwargs):
        return self.f(eng, args, kwargs)


class GLeaf:
    """opaque value of an opaque component type"""
    __pyvc_symbolic__ = True

    def __init__(self, name, ty, rank=None):
        self.name, self.ty, self.rank = name, ty, rank
        self.field_name = self.type_name = None

    def __repr__(self):
        return f'<{self.name}:{self.ty.name}>'

    def __pyvc_isinstance__(self, cs):
        from pytezos.michelson.types.base import MichelsonType
        from pytezos.michelson.types.pair import PairType
        return MichelsonType in cs and PairType not in cs

    def __pyvc_attr__(self, eng, name):
        if name == 'to_micheline_value':
            return F(lambda e, a, k: {'leaf': self.name, 'of': self.ty.name, 'mode': k.get('mode', a[0] if a else 'readable')})
        if name in ('field_name', 'type_name'):
            return None
        raise Unsupported(f'opaque value .{name}')

    def __pyvc_cmp__(self, eng, op, other, refl):
        import ast
        if not isinstance(other, GLeaf) or self.rank is None or other.rank is None:
            if isinstance(op, ast.Eq):
                return self is other
            if isinstance(op, ast.NotEq):
                return self is not other
            raise Unsupported('order of opaque values without ranks')
        a, b = (other.rank, self.rank) if refl else (self.rank, other.rank)
        a, b = Z(a), Z(b)
        return Sym({ast.Lt: a < b, ast.LtE: a <= b, ast.Gt: a > b, ast.GtE: a >= b, ast.Eq: a == b, ast.NotEq: a != b}[type(op)])

    def __pyvc_truth__(self, eng):
        # an opaque value may be falsy in Python (0, "", empty collection, False): code that tests truthiness instead of `is None` must
        # behave the same on both branches
        return eng.fork(z3.Bool(f'truthy_{self.name}'))

    def __pyvc_type__(self, eng):
        return self.ty


class GT:
    """opaque component type carrying the induction hypothesis"""
    __pyvc_symbolic__ = True

    def __init__(self, name, pool, comparable=True):
        self.name, self.pool = name, pool
        self.field_name = self.type_name = None
        self.prim, self.args = 'opaque', []
        self.mis = []

    def __repr__(self):
        return f'GT({self.name})'

    def __pyvc_issubclass__(self, cs):
        from pytezos.michelson.types.base import MichelsonType
        from pytezos.michelson.types.pair import PairType
        return MichelsonType in cs and PairType not in cs

    def _from(self, e, a, k):
        tok = a[-1]
        if isinstance(tok, dict) and tok.get('of') == self.name and tok.get('leaf') in self.pool and self.pool[tok['leaf']].ty is self:
            return self.pool[tok['leaf']]
        m = GLeaf(f'mis-parsed({str(tok)[:60]})', self)
        self.mis.append(m)
        return m

    def __pyvc_attr__(self, eng, name):
        if name == 'from_micheline_value':
            return F(self._from)
        if name in ('field_name', 'type_name'):
            return None
        if name == 'prim':
            return 'opaque'
        if name == 'args':
            return []
        if name == 'is_comparable':
            return F(lambda e, a, k: True)
        raise Unsupported(f'opaque type .{name}')


def mk(base, args, field_name=None):
    return type(base.__name__, (base,), dict(args=list(args), field_name=field_name, type_name=None))


def obj(cls, **f):
    o = Obj(cls)
    o.f.update(f)
    return o


def same(w, v):
    """structural identity of two typed values down to the opaque leaves (object identity)"""
    if isinstance(v, GLeaf):
        return w is v
    if v is None or isinstance(v, (int, str, bool)):
        return w == v and type(w) is type(v)
    if isinstance(v, (tuple, list)):
        return isinstance(w, (tuple, list)) and len(w) == len(v) and all(same(a, b) for a, b in zip(w, v))
    if isinstance(v, Obj):
        if not (isinstance(w, Obj) and w.cls is v.cls):
            return False
        keys = [k for k in v.f if k not in ('context',)]
        return all(k in w.f and same(w.f[k], v.f[k]) for k in keys)
    return w is v


def _call_rt(e, v, cls, mode, tag):
    try:
        r = e.call(e.getattr_(v, 'to_micheline_value'), [], dict(mode=mode))
    except RaiseEx as ex:
        e.check(f'{tag}::safety.to_micheline_value.no_exception[{type(ex.exc).__name__}]', z3.BoolVal(False))
        return None, None
    try:
        w = e.call(e.getattr_(cls, 'from_micheline_value'), [r], {})
    except RaiseEx as ex:
        e.check(f'{tag}::safety.from_micheline_value.no_exception[{type(ex.exc).__name__}]', z3.BoolVal(False))
        return r, None
    return r, w


# ------------------------------------------------------------------------------------------------- induction step
def h_pair(n, mode, annotate_inner):
    from pytezos.michelson.types import PairType
    tag = f'pair[n={n},{mode}{",annotated inner pairs" if annotate_inner else ""}]'

    def h(e: Engine):
        pool = {}
        tys = [GT(f'A{i}', pool) for i in range(n)]
        leaves = [GLeaf(f'x{i}', tys[i]) for i in range(n)]
        pool.update({x.name: x for x in leaves})

        def build(i, inner):
            if i == n - 2:
                cls = mk(PairType, [tys[i], tys[i + 1]], 'f' if inner and annotate_inner else None)
                return cls, obj(cls, items=(leaves[i], leaves[i + 1]))
            rc, rv = build(i + 1, True)
            cls = mk(PairType, [tys[i], rc], 'f' if inner and annotate_inner else None)
            return cls, obj(cls, items=(leaves[i], rv))
        cls, v = build(0, False)
        r, w = _call_rt(e, v, cls, mode, tag)
        if w is None:
            return
        e.check(f'{tag}::ensures.same_components_same_shape', z3.BoolVal(bool(same(w, v))))
    return h


def h_option(some, mode):
    from pytezos.michelson.types import OptionType
    tag = f'option[{"Some" if some else "None"},{mode}]'

    def h(e: Engine):
        pool = {}
        ta = GT('A', pool)
        x = GLeaf('x', ta)
        pool['x'] = x
        cls = mk(OptionType, [ta])
        v = obj(cls, item=x if some else None)
        r, w = _call_rt(e, v, cls, mode, tag)
        if w is None:
            return
        e.check(f'{tag}::ensures.same_variant_same_component', z3.BoolVal(bool(same(w, v))))
    return h


def h_or(left, mode):
    from pytezos.michelson.types import OrType
    from pytezos.michelson.types.base import Undefined
    tag = f'or[{"Left" if left else "Right"},{mode}]'

    def h(e: Engine):
        pool = {}
        ta, tb = GT('A', pool), GT('B', pool)
        x = GLeaf('x', ta if left else tb)
        pool['x'] = x
        cls = mk(OrType, [ta, tb])
        v = obj(cls, items=(x, Undefined) if left else (Undefined, x))
        r, w = _call_rt(e, v, cls, mode, tag)
        if w is None:
            return
        ok = isinstance(w, Obj) and w.cls is cls and len(w.f['items']) == 2 and \
            (w.f['items'][0] is x and w.f['items'][1] is Undefined if left else w.f['items'][1] is x and w.f['items'][0] is Undefined)
        e.check(f'{tag}::ensures.same_variant_same_component', z3.BoolVal(bool(ok)))
    return h


def h_seq(kind, k, mode):
    """list / set of k opaque elements (sets: type invariant = strictly increasing, C14)"""
    from pytezos.michelson.types import ListType, SetType
    tag = f'{kind}[k={k},{mode}]'

    def h(e: Engine):
        pool = {}
        ta = GT('A', pool)
        xs = [GLeaf(f'x{i}', ta, e.int(f'rank{i}')) for i in range(k)]
        pool.update({x.name: x for x in xs})
        if kind == 'set':
            for a, b in zip(xs, xs[1:]):
                e.assume(Z(a.rank) < Z(b.rank))
        cls = mk(ListType if kind == 'list' else SetType, [ta])
        v = obj(cls, items=list(xs))
        r, w = _call_rt(e, v, cls, mode, tag)
        if w is None:
            return
        e.check(f'{tag}::ensures.same_elements_same_order', z3.BoolVal(bool(same(w, v))))
    return h


def h_map(kind, k, mode):
    from pytezos.michelson.types import MapType, BigMapType
    tag = f'{kind}[k={k},{mode}]'

    def h(e: Engine):
        pool = {}
        ta, tb = GT('K', pool), GT('V', pool)
        ks = [GLeaf(f'k{i}', ta, e.int(f'rank{i}')) for i in range(k)]
        vs = [GLeaf(f'v{i}', tb) for i in range(k)]
        pool.update({x.name: x for x in ks + vs})
        for a, b in zip(ks, ks[1:]):
            e.assume(Z(a.rank) < Z(b.rank))
        if kind == 'map':
            cls = mk(MapType, [ta, tb])
            v = obj(cls, items=list(zip(ks, vs)))
            r, w = _call_rt(e, v, cls, mode, tag)
        else:
            cls = mk(BigMapType, [ta, tb])
            v = obj(cls, items=list(zip(ks, vs)), ptr=None, removed_keys=[], context=None)
            try:
                r = e.call(e.getattr_(v, 'to_micheline_value'), [], dict(mode=mode, lazy_diff=True))
                w = e.call(e.getattr_(cls, 'from_micheline_value'), [r], {})
            except RaiseEx as ex:
                e.check(f'{tag}::safety.no_exception[{type(ex.exc).__name__}]', z3.BoolVal(False))
                return
        if w is None:
            return
        items = w.f.get('items') if isinstance(w, Obj) else None
        ok = isinstance(w, Obj) and w.cls is cls and isinstance(items, list) and len(items) == k and \
            all(isinstance(it, tuple) and len(it) == 2 and it[0] is ks[i] and it[1] is vs[i] for i, it in enumerate(items))
        if kind == 'big_map':
            ok = ok and w.f.get('ptr') is None
        e.check(f'{tag}::ensures.same_entries_same_order', z3.BoolVal(bool(ok)))
    return h


def h_bigmap_ptr(mode):
    from pytezos.michelson.types import BigMapType
    tag = f'big_map[id,{mode}]'

    def h(e: Engine):
        pool = {}
        cls = mk(BigMapType, [GT('K', pool), GT('V', pool)])
        p = e.int('id', lo=0)
        v = obj(cls, items=[], ptr=p, removed_keys=[], context=None)
        r, w = _call_rt(e, v, cls, mode, tag)
        if w is None:
            return
        ok = isinstance(w, Obj) and w.cls is cls and w.f.get('items') == []
        e.check(f'{tag}::ensures.same_id', z3.And(z3.BoolVal(bool(ok)), Z(w.f.get('ptr')) == Z(p)) if ok and w.f.get('ptr') is not None else z3.BoolVal(False))
    return h


# ------------------------------------------------------------------------------------------------- base cases
def _leaf_cls(name):
    from pytezos.michelson import types as T
    return dict(int=T.IntType, nat=T.NatType, mutez=T.MutezType, timestamp=T.TimestampType, bool=T.BoolType, unit=T.UnitType,
                string=T.StringType, bytes=T.BytesType, bls12_381_fr=T.BLS12_381_FrType)[name]


class GText:
    """opaque ASCII text (Michelson strings are printable ASCII: len(s) == len(s.encode()))"""
    __pyvc_symbolic__ = True
    __pyvc_strlike__ = True

    def __init__(self, name, n):
        self.name, self.n = name, n

    def __pyvc_isinstance__(self, cs):
        return str in cs

    def __pyvc_len__(self, eng):
        return self.n

    def __pyvc_attr__(self, eng, name):
        if name == 'encode':
            return F(lambda e, a, k: _Enc(self))
        raise Unsupported(f'str.{name} on opaque text')


class _Enc:
    __pyvc_symbolic__ = True

    def __init__(self, of):
        self.of = of

    def __pyvc_len__(self, eng):
        return self.of.n

    def __pyvc_isinstance__(self, cs):
        return bytes in cs


class TsText:
    """format_timestamp(v): assumed inverse pair with optimize_timestamp on four-digit years"""
    __pyvc_symbolic__ = True
    __pyvc_strlike__ = True

    def __init__(self, v):
        self.v = v

    def __pyvc_isinstance__(self, cs):
        return str in cs


def h_leaf(name, mode):
    tag = f'{name}[{mode}]'

    def h(e: Engine):
        from pytezos.michelson.types import domain as D
        cls = _leaf_cls(name)
        calls = []
        if name == 'timestamp':
            def fmt(eng, a, k):
                (v,) = a
                calls.append(v)
                eng.check(f'{tag}::requires.format_timestamp(four-digit year: 1000-01-01 <= t <= 9999-12-31)',
                          z3.And(Z(v) >= -30610224000, Z(v) <= 253402300799))
                return TsText(v)

            def opt(eng, a, k):
                (s,) = a
                if isinstance(s, TsText):
                    return s.v
                raise Unsupported('optimize_timestamp of a non-timestamp text')
            e.stub(D.format_timestamp, fmt)
            e.stub(D.optimize_timestamp, opt)
        if name in ('int', 'timestamp'):
            val = e.int('v')
        elif name == 'nat':
            val = e.int('v', lo=0)
        elif name == 'mutez':
            val = e.int('v', lo=0)
            e.assume(Z(val) < 2 ** 63)
        elif name == 'bls12_381_fr':
            val = e.int('v', lo=0)
            e.assume(Z(val) < FR_ORDER)          # type invariant: from_value reduces modulo the field order
        elif name == 'bool':
            val = e.bool('v')
        elif name == 'string':
            val = GText('s', e.int('len', lo=0))
        elif name == 'bytes':
            val = e.bytes('b')
        else:
            val = None
        v = obj(cls, value=val) if name != 'unit' else obj(cls)
        r, w = _call_rt(e, v, cls, mode, tag)
        if w is None:
            return
        okc = isinstance(w, Obj) and w.cls is cls or isinstance(w, cls)
        e.check(f'{tag}::ensures.result_is_of_the_type', z3.BoolVal(bool(okc)))
        if name == 'unit' or not okc:
            return
        got = w.f.get('value') if isinstance(w, Obj) else w.value
        if name == 'string':
            e.check(f'{tag}::ensures.same_text', z3.BoolVal(got is val))
        elif name == 'bytes':
            eq = e.bytes_eq(got, val)
            e.check(f'{tag}::ensures.same_bytes', ZB(eq) if isinstance(eq, Sym) else z3.BoolVal(bool(eq)))
        elif name == 'bool':
            e.check(f'{tag}::ensures.same_value', ZB(got) == ZB(val))
        else:
            e.check(f'{tag}::ensures.same_value', Z(got) == Z(val))
        if name == 'timestamp' and mode == 'readable':
            # Tezos: string inside the window, integer outside
            isstr = isinstance(r, dict) and list(r) == ['string']
            isint = isinstance(r, dict) and list(r) == ['int']
            inwin = z3.And(Z(val) >= -30610224000, Z(val) <= 253402300799)
            e.check(f'{tag}::ensures.rendered_as_string_iff_four_digit_year_else_int',
                    z3.And(z3.BoolVal(isstr or isint), inwin == z3.BoolVal(isstr)))
        if name == 'timestamp' and mode != 'readable':
            e.check(f'{tag}::ensures.rendered_as_int', z3.BoolVal(isinstance(r, dict) and list(r) == ['int'] and not calls))
    return h


def h_ticket(mode):
    from pytezos.michelson.types import TicketType
    tag = f'ticket[{mode}]'

    def h(e: Engine):
        from vlib.pyvc.ghoststr import GB58, install, row_of
        install(e)
        pool = {}
        ta = GT('A', pool)
        x = GLeaf('x', ta)
        pool['x'] = x
        cls = mk(TicketType, [ta])
        tk = GB58(row_of(b'KT1', 20), e.bytes('ticketer', 20))
        amount = e.int('amount', lo=0)
        v = obj(cls, ticketer=tk, item=x, amount=amount)
        r, w = _call_rt(e, v, cls, mode, tag)
        if w is None:
            return
        ok = isinstance(w, Obj) and w.cls is cls and w.f.get('item') is x and isinstance(w.f.get('ticketer'), GB58)
        e.check(f'{tag}::ensures.same_ticketer_content_amount',
                z3.And(tk.same(e, w.f['ticketer']), Z(w.f['amount']) == Z(amount)) if ok else z3.BoolVal(False))
    return h


def job(what, *a):
    return dict(pair=h_pair, option=h_option, **{'or': h_or}, seq=h_seq, map=h_map, bigmap_ptr=h_bigmap_ptr, leaf=h_leaf, ticket=h_ticket)[what](*a)


def specs(thorough):
    out = []
    for mode in MODES:
        for n in range(2, 8 if thorough else 7):
            out.append(('pair', n, mode, False))
            if n > 2:
                out.append(('pair', n, mode, True))
        for b in (False, True):
            out.append(('option', b, mode))
            out.append(('or', b, mode))
        for k in range(0, 5 if thorough else 4):
            out.append(('seq', 'list', k, mode))
            out.append(('seq', 'set', k, mode))
            out.append(('map', 'map', k, mode))
            out.append(('map', 'big_map', k, mode))
        out.append(('bigmap_ptr', mode))
        out.append(('ticket', mode))
        for name in ('int', 'nat', 'mutez', 'timestamp', 'bool', 'unit', 'string', 'bytes', 'bls12_381_fr'):
            out.append(('leaf', name, mode))
    return out


# ------------------------------------------------------------------------------------------------- native replay
def native(case):
    s = case.get('spec')
    if not s or s[0] != 'leaf':
        return False, 'induction step over opaque components: concrete replays come from the bounded part (props.C11)'
    name, mode = s[1], s[2]
    cls = _leaf_cls(name)
    val = case.get('v')
    if name == 'bytes':
        val = case.get('b', b'')
    if name == 'string':
        val = 'a' * int(case.get('len', 0))
    if name == 'unit':
        v = cls()
    else:
        v = cls(val)
    try:
        w = cls.from_micheline_value(v.to_micheline_value(mode))
    except Exception as ex:   # noqa
        return True, f'{name} {val!r} mode={mode}: raised {ex!r}'
    if name != 'unit' and w.value != val:
        return True, f'{name} {val!r} mode={mode}: read back as {w.value!r}'
    if name == 'timestamp' and mode == 'readable':
        r = v.to_micheline_value(mode)
        inwin = -30610224000 <= val <= 253402300799
        if ('string' in r) != inwin:
            return True, f'timestamp {val} rendered as {r}'
    return False, 'ok'


def replay(case):
    return native(case)


def run_P(ck):
    from pytezos.michelson import types as T
    from pytezos.michelson import micheline as M
    for c in (T.PairType, T.OptionType, T.OrType, T.ListType, T.SetType, T.MapType, T.BigMapType, T.TicketType, T.IntType, T.NatType, T.MutezType,
              T.TimestampType, T.BoolType, T.UnitType, T.StringType, T.BytesType, T.BLS12_381_FrType):
        for name in ('from_micheline_value', 'to_micheline_value'):
            ck.function(getattr(c, name))
    ck.function(M.parse_micheline_value)
    ck.function(M.parse_micheline_literal)
    ck.assume('structural induction over the type: component types and values are opaque and obey the round-trip contract (IH); '
              'comb length n <= 6 (7 thorough) and collection size k <= 3 (4 thorough) in the step (S in n and k, unbounded in depth and in the values)')
    ck.assume('str(int)/int(str) and bytes.hex/bytes.fromhex are inverse pairs; format_timestamp/optimize_timestamp are an inverse pair on four-digit-year '
              'instants (external datetime code: exercised by the bounded part); Michelson strings are ASCII (len(s) == len(s.encode())); sets and map '
              'keys satisfy their type invariant (strictly increasing: C14)')
    ck.trust('PyVC encoding of the Python subset (DESIGN.md 3.2)')
    sp = specs(ck.thorough())
    ck.bound('S.comb_length', 7 if ck.thorough() else 6)
    ck.bound('S.collection_size', 4 if ck.thorough() else 3)
    jobs = [(repr(s), 'props.C11_P:job', s, dict(max_paths=4000)) for s in sp]
    for res, s in zip(run_jobs(jobs), sp):
        if 'error' in res:
            raise RuntimeError(f"harness {res['label']} crashed:\n{res['error']}")
        eng = FakeEng(res)

        def nat(cex, s=s):
            c = dict(cex or {})
            c['spec'] = list(s)
            cex.clear()
            cex.update(c)
            return native(c)
        report(ck, eng, [('', 'props.C11_P:replay', nat, None)], kind='P' if s[0] in ('leaf', 'option', 'or', 'bigmap_ptr', 'ticket') else 'S')
        functions_interpreted(ck, eng)
