"""C29 (R part) — Chain-history search reports exactly the state changes.

History: a function get: level -> value on [last, head] that never returns to an earlier value (k change points
c1 < ... < ck in (last, head], value i on [c_i, c_{i+1})).  equals is ==.  changes(h) = [(c_i, value_i)] ascending.

Contracts on pytezos.rpc.search:
  find_state_changes(head, last, get, equals, step)               step >= 1
      ensures   list(result) == changes(h)        (each change level with the new value, increasing, nothing else)
  find_state_change(head, last, get, equals, pred_value)
      requires  pred_value == get(last)  and  get(head) != get(last)
      ensures   result == (c1, get(c1))          (first level after `last` whose value differs from the start value)
  walk_state_change_interval(head, last, get, equals, head_value, last_value)
      requires  head_value == get(head), last_value == get(last)
      ensures   list(result) == changes(h)
  find_state_change_intervals(head, last, get, equals, step)
      ensures   every yielded (hi, hi_value, lo, lo_value) has last <= lo < hi <= head, get(lo) == lo_value,
                get(hi) == hi_value, lo_value != hi_value; the intervals (lo, hi] are pairwise disjoint and every
                change level lies in one of them (order of the intervals is not demanded here; the order of the final
                result is demanded on find_state_changes)
  none of them raises, and `get` is only called on levels in [last, head].
"""
from __future__ import annotations
import itertools
import multiprocessing as mp
from vlib.runner import Check

REPLAY = 'props.C29_R:replay'
KINDS = ('int', 'pair', 'str', 'none-first', 'dict', 'zero-first', 'falsy-later', 'list')
# 'zero-first' (a counter / vote count starting at 0), 'falsy-later' (7, 0, '', None: falsy values that are NOT the first one)
# and 'list' ([] first: an empty ballot list) were added after the audit of over-specific inputs: before, the only falsy value
# any history contained was None, and only as the first value.


BUDGET_FACTOR = 40      # a correct search reads O(range/step + k log range) levels; 40 x (range + 5) reads is far beyond it


class _Runaway(Exception):
    """The search read the history more often than any terminating strategy needs (unbounded loop / recursion)."""


def mk_value(kind, i):
    if kind == 'int':
        return 10 + i
    if kind == 'pair':
        return (i, 'v')              # a 2-tuple: '%s at head %s' % value happens to format
    if kind == 'str':
        return f'value{i}'
    if kind == 'none-first':
        return None if i == 0 else i
    if kind == 'dict':
        return {'votes': i}
    if kind == 'zero-first':
        return i
    if kind == 'falsy-later':
        return (7, 0, '', None)[i]
    if kind == 'list':
        return list(range(i))
    raise ValueError(kind)


def history(last, head, changes, kind):
    """-> get(level), expected change list"""
    cps = sorted(changes)
    limit = BUDGET_FACTOR * (head - last + 5)
    budget = [limit]

    def get(level):
        budget[0] -= 1
        if budget[0] < 0:
            raise _Runaway(f'get called more than {BUDGET_FACTOR} x (range + 5) times')
        if not (last <= level <= head):
            raise IndexError(f'get({level}) outside [{last}, {head}]')
        return mk_value(kind, sum(1 for c in cps if c <= level))

    def reset():
        budget[0] = limit
    get.reset = reset
    return get, [(c, mk_value(kind, i + 1)) for i, c in enumerate(cps)]


def _eq(a, b):
    return a == b


def eval_case(case):
    """-> list of (clause, info, wclass)"""
    from pytezos.rpc import search as S
    last, head, changes, kind, step = case['last'], case['head'], case['changes'], case['kind'], case['step']
    get, want = history(last, head, changes, kind)
    fails = []

    def guard(name, thunk):
        get.reset()                      # every call under contract gets its own read budget
        try:
            return True, thunk()
        except IndexError as x:
            fails.append((f'{name}::requires_of_get.level_in_range', str(x), f'{name}: get called outside [last, head]'))
        except Exception as x:  # noqa
            if isinstance(x, _Runaway):
                fails.append((f'{name}::termination.bounded_number_of_reads', str(x), f'{name}: does not terminate (read budget exhausted)'))
                return False, None
            w = f'{name}: {type(x).__name__}'
            if isinstance(x, TypeError) and 'format' in str(x) or 'not enough arguments' in str(x) or 'not all arguments' in str(x):
                w = f'{name}: TypeError while formatting a log line'
            fails.append((f'{name}::safety.no_exception', f'raised {type(x).__name__}: {x}', w))
        return False, None

    fn = case.get('fn', 'all')
    if fn in ('all', 'find_state_changes'):
        if step is None:      # the caller relies on the default sampling step (as every BlockSliceQuery helper does)
            ok, got = guard('find_state_changes', lambda: list(S.find_state_changes(head, last, get, _eq)))
        else:
            ok, got = guard('find_state_changes', lambda: list(S.find_state_changes(head, last, get, _eq, step)))
        if ok and got != want:
            if sorted(got, key=lambda t: t[0]) == want:
                w = 'find_state_changes: all changes reported but not in increasing order'
            elif all(g in want for g in got):
                st = step or 60
                lowest = min(range(head - st, last, -st), default=head)      # lowest level the stride loop samples
                missed = [c for c, _ in want if c not in [g[0] for g in got]]
                w = ('find_state_changes: changes at or below the lowest sampled level missed (sampling stops before last)'
                     if all(c <= lowest for c in missed) else 'find_state_changes: changes missed')
            else:
                w = 'find_state_changes: wrong levels or values reported'
            fails.append(('find_state_changes::ensures.exactly_the_changes_increasing', f'returned {got!r}, expected {want!r}', w))
    if step is None:
        return fails
    if fn in ('all', 'find_state_change') and want and step == 1:
        ok, got = guard('find_state_change', lambda: S.find_state_change(head, last, get, _eq, pred_value=get(last)))
        if ok and tuple(got) != want[0]:
            fails.append(('find_state_change::ensures.first_change', f'returned {got!r}, expected {want[0]!r}',
                          'find_state_change: not the first change'))
    if fn in ('all', 'walk_state_change_interval') and step == 1:
        ok, got = guard('walk_state_change_interval',
                        lambda: list(S.walk_state_change_interval(head, last, get, _eq, head_value=get(head), last_value=get(last))))
        if ok and got != want:
            fails.append(('walk_state_change_interval::ensures.all_changes_increasing', f'returned {got!r}, expected {want!r}',
                          'walk_state_change_interval: wrong change list'))
    if fn in ('all', 'find_state_change_intervals'):
        ok, got = guard('find_state_change_intervals', lambda: list(S.find_state_change_intervals(head, last, get, _eq, step)))
        if ok:
            bad = None
            covered = set()
            for iv in got:
                if len(iv) != 4:
                    bad = f'malformed interval {iv!r}'
                    break
                hi, hv, lo, lv = iv
                if not (last <= lo < hi <= head) or get(lo) != lv or get(hi) != hv or lv == hv:
                    bad = f'interval {iv!r} has wrong bounds or endpoint values'
                    break
                rng = set(range(lo + 1, hi + 1))
                if rng & covered:
                    bad = f'interval {iv!r} overlaps another one'
                    break
                covered |= rng
            if bad:
                fails.append(('find_state_change_intervals::ensures.well_formed_disjoint', f'{bad}; all: {got!r}',
                              'find_state_change_intervals: malformed interval'))
            else:
                miss = [c for c, _ in want if c not in covered]
                if miss:
                    fails.append(('find_state_change_intervals::ensures.cover_every_change',
                                  f'change levels {miss} lie in no interval of {got!r}',
                                  'find_state_change_intervals: change near `last` not covered (sampling stops before last)'
                                  if all(c - last <= step for c in miss) else 'find_state_change_intervals: change not covered'))
    return fails


def replay(case):
    fails = eval_case(case)
    if case.get('clause'):
        fails = [f for f in fails if f[0] == case['clause']] or fails
    return bool(fails), ('; '.join(f'{c}: {i}' for c, i, _ in fails[:2]) or f'all search contracts hold on {case}')


def _row(args):
    """all change sets with <= 3 points and all steps for one (last, head, kind)"""
    last, head, kind, max_cp = args
    n = 0
    classes = set()
    fails = {}
    runaway = 0
    R = head - last
    for k in range(0, min(max_cp, R) + 1):
        for cps in itertools.combinations(range(last + 1, head + 1), k):
            for step in range(1, R + 2):
                case = dict(last=last, head=head, changes=list(cps), kind=kind, step=step)
                n += 1
                near = bool(cps) and (cps[0] - last) <= step
                classes.add(f'R={R} k={k} step={"1" if step == 1 else (">R" if step > R else ("=R" if step == R else "mid"))} '
                            f'first-change-within-step={near} kind={kind}')
                for clause, info, w in eval_case(case):
                    key = (clause, w)
                    if key not in fails:
                        fails[key] = dict(case={**case, 'clause': clause}, info=info, count=0)
                    fails[key]['count'] += 1
                    if w.endswith('RecursionError') or 'does not terminate' in w:
                        runaway += 1
                if runaway >= 3:        # unbounded recursion is very slow to hit; a few witnesses are enough
                    return n, classes, fails
    return n, classes, fails


def _row_default(args):
    """find_state_changes called WITHOUT a step (the way find_upvotes / find_ballots call it) on ranges around multiples of
    the documented default of 60: no change, every single change level, and pairs of change levels taken from the levels next
    to the range ends and to the sampled levels"""
    last, head, kind = args
    n, classes, fails = 0, set(), {}
    R = head - last
    near = sorted({l for b in (last, head, head - 60, head - 120) for l in (b - 1, b, b + 1, b + 2) if last < l <= head})
    sets = [()] + [(c,) for c in range(last + 1, head + 1)] + list(itertools.combinations(near, 2)) + list(itertools.combinations(near[:6], 3))
    for cps in sets:
        case = dict(last=last, head=head, changes=list(cps), kind=kind, step=None, fn='find_state_changes')
        n += 1
        classes.add(f'R={R} k={len(cps)} step=default kind={kind}')
        for clause, info, w in eval_case(case):
            key = (clause, w)
            if key not in fails:
                fails[key] = dict(case={**case, 'clause': clause}, info=info, count=0)
            fails[key]['count'] += 1
    return n, classes, fails


def _job(j):
    return _row_default(j[1:]) if j[0] == 'default' else _row(j[1:])


def run_R(ck: Check):
    from pytezos.rpc import search as S
    for f in (S.find_state_changes, S.find_state_change, S.walk_state_change_interval, S.find_state_change_intervals):
        ck.function(f)
    thorough = ck.thorough()
    RMAX = 40 if thorough else 14
    ck.bound('range', f'0..{RMAX} levels above `last` (0 = the one-level range), last in {{0, 7}}; default step: ranges 1, 59, 60, 61, 121, 130')
    ck.bound('change_points', 3)
    ck.bound('steps', '1..range+1, and the default (argument omitted)')
    ck.assume('histories never return to an earlier value (precondition of the property); equals is ==')
    ck.assume('value kinds: int, 2-tuple, str, None-then-int, dict, 0-then-int, falsy values after the first (0, "", None), lists starting with [] '
              '(the helpers are used with counters, vote lists and None)')
    ck.rule('R: every history = every set of <= 3 change levels in (last, head], for every range length, every step 1..range+1, '
            'value kinds; class = (range, #changes, step class, first change within one step of last, value kind)')
    jobs = []
    for R in range(0, RMAX + 1):
        for last in (0, 7):
            kinds = KINDS if (R <= 8 or thorough and R <= 16) else ('int', 'pair')
            if last == 7 and R > 10 and not thorough:
                continue
            for kind in kinds:
                jobs.append(('steps', last, last + R, kind, 3))
    for R in (1, 59, 60, 61, 121, 130):
        for kind in ('int', 'zero-first'):
            jobs.append(('default', 3, 3 + R, kind))
    jobs.sort(key=lambda j: -(j[2] - j[1]))
    agg = {}
    with mp.get_context('fork').Pool(14 if thorough else 6) as pool:
        for n, classes, fails in pool.imap_unordered(_job, jobs, chunksize=1):
            ck.evaluations += n
            ck.classes.update(classes)
            for key, f in fails.items():
                if key not in agg:
                    agg[key] = f
                else:
                    agg[key]['count'] += f['count']
                    a, b = f['case'], agg[key]['case']
                    if (a['head'] - a['last'], len(a['changes']), a['step'] or 0, KINDS.index(a['kind']), a['last'], a['changes']) < \
                            (b['head'] - b['last'], len(b['changes']), b['step'] or 0, KINDS.index(b['kind']), b['last'], b['changes']):
                        agg[key]['case'], agg[key]['info'] = a, f['info']
    ck.samples.append(dict(last=0, head=9, changes=[2, 3, 8], kind='int', step=4))
    for (clause, w), f in sorted(agg.items()):
        ck.violation(clause, f"{f['count']} case(s); smallest: {f['case']}: {f['info']}", case=f['case'], replay=REPLAY, wclass=w)
    ck.exhaustive = True
