"""C03, bounded run-time part: domain types (address, key_hash, key, signature, chain_id, timestamp…) on real base58
values, and ordered collections using the same relation.

Contract on the real `compare` (pytezos.michelson.instructions.compare) for two values of a domain type:
  * total-order laws (demanded for every pair/triple): compare(a,a)==0, compare(a,b) == -compare(b,a), transitivity;
  * result == Tezos order where the order is certain offline:
      address : implicit (tz1<tz2<tz3<tz4, then hash bytes) < originated (KT1, hash bytes) < smart rollup (sr1);
                equal addresses: named entrypoints in string order (default-vs-named is NOT demanded: uncertain offline)
      key_hash: curve (tz1<tz2<tz3<tz4) then hash bytes
      key     : curve (edpk<sppk<p2pk<BLpk); within edpk/sppk/BLpk by key bytes (the tie-break of P-256 keys is NOT demanded)
      signature: by decoded bytes, whatever the base58 notation (sig/edsig/spsig/p2sig/BLsig); chain_id: by decoded bytes
  * sets and map/big_map keys: a literal is accepted iff strictly increasing for the same relation.
"""
import itertools, random
from vlib.runner import Check

RANK_ADDR = {'tz1': (0, 0), 'tz2': (0, 1), 'tz3': (0, 2), 'tz4': (0, 3), 'KT1': (1, 0), 'sr1': (3, 0)}
RANK_KEY = {'edpk': 0, 'sppk': 1, 'p2pk': 2, 'BLpk': 3}


def b58(kind: bytes, payload: bytes) -> str:
    from pytezos.crypto.encoding import base58_encode
    return base58_encode(payload, kind).decode()


def payloads(n, rng, k):
    out = [bytes(n), b'\xff' * n, b'\x00' * (n - 1) + b'\x01', b'\x01' + b'\x00' * (n - 1), b'\x7f' + b'\xff' * (n - 1), b'\x80' + bytes(n - 1)]
    out += [bytes(rng.getrandbits(8) for _ in range(n)) for _ in range(k)]
    return out


def spec_key(tname, v):
    """sort key where the Tezos order is certain, else None"""
    from pytezos.crypto.encoding import base58_decode
    if tname == 'address':
        addr, _, ep = v.partition('%')
        pre = addr[:3]
        return (RANK_ADDR[pre], base58_decode(addr.encode()), ep)
    if tname == 'key_hash':
        return (RANK_ADDR[v[:3]], base58_decode(v.encode()))
    if tname == 'key':
        return (RANK_KEY[v[:4]], base58_decode(v.encode()))
    if tname in ('signature', 'chain_id'):
        return ('', base58_decode(v.encode()))       # signatures compare as bytes whatever their base58 notation
    raise KeyError(tname)


def demanded(tname, a, b):
    """is the relative order of a and b certain offline?"""
    if tname == 'address':
        ka, kb = spec_key(tname, a), spec_key(tname, b)
        if ka[:2] == kb[:2] and (ka[2] in ('', 'default') or kb[2] in ('', 'default')) and ka[2] != kb[2]:
            return False
        return True
    if tname == 'key':
        return not (a[:4] == 'p2pk' and b[:4] == 'p2pk')
    return True


def values(tname, rng, k):
    out = []
    if tname == 'address':
        for kind in (b'tz1', b'tz2', b'tz3', b'tz4', b'KT1', b'sr1'):
            for p in payloads(20, rng, k)[:5 + k // 2]:
                out.append(b58(kind, p))
        base = out[0], out[-1], b58(b'KT1', b'\x11' * 20)
        for a in base:
            for ep in ('a', 'b', 'default_', 'transfer', 'z'):
                out.append(f'{a}%{ep}')
    elif tname == 'key_hash':
        for kind in (b'tz1', b'tz2', b'tz3', b'tz4'):
            for p in payloads(20, rng, k)[:6 + k // 2]:
                out.append(b58(kind, p))
    elif tname == 'key':
        for kind, n in ((b'edpk', 32), (b'sppk', 33), (b'p2pk', 33), (b'BLpk', 48)):
            ps = payloads(n, rng, k)[:6 + k // 2]
            if n == 33:     # compressed points: parity byte 02/03 then x; include pairs differing only in the parity byte
                ps = [bytes([2 + (i % 2)]) + p[1:] for i, p in enumerate(ps)] + [b'\x02' + b'\x33' * 32, b'\x03' + b'\x33' * 32]
            out += [b58(kind, p) for p in ps]
    elif tname == 'signature':
        for kind, n in ((b'sig', 64), (b'edsig', 64), (b'spsig', 64), (b'p2sig', 64), (b'BLsig', 96)):
            out += [b58(kind, p) for p in payloads(n, rng, k)[:4 + k // 3]]
    elif tname == 'chain_id':
        out += [b58(b'Net', p) for p in payloads(4, rng, k)[:8 + k]]
    return out


def _T(tname):
    from pytezos.michelson import types as T
    return dict(address=T.AddressType, key_hash=T.KeyHashType, key=T.KeyType, signature=T.SignatureType, chain_id=T.ChainIdType)[tname]


def cmp_real(tname, a, b):
    from pytezos.michelson.instructions.compare import compare
    Ty = _T(tname)
    return compare(Ty.from_value(a), Ty.from_value(b))


def check_pair(tname, a, b):
    """-> (clause, info) or None"""
    try:
        ab, ba, aa = cmp_real(tname, a, b), cmp_real(tname, b, a), cmp_real(tname, a, a)
    except Exception as ex:   # noqa
        return 'safety.no_exception', f'compare({a}, {b}) at {tname} raised {ex!r}'
    if aa != 0:
        return 'law.reflexive', f'compare({a}, {a}) = {aa}'
    if ab != -ba:
        return 'law.antisymmetric', f'compare({a}, {b}) = {ab} but compare({b}, {a}) = {ba}'
    if (ab == 0) != (a == b or (tname == 'signature' and spec_key(tname, a) == spec_key(tname, b)) or (tname == 'address' and spec_key(tname, a)[:2] == spec_key(tname, b)[:2]
                                and {spec_key(tname, a)[2], spec_key(tname, b)[2]} <= {'', 'default'})):
        return 'law.equal_iff_same', f'compare({a}, {b}) = {ab}'
    if demanded(tname, a, b):
        ka, kb = spec_key(tname, a), spec_key(tname, b)
        want = -1 if ka < kb else 0 if ka == kb else 1
        if ab != want:
            return 'ensures.tezos_order', f'COMPARE {a} {b} at {tname} = {ab}; Tezos order = {want}'
    return None


def wclass(tname, clause, a, b):
    def k(v):
        return v[:4] if tname in ('key', 'signature') else v[:3] + ('%ep' if '%' in v else '')
    return f'{tname}:{clause}:{k(a)}~{k(b)}'


def replay(case):
    if case.get('kind') == 'pair':
        r = check_pair(case['type'], case['a'], case['b'])
        return r is not None, (r[1] if r else 'ok')
    if case.get('kind') == 'triple':
        t = case['type']
        ab, bc, ac = cmp_real(t, case['a'], case['b']), cmp_real(t, case['b'], case['c']), cmp_real(t, case['a'], case['c'])
        bad = ab <= 0 and bc <= 0 and ac > 0
        return bad, f'compare(a,b)={ab}, compare(b,c)={bc}, compare(a,c)={ac} for {case["a"]}, {case["b"]}, {case["c"]}'
    if case.get('kind') == 'literal':
        return check_literal(case)[0], check_literal(case)[1]
    return False, 'unknown case'


def check_literal(case):
    """a set literal of the given type with elements in the given order is accepted iff strictly increasing (spec order)"""
    from pytezos.michelson.types.base import MichelsonType
    texpr, elems, sorted_strict = case['type_expr'], case['elems'], case['sorted']
    coll = case.get('collection', 'set')
    if coll == 'set':
        ST = MichelsonType.match({'prim': 'set', 'args': [texpr]})
        lit = elems
    else:       # map / big_map keyed by the elements
        ST = MichelsonType.match({'prim': coll, 'args': [texpr, {'prim': 'nat'}]})
        lit = [{'prim': 'Elt', 'args': [k, {'int': str(i)}]} for i, k in enumerate(elems)]
    try:
        ST.from_micheline_value(lit)
        ok = True
    except Exception:   # noqa
        ok = False
    return ok != sorted_strict, f'{coll} literal with keys {elems} of {texpr}: accepted={ok}, strictly sorted by the Michelson order={sorted_strict}'


def run_R(ck: Check):
    from pytezos.michelson.instructions import compare as C
    from pytezos.michelson import types as T
    for f in (T.AddressType.__lt__, T.KeyType.__lt__, T.StringType.__lt__, C.compare):
        ck.function(f)
    ck.assume('base58 strings of one kind and length order like their decoded numbers (base58 alphabet is ASCII-increasing)')
    ck.assume('not demanded (uncertain offline): default-vs-named entrypoint order, tie-break of P-256 keys')
    rng = random.Random(ck.seed + 77)
    k = 12 if ck.thorough() else 4
    ck.rule('R: domain types × boundary/random payloads per kind: all ordered pairs (laws + Tezos order where certain), sampled triples '
            '(transitivity); set literals of composite/domain element types in sorted / swapped / duplicate order; class=(type, kinds, clause)')
    for tname in ('address', 'key_hash', 'key', 'signature', 'chain_id'):
        vals = values(tname, rng, k)
        reported = set()
        for a, b in itertools.product(vals, repeat=2):
            r = check_pair(tname, a, b)
            ck.evaluate(wclass(tname, 'pair', a, b), sample=dict(type=tname, a=a, b=b) if a != b and len(ck.samples) < 4 else None)
            if r is not None:
                w = wclass(tname, r[0], a, b)
                if w not in reported:
                    reported.add(w)
                    ck.violation(f'compare[{tname}]::{r[0]}', r[1], case=dict(kind='pair', type=tname, a=a, b=b), replay='props.C03_R:replay', wclass=w)
        tri = list(itertools.permutations(vals[:: max(1, len(vals) // (14 if ck.thorough() else 9))], 3))
        for a, b, c in tri:
            try:
                ab, bc, ac = cmp_real(tname, a, b), cmp_real(tname, b, c), cmp_real(tname, a, c)
            except Exception:   # noqa  already reported by the pair check
                continue
            ck.evaluate((tname, 'triple'))
            if ab <= 0 and bc <= 0 and ac > 0:
                w = wclass(tname, 'law.transitive', a, c)
                if w not in reported:
                    reported.add(w)
                    ck.violation(f'compare[{tname}]::law.transitive', f'a<=b<=c but a>c: {a}, {b}, {c}',
                                 case=dict(kind='triple', type=tname, a=a, b=b, c=c), replay='props.C03_R:replay', wclass=w)
    # ordered collections use the same relation
    lits = []
    P = lambda a, b: {'prim': 'Pair', 'args': [a, b]}   # noqa
    I = lambda n: {'int': str(n)}                         # noqa
    S = lambda s: {'string': s}                           # noqa
    pair_t = {'prim': 'pair', 'args': [{'prim': 'int'}, {'prim': 'int'}]}
    pairs_sorted = [P(I(1), I(5)), P(I(2), I(3)), P(I(2), I(4))]
    opt_t = {'prim': 'option', 'args': [{'prim': 'int'}]}
    opts_sorted = [{'prim': 'None'}, {'prim': 'Some', 'args': [I(-1)]}, {'prim': 'Some', 'args': [I(7)]}]
    or_t = {'prim': 'or', 'args': [{'prim': 'int'}, {'prim': 'string'}]}
    ors_sorted = [{'prim': 'Left', 'args': [I(9)]}, {'prim': 'Right', 'args': [S('a')]}, {'prim': 'Right', 'args': [S('b')]}]
    kh = sorted([b58(b'tz1', b'\xff' * 20), b58(b'tz2', bytes(20)), b58(b'tz3', b'\x01' * 20)], key=lambda v: spec_key('key_hash', v))
    addr = sorted([b58(b'tz1', b'\xee' * 20), b58(b'KT1', bytes(20)), b58(b'sr1', b'\x01' * 20), b58(b'tz4', bytes(20))], key=lambda v: spec_key('address', v))
    for texpr, srt in ((pair_t, pairs_sorted), (opt_t, opts_sorted), (or_t, ors_sorted), ({'prim': 'key_hash'}, [S(x) for x in kh]),
                       ({'prim': 'address'}, [S(x) for x in addr]), ({'prim': 'unit'}, [{'prim': 'Unit'}])):
        perms = list(itertools.permutations(srt)) if len(srt) <= 3 else [tuple(srt), tuple(reversed(srt)), (srt[1], srt[0], srt[2], srt[3]), (srt[0], srt[2], srt[1], srt[3])]
        for perm in perms:
            lits.append(dict(kind='literal', type_expr=texpr, elems=list(perm), sorted=list(perm) == srt))
        if len(srt) >= 2:
            lits.append(dict(kind='literal', type_expr=texpr, elems=[srt[0], srt[0], srt[1]], sorted=False))
    for c0 in lits:
        for coll in ('set', 'map', 'big_map'):
            c = dict(c0, collection=coll)
            bad, info = check_literal(c)
            ck.evaluate(('literal', coll, c['type_expr']['prim'], c['sorted']))
            if bad:
                dup = len(c['elems']) != len({repr(x) for x in c['elems']})
                ck.violation(f'{coll}_literal[{c["type_expr"]["prim"]}]::accepted_iff_strictly_sorted', info, case=c, replay='props.C03_R:replay',
                             wclass=f'literal:{coll}:{c["type_expr"]["prim"]}:{"sorted" if c["sorted"] else "duplicate" if dup else "unsorted"}')
