"""C26, deductive part: `RpcNode.request` on the real AST over a SYMBOLIC response sequence.

Externals by contract (ghost-recording): `requests.request` returns the next response of the sequence (any status
code, any transient verdict) OR fails without a response (ConnectionError / Timeout, any attempt), `sleep(d)` records d,
`_is_transient_response(res)` returns the response's ghost verdict (its own definition is checked below over body shapes and
in the bounded part C26_R), `RpcError.from_response(res)` returns an error tagged with the response.
`range(TRANSIENT_RETRY_ATTEMPTS)` is a constant bound, so unrolling is complete.
Two scenarios (the property quantifies over requests, not over fresh node objects):
   fresh   a new RpcNode; the HTTP method is a ghost string (a comparison with a literal forks), no request kwargs
   reused  the SAME RpcNode object has already served a retried success and a request that exhausted the attempt limit
           (delay at its cap, RpcError raised); then a POST with params / json / timeout kwargs
Obligations (all status codes, all verdicts, both scenarios):
   request i+1 is sent  <=>  attempt i produced a response with status >= 500 that is transient, and i < 5
   at most 6 requests; the delays are 0.25, 0.5, 1.0, 2.0, 2.0 (non-decreasing, capped at 2.0), one sleep per retry
       (numbers written here, not read from the module constants)
   outcome: the LAST response decides: 200 -> that response is returned; 401/404 -> RpcError(Unauthorized/Not found);
            otherwise RpcError.from_response(last response);
            a transport failure (no response) is never followed by another request and reaches the caller.
"""
import ast
import z3
from vlib.pyvc import Engine, RaiseEx, Sym, Obj, Z, ZB, Unsupported, Opaque
from vlib.pyvc.engine import BoundM
from vlib.pyvc.report import report, run_harness, functions_interpreted


class GResp:
    __pyvc_symbolic__ = True

    def __init__(self, i, status, transient, raises=None):
        self.i, self.status, self.transient, self.raises = i, status, transient, raises

    def __pyvc_attr__(self, eng, name):
        if name == 'status_code':
            return Sym(self.status)
        if name in ('text', 'headers'):
            return Opaque(f'<{name}{self.i}>')
        if name == 'json':
            return _K(Opaque(f'<json{self.i}>'))
        raise Unsupported('response.' + name)


class _K:
    __pyvc_symbolic__ = True

    def __init__(self, v):
        self.v = v

    def __pyvc_call__(self, eng, args, kwargs):
        return self.v


class GMethod:
    """the HTTP method as a ghost string: any comparison of it with a literal forks on an input boolean (`method_is_<literal>`),
    so a code path that singles out one method is explored for that method AND for every other one"""
    __pyvc_symbolic__ = True
    __pyvc_strlike__ = True

    def __init__(self):
        self.lits = {}

    def __pyvc_isinstance__(self, cs):
        return str in cs

    def __pyvc_cmp__(self, eng, op, other, refl):
        if isinstance(op, (ast.Eq, ast.NotEq)) and isinstance(other, str) and not getattr(other, '__pyvc_symbolic__', False):
            if other not in self.lits:
                b = z3.Bool(f'method_is_{other}')
                eng.inputs[f'method_is_{other}'] = ('bool', b)
                for o2 in self.lits.values():               # a string equals at most one literal
                    eng.assume(z3.Not(z3.And(b, o2)))
                self.lits[other] = b
            b = self.lits[other]
            return Sym(b if isinstance(op, ast.Eq) else z3.Not(b))
        return NotImplemented

    def __pyvc_attr__(self, eng, name):
        if name in ('upper', 'strip'):
            return _K(self)
        raise Unsupported('method.' + name)


# request 2 and 3 of the "reused node" scenario are preceded by these two CONCRETE requests on the same RpcNode object:
#   (a) three transient failures, then success (the node has slept 0.25, 0.5, 1.0)
#   (b) six transient failures: the attempt limit is reached with the delay at its cap, and the request raises
PRELUDE = [[(503, True), (500, True), (599, True), (200, False)],
           [(500, True)] * 6]
SCENARIOS = ('fresh', 'reused')
DELAYS = [0.25, 0.5, 1.0, 2.0, 2.0]         # the property's numbers, written out (NOT read from TRANSIENT_RETRY_*)


def harness(scn='fresh'):
    from pytezos.rpc import node as N
    import requests, json, time, pprint
    import requests.exceptions as RX
    tag = 'RpcNode.request' if scn == 'fresh' else 'RpcNode.request[same node object, after a retried success and a retried failure]'

    def h(e: Engine):
        cur = {}

        def do_request(eng, args, kwargs):
            resps, sent = cur['resps'], cur['sent']
            if len(sent) >= len(resps):
                raise Unsupported('more than 8 requests')
            sent.append(dict(kwargs))
            r = resps[len(sent) - 1]
            # the transport may fail instead of producing a response (connection refused, read timeout): any attempt, either class
            if r.raises is not None and eng.fork(r.raises):
                cur['raised'] = RX.ConnectionError(f'ghost transport failure {r.i}') if len(sent) % 2 else RX.Timeout(f'ghost timeout {r.i}')
                raise RaiseEx(cur['raised'])
            return r

        def do_sleep(eng, args, kwargs):
            cur['slept'].append(args[0])
            return None

        def is_transient(eng, args, kwargs):
            return Sym(args[0].transient)

        def from_response(eng, args, kwargs):
            return N.RpcError(('from_response', id(cur['resps']), args[-1].i))
        e.stub(requests.request, do_request)
        e.stub(time.sleep, do_sleep)          # the function object, however node.py imports it (`from time import sleep` / `import time`)
        e.stub(N._is_transient_response, is_transient)
        e.stub(N.RpcError.__dict__['from_response'].__func__, from_response)
        e.stub(json.dumps, lambda eng, a, k: Opaque('<json>'))
        e.stub(pprint.pformat, lambda eng, a, k: Opaque('<pformat>'))
        node = Obj(N.RpcNode)
        node.f['uri'] = ['http://node']
        node.f['headers'] = {}

        def one_request(resps, method, kwargs):
            cur.clear()
            cur.update(resps=resps, sent=[], slept=[], raised=None)
            out = exc = None
            try:
                out = e.call(BoundM(N.RpcNode.__dict__['request'], node), [method, 'chains/main'], dict(kwargs))
            except RaiseEx as ex:
                exc = ex.exc
            sent, slept = cur['sent'], cur['slept']
            k = len(sent)
            e.check(f'{tag}::ensures.at_least_one_and_at_most_6_attempts', z3.BoolVal(1 <= k <= 6))
            if not 1 <= k <= 6:
                return
            for i in range(k - 1):
                e.check(f'{tag}::ensures.resend_only_after_transient_5xx[{i}]',
                        z3.And(resps[i].status >= 500, resps[i].transient,
                               z3.Not(resps[i].raises) if resps[i].raises is not None else z3.BoolVal(True)))
            want_delays = DELAYS[:k - 1]
            if slept != want_delays and __import__('os').environ.get('C26_DEBUG'):
                print('DEBUG slept', slept, 'k', k)
            e.check(f'{tag}::ensures.delays==0.25*2^i capped at 2.0, one per retry', z3.BoolVal(slept == want_delays))
            e.check(f'{tag}::ensures.delays_non_decreasing_and_capped',
                    z3.BoolVal(all(a <= b for a, b in zip(slept, slept[1:])) and all(d <= 2.0 for d in slept)))
            e.check(f'{tag}::ensures.same_request_resent', z3.BoolVal(all(s == sent[0] for s in sent)))
            last = resps[k - 1]
            if cur['raised'] is not None:
                # no response at all for the last attempt: nothing may be re-sent (k stops here) and the caller sees the failure
                e.check(f'{tag}::ensures.transport_failure_is_not_retried_and_propagates', z3.BoolVal(exc is cur['raised']))
                return
            if k < 6:
                e.check(f'{tag}::ensures.transient_5xx_is_retried(below the attempt limit)',
                        z3.Not(z3.And(last.status >= 500, last.transient)))
            if exc is None:
                e.check(f'{tag}::returns.only_if(last status == 200)', last.status == 200)
                e.check(f'{tag}::returns.the_last_response', z3.BoolVal(out is last))
            else:
                e.check(f'{tag}::raises.only_if(last status != 200)', last.status != 200)
                ok_cls = isinstance(exc, N.RpcError)
                e.check(f'{tag}::raises.RpcError_class', z3.BoolVal(ok_cls))
                if ok_cls:
                    a = exc.args[0] if exc.args else None
                    is401 = isinstance(a, str) and a.startswith('Unauthorized')
                    is404 = isinstance(a, str) and a.startswith('Not found')
                    isfr = isinstance(a, tuple) and a == ('from_response', id(resps), last.i)
                    e.check(f'{tag}::raises.error_of_the_last_response',
                            z3.And(z3.BoolVal(is401) == (last.status == 401), z3.BoolVal(is404) == (last.status == 404),
                                   z3.BoolVal(isfr) == z3.And(last.status != 401, last.status != 404)))

        if scn == 'reused':
            e.int('scenario_reused_node', lo=1, hi=1)
            for j, pre in enumerate(PRELUDE):
                one_request([GResp(i, z3.IntVal(st), z3.BoolVal(tr)) for i, (st, tr) in enumerate(pre)] + [GResp(9, z3.IntVal(200), z3.BoolVal(False))],
                            'GET' if j else 'POST', {} if j else {'json': Opaque('<json body>')})
        resps = [GResp(i, e.int(f'status{i}', lo=100, hi=599).e, e.bool(f'transient{i}').e, e.bool(f'raises{i}').e) for i in range(8)]
        if scn == 'fresh':
            one_request(resps, GMethod(), {})
        else:
            one_request(resps, 'POST', {'params': Opaque('<params>'), 'json': Opaque('<json body>'), 'timeout': 5})
    return h


def native(case):
    """replay a status/verdict/transport-failure sequence on the real RpcNode with requests.request and sleep monkeypatched"""
    from pytezos.rpc import node as N
    import requests
    import requests.exceptions as RX
    seq = []
    for i in range(8):
        st = case.get(f'status{i}')
        if st is None:
            break
        seq.append((int(st), bool(case.get(f'transient{i}', False)), bool(case.get(f'raises{i}', False))))
    reused = bool(case.get('scenario_reused_node'))
    method = 'POST' if reused else ('GET' if case.get('method_is_GET', False) else next(
        (k[len('method_is_'):] for k, v in case.items() if k.startswith('method_is_') and v), 'PATCH'))

    class R:
        def __init__(self, i, st, tr):
            self.i, self.status_code, self.tr = i, st, tr
            self.headers = {'content-type': 'application/json'}
            self.text = 'x'

        def json(self):
            return [{'id': 'node.x', 'kind': 'temporary' if self.tr else 'permanent'}]
    from props.C26_R import patched_sleep
    orig_req = requests.request
    node = N.RpcNode('http://node')
    cur_slept = [None]
    ps = patched_sleep(N, lambda d: cur_slept[0].append(d)).__enter__()

    def one(seq, method):
        sent, slept = [], []

        def fake(**kw):
            st, tr, rs = seq[len(sent)] if len(sent) < len(seq) else (200, False, False)
            r = R(len(sent), st, tr)
            sent.append(r)
            if rs:
                r.exc = RX.ConnectionError('replayed transport failure')
                raise r.exc
            return r
        requests.request = fake
        cur_slept[0] = slept
        out = exc = None
        try:
            out = node.request(method, 'x')
        except Exception as ex:   # noqa
            exc = ex
        k = 0
        while k < 5 and k < len(seq) and seq[k][0] >= 500 and seq[k][1] and not seq[k][2]:
            k += 1
        want_sent = k + 1
        st_last, _, rs_last = seq[want_sent - 1] if want_sent - 1 < len(seq) else (200, False, False)
        if len(sent) != want_sent:
            return True, f'{method} responses {seq}: {len(sent)} requests sent, specification {want_sent}'
        if slept != DELAYS[:want_sent - 1]:
            return True, f'{method} responses {seq}: delays {slept}'
        if rs_last:
            if exc is not sent[-1].exc:
                return True, f'{method} responses {seq}: transport failure at the last attempt, outcome {"returned" if exc is None else repr(exc)}'
            return False, 'ok'
        if exc is not None and not isinstance(exc, N.RpcError):
            return True, f'{method} responses {seq}: raised {exc!r}'
        if (exc is None) != (st_last == 200) or (exc is None and out is not sent[-1]):
            return True, f'{method} responses {seq}: outcome {"returned" if exc is None else repr(exc)} for last status {st_last}'
        return False, 'ok'
    try:
        if reused:
            for j, pre in enumerate(PRELUDE):
                bad, info = one([(st, tr, False) for st, tr in pre], 'GET' if j else 'POST')
                if bad:
                    return True, f'request {j + 1} on the node: ' + info
        bad, info = one(seq, method)
        return bad, ('after two earlier requests on the same node: ' if reused else '') + info
    finally:
        requests.request = orig_req
        ps.__exit__()


def replay(case):
    if case.get('kind') == 'classifier':
        return native_classifier(case)
    return native(case)


# ------------------------------------------------------------------------------- the classifier, exhaustively over body shapes
ELEMS = {
    'proto-temporary': {'id': 'proto.023-PtSeouLo.michelson_v1.script_rejected', 'kind': 'temporary'},
    'proto-permanent': {'id': 'proto.alpha.contract.balance_too_low', 'kind': 'permanent'},
    'node-temporary': {'id': 'node.prevalidation.future_block_header', 'kind': 'temporary'},
    'node-permanent': {'id': 'node.bad', 'kind': 'permanent'},
    'no-id-temporary': {'kind': 'temporary'},
    'not-a-dict': 'oops',
    # shapes added by the input-widening audit: missing 'kind', empty dict, falsy non-dict, an id that merely LOOKS like a
    # protocol id (no 'proto.' prefix), a kind that is not a string, extra fields
    'node-no-kind': {'id': 'node.mempool.busy'},
    'proto-no-kind': {'id': 'proto.alpha.gas_exhausted.operation'},
    'empty-dict': {},
    'none': None,
    'protolike-temporary': {'id': 'protocol_violation.x', 'kind': 'temporary'},
    'kind-null-node': {'id': 'node.x', 'kind': None, 'msg': ['temporary']},
}
# CANDIDATE_DEFECT (kept OUT of the registered enumeration): an error whose 'id' is not a string makes the classifier raise
# AttributeError instead of answering (err.get('id', '').startswith on None / int).  Outside the property's alphabet (octez ids are
# strings), reported by the audit; enable with C26_CANDIDATE=1 to see it.
CANDIDATE_DEFECT_ELEMS = {
    'id-null-temporary': {'id': None, 'kind': 'temporary'},
    'id-int-temporary': {'id': 17, 'kind': 'temporary'},
}
if __import__('os').environ.get('C26_CANDIDATE'):
    ELEMS.update(CANDIDATE_DEFECT_ELEMS)
# JSON bodies that are not error lists, and bodies that are not JSON
BODIES = {
    'none': None,                                    # json() raises, text is an HTML page
    'empty': None,                                   # json() raises, text is empty
    'dict': {'error': 'x'},
    'dict-temporary': {'id': 'node.x', 'kind': 'temporary'},      # a single error NOT wrapped in a list: not an error list
    'null': None,                                    # json() returns None
    'string': 'temporary',
    'zero': 0,
}


def spec_transient(ctype, body_kind, elems, text_marker):
    """the property: a 5xx response is transient iff its errors are temporary and not protocol errors, or a prevalidator failure"""
    if ctype == 'application/json' and body_kind == 'list':
        ds = [ELEMS[x] for x in elems if isinstance(ELEMS[x], dict)]
        if any(isinstance(d.get('id'), str) and d['id'].startswith('proto.') for d in ds):     # an id that is no string is no protocol id
            return False
        if any(d.get('kind') == 'temporary' for d in ds):
            return True
    return text_marker


def native_classifier(case):
    import json
    from pytezos.rpc import node as N
    ctype, body_kind, elems, marker = case['ctype'], case['body_kind'], case['elems'], case['marker']
    raises = body_kind in ('none', 'empty')
    body = [ELEMS[x] for x in elems] if body_kind == 'list' else BODIES[body_kind]
    text = ('' if body_kind == 'empty' else '<html>Internal error</html>' if raises else json.dumps(body)) + \
        (' Assert_failure src/lib_shell/prevalidator.ml:1918' if marker else '')

    class R:
        headers = {'content-type': ctype} if ctype else {}
        status_code = case.get('status', 500)

        def json(self):
            if raises:
                raise ValueError('no json')
            return body
    R.text = text
    want = spec_transient(ctype, body_kind, elems, marker)
    try:
        got = N._is_transient_response(R())
    except Exception as x:   # noqa  the classifier must answer on every body a server can send
        return True, f'_is_transient_response(content-type={ctype!r}, body={body_kind}{elems}, prevalidator marker={marker}) raised {type(x).__name__}: {x}, specification {want}'
    return got != want, f'_is_transient_response(content-type={ctype!r}, body={body_kind}{elems}, prevalidator marker={marker}) = {got}, specification {want}'


def run_classifier(ck):
    import itertools
    from pytezos.rpc import node as N
    ck.function(N._is_transient_response)
    n = bad = 0
    names = list(ELEMS)
    for ctype in ('application/json', 'text/plain', None):
        for marker in (False, True):
            shapes = [(b, ()) for b in BODIES] + [('list', c) for k in range(0, 4) for c in itertools.product(names, repeat=k)]
            for body_kind, elems in shapes:
                # the verdict may not depend on WHICH 5xx it is: the status alphabet is spread over the shapes
                status = (500, 502, 503, 504, 599, 501)[n % 6]
                case = dict(kind='classifier', ctype=ctype, body_kind=body_kind, elems=list(elems), marker=marker, status=status)
                b, info = native_classifier(case)
                n += 1
                ck.evaluate(('classifier', ctype, body_kind, tuple(sorted(set(elems))), marker))
                if b:
                    bad += 1
                    if bad <= 3:
                        ck.violation('_is_transient_response::ensures.spec', info, case=case, replay='props.C26_P:replay',
                                     wclass=f'classifier:{sorted(set(elems))}')
    ck.obligation(f'_is_transient_response::ensures.spec[exhaustive over {n} response shapes: error lists of length 0..3 over {len(names)} element kinds, {len(BODIES)} non-list bodies × content type × marker]',
                  'failed' if bad else 'discharged', 'S', 'enumeration', 0.0)


def run_P(ck):
    from pytezos.rpc import node as N
    ck.function(N.RpcNode.request)
    ck.assume('requests.request / time.sleep / json.dumps / pformat / logger are externals: ghost-recording stubs; '
              '_is_transient_response and RpcError.from_response are used through their contracts (checked in C26_R / C27)')
    ck.trust('PyVC encoding of the Python subset (DESIGN.md 3.2)')
    ck.trust('z3 5.1')
    for scn in SCENARIOS:
        eng = Engine()
        run_harness(ck, eng, harness(scn), 'RpcNode.request' + ('' if scn == 'fresh' else f'[{scn}]'))
        report(ck, eng, [('', 'props.C26_P:replay', native, None)])
        functions_interpreted(ck, eng)
    run_classifier(ck)
