"""C26, deductive part: `RpcNode.request` on the real AST over a SYMBOLIC response sequence.

Externals by contract (ghost-recording): `requests.request` returns the next response of the sequence (any status
code, any transient verdict), `sleep(d)` records d, `_is_transient_response(res)` returns the response's ghost verdict
(its own definition is checked in the bounded part C26_R), `RpcError.from_response(res)` returns an error tagged with
the response.  `range(TRANSIENT_RETRY_ATTEMPTS)` is a constant bound, so unrolling is complete.
Obligations (all status codes, all verdicts):
   request i+1 is sent  <=>  response i has status >= 500 and is transient and i < 5      (exactly the transient failures)
   at most 6 requests; the delays are 0.25, 0.5, 1.0, 2.0, 2.0 (non-decreasing, capped at 2.0), one sleep per retry
   outcome: the LAST response decides: 200 -> that response is returned; 401/404 -> RpcError(Unauthorized/Not found);
            otherwise RpcError.from_response(last response).
"""
import z3
from vlib.pyvc import Engine, RaiseEx, Sym, Obj, Z, ZB, Unsupported, Opaque
from vlib.pyvc.engine import BoundM
from vlib.pyvc.report import report, run_harness, functions_interpreted


class GResp:
    __pyvc_symbolic__ = True

    def __init__(self, i, status, transient):
        self.i, self.status, self.transient = i, status, transient

    def __pyvc_attr__(self, eng, name):
        if name == 'status_code':
            return Sym(self.status)
        if name in ('text', 'headers'):
            return Opaque(f'<{name}{self.i}>')
        if name == 'json':
            return _K(Opaque(f'<json{self.i}>'))
        raise Unsupported('response.' + name)


class _K:
    __pyvc_symbolic__ = True

    def __init__(self, v):
        self.v = v

    def __pyvc_call__(self, eng, args, kwargs):
        return self.v


def harness():
    from pytezos.rpc import node as N
    import requests, json, time, pprint

    def h(e: Engine):
        resps = [GResp(i, e.int(f'status{i}', lo=100, hi=599).e, e.bool(f'transient{i}').e) for i in range(8)]
        sent, slept = [], []

        def do_request(eng, args, kwargs):
            if len(sent) >= len(resps):
                raise Unsupported('more than 8 requests')
            sent.append(dict(kwargs))
            return resps[len(sent) - 1]

        def do_sleep(eng, args, kwargs):
            slept.append(args[0])
            return None

        def is_transient(eng, args, kwargs):
            return Sym(args[0].transient)

        def from_response(eng, args, kwargs):
            return N.RpcError(('from_response', args[-1].i))
        e.stub(requests.request, do_request)
        e.stub(N.sleep, do_sleep)
        e.stub(N._is_transient_response, is_transient)
        e.stub(N.RpcError.__dict__['from_response'].__func__, from_response)
        e.stub(json.dumps, lambda eng, a, k: Opaque('<json>'))
        e.stub(N.pformat, lambda eng, a, k: Opaque('<pformat>'))
        node = Obj(N.RpcNode)
        node.f['uri'] = ['http://node']
        node.f['headers'] = {}
        out = exc = None
        try:
            out = e.call(BoundM(N.RpcNode.__dict__['request'], node), ['GET', 'chains/main'], {})
        except RaiseEx as ex:
            exc = ex.exc
        k = len(sent)
        e.check('RpcNode.request::ensures.at_least_one_and_at_most_6_attempts', z3.BoolVal(1 <= k <= 6))
        if not 1 <= k <= 6:
            return
        for i in range(k - 1):
            e.check(f'RpcNode.request::ensures.resend_only_after_transient_5xx[{i}]', z3.And(resps[i].status >= 500, resps[i].transient))
        if k < 6:
            e.check('RpcNode.request::ensures.transient_5xx_is_retried(below the attempt limit)',
                    z3.Not(z3.And(resps[k - 1].status >= 500, resps[k - 1].transient)))
        want_delays = [0.25, 0.5, 1.0, 2.0, 2.0][:k - 1]
        if slept != want_delays and __import__('os').environ.get('C26_DEBUG'):
            print('DEBUG slept', slept, 'k', k)
        e.check('RpcNode.request::ensures.delays==0.25*2^i capped at 2.0, one per retry', z3.BoolVal(slept == want_delays))
        e.check('RpcNode.request::ensures.delays_non_decreasing_and_capped',
                z3.BoolVal(all(a <= b for a, b in zip(slept, slept[1:])) and all(d <= 2.0 for d in slept)))
        e.check('RpcNode.request::ensures.same_request_resent', z3.BoolVal(all(s == sent[0] for s in sent)))
        last = resps[k - 1]
        if exc is None:
            e.check('RpcNode.request::returns.only_if(last status == 200)', last.status == 200)
            e.check('RpcNode.request::returns.the_last_response', z3.BoolVal(out is last))
        else:
            e.check('RpcNode.request::raises.only_if(last status != 200)', last.status != 200)
            ok_cls = isinstance(exc, N.RpcError)
            e.check('RpcNode.request::raises.RpcError_class', z3.BoolVal(ok_cls))
            if ok_cls:
                a = exc.args[0] if exc.args else None
                is401 = isinstance(a, str) and a.startswith('Unauthorized')
                is404 = isinstance(a, str) and a.startswith('Not found')
                isfr = isinstance(a, tuple) and a == ('from_response', last.i)
                e.check('RpcNode.request::raises.error_of_the_last_response',
                        z3.And(z3.BoolVal(is401) == (last.status == 401), z3.BoolVal(is404) == (last.status == 404),
                               z3.BoolVal(isfr) == z3.And(last.status != 401, last.status != 404)))
    return h


def native(case):
    """replay a status/verdict sequence on the real RpcNode with requests.request and sleep monkeypatched"""
    from pytezos.rpc import node as N
    import requests
    seq = []
    for i in range(8):
        st = case.get(f'status{i}')
        if st is None:
            break
        seq.append((int(st), bool(case.get(f'transient{i}', False))))

    class R:
        def __init__(self, i, st, tr):
            self.i, self.status_code, self.tr = i, st, tr
            self.headers = {'content-type': 'application/json'}
            self.text = 'x'

        def json(self):
            return [{'id': 'node.x', 'kind': 'temporary' if self.tr else 'permanent'}]
    sent, slept = [], []
    orig_req, orig_sleep = requests.request, N.sleep
    try:
        def fake(**kw):
            st, tr = seq[len(sent)] if len(sent) < len(seq) else (200, False)
            r = R(len(sent), st, tr)
            sent.append(r)
            return r
        requests.request = fake
        N.sleep = lambda d: slept.append(d)
        out = exc = None
        try:
            out = N.RpcNode('http://node').request('GET', 'x')
        except N.RpcError as ex:
            exc = ex
        except Exception as ex:   # noqa
            return True, f'raised {ex!r}'
    finally:
        requests.request, N.sleep = orig_req, orig_sleep
    k = 0
    while k < 5 and k < len(seq) and seq[k][0] >= 500 and seq[k][1]:
        k += 1
    want_sent = k + 1
    st_last = seq[want_sent - 1][0] if want_sent - 1 < len(seq) else 200
    if len(sent) != want_sent:
        return True, f'responses {seq}: {len(sent)} requests sent, specification {want_sent}'
    if slept != [0.25, 0.5, 1.0, 2.0, 2.0][:want_sent - 1]:
        return True, f'responses {seq}: delays {slept}'
    if (exc is None) != (st_last == 200) or (exc is None and out is not sent[-1]):
        return True, f'responses {seq}: outcome {"returned" if exc is None else repr(exc)} for last status {st_last}'
    return False, 'ok'


def replay(case):
    if case.get('kind') == 'classifier':
        return native_classifier(case)
    return native(case)


# ------------------------------------------------------------------------------- the classifier, exhaustively over body shapes
ELEMS = {
    'proto-temporary': {'id': 'proto.023-PtSeouLo.michelson_v1.script_rejected', 'kind': 'temporary'},
    'proto-permanent': {'id': 'proto.alpha.contract.balance_too_low', 'kind': 'permanent'},
    'node-temporary': {'id': 'node.prevalidation.future_block_header', 'kind': 'temporary'},
    'node-permanent': {'id': 'node.bad', 'kind': 'permanent'},
    'no-id-temporary': {'kind': 'temporary'},
    'not-a-dict': 'oops',
}


def spec_transient(ctype, body_kind, elems, text_marker):
    """the property: a 5xx response is transient iff its errors are temporary and not protocol errors, or a prevalidator failure"""
    if ctype == 'application/json' and body_kind == 'list':
        ds = [ELEMS[x] for x in elems if isinstance(ELEMS[x], dict)]
        if any(d.get('id', '').startswith('proto.') for d in ds):
            return False
        if any(d.get('kind') == 'temporary' for d in ds):
            return True
    return text_marker


def native_classifier(case):
    import json
    from pytezos.rpc import node as N
    ctype, body_kind, elems, marker = case['ctype'], case['body_kind'], case['elems'], case['marker']
    body = [ELEMS[x] for x in elems] if body_kind == 'list' else {'error': 'x'} if body_kind == 'dict' else None
    text = (json.dumps(body) if body is not None else '<html>Internal error</html>') + (' Assert_failure src/lib_shell/prevalidator.ml:1918' if marker else '')

    class R:
        headers = {'content-type': ctype} if ctype else {}
        status_code = 500

        def json(self):
            if body is None:
                raise ValueError('no json')
            return body
    R.text = text
    got = N._is_transient_response(R())
    want = spec_transient(ctype, body_kind, elems, marker)
    return got != want, f'_is_transient_response(content-type={ctype!r}, body={body_kind}{elems}, prevalidator marker={marker}) = {got}, specification {want}'


def run_classifier(ck):
    import itertools
    from pytezos.rpc import node as N
    ck.function(N._is_transient_response)
    n = bad = 0
    names = list(ELEMS)
    for ctype in ('application/json', 'text/plain', None):
        for marker in (False, True):
            shapes = [('none', ()), ('dict', ())] + [('list', c) for k in range(0, 4) for c in itertools.product(names, repeat=k)]
            for body_kind, elems in shapes:
                case = dict(kind='classifier', ctype=ctype, body_kind=body_kind, elems=list(elems), marker=marker)
                b, info = native_classifier(case)
                n += 1
                ck.evaluate(('classifier', ctype, body_kind, tuple(sorted(set(elems))), marker))
                if b:
                    bad += 1
                    if bad <= 3:
                        ck.violation('_is_transient_response::ensures.spec', info, case=case, replay='props.C26_P:replay',
                                     wclass=f'classifier:{sorted(set(elems))}')
    ck.obligation(f'_is_transient_response::ensures.spec[exhaustive over {n} response shapes: error lists of length 0..3 over 6 element kinds × content type × marker]',
                  'failed' if bad else 'discharged', 'S', 'enumeration', 0.0)


def run_P(ck):
    from pytezos.rpc import node as N
    ck.function(N.RpcNode.request)
    ck.assume('requests.request / time.sleep / json.dumps / pformat / logger are externals: ghost-recording stubs; '
              '_is_transient_response and RpcError.from_response are used through their contracts (checked in C26_R / C27)')
    ck.trust('PyVC encoding of the Python subset (DESIGN.md 3.2)')
    ck.trust('z3 5.1')
    eng = Engine()
    run_harness(ck, eng, harness(), 'RpcNode.request')
    report(ck, eng, [('', 'props.C26_P:replay', native, None)])
    functions_interpreted(ck, eng)
    run_classifier(ck)
