"""C18, deductive part: the FORMATTER half of the property (pytezos/michelson/format.py: format_node / micheline_to_michelson) on its real
AST, by structural induction over the expression.  Children are OPAQUE nodes; the induction hypothesis is the contract of the recursive
call:   format_node(c, indent, inline, wrapped=w) is a text  T(c, w)  of unknown (symbolic) length that READS BACK as c in that position
(w = member of a sequence: no parentheses needed; w = False: argument position, parenthesised when c has arguments or annotations).
The produced text is kept as a structure of literal pieces and child texts and compared, after WHITESPACE-INSENSITIVE tokenisation
({ } ( ) ; as separate tokens), with the Michelson concrete syntax written out here independently:

   sequence         { m1 ; m2 ; … }        ({} when empty; members in order, separated by ';')
   application      prim annot* a1 a2 …     in parentheses exactly when it has arguments or annotations AND stands in argument position
   script root      the three sections separated by ';' without braces

for every layout decision the code takes (the line-length comparisons are over SYMBOLIC child lengths, so the one-line and the
multi-line layouts are both explored and must give the same tokens) and for inline / multi-line mode, with the recursive calls receiving
the caller's `inline` flag.  The parser half (PLY grammar in parse.py) is external to the engine: whether these tokens parse back is
decided by the bounded part on real texts.                       [S in the number of children k <= 3 (4 thorough)]
"""
import re
import z3
from vlib.pyvc import Engine, RaiseEx, Sym, Unsupported
from vlib.pyvc.engine import FStr
from vlib.pyvc.report import report, functions_interpreted
from vlib.pyvc.parallel import run_jobs, FakeEng


class Child:
    """opaque Micheline node"""
    __pyvc_symbolic__ = True

    def __init__(self, name, kind=None):
        self.name, self.kind = name, kind      # kind: None (not observable) | 'seq' | 'instr' — only the root's script test looks at it

    def __repr__(self):
        return f'<{self.name}>'

    def __pyvc_isinstance__(self, cs):
        if self.kind == 'seq':
            return list in cs
        if self.kind == 'instr':
            return dict in cs
        raise Unsupported('the kind of an opaque child is not observable')

    def __pyvc_attr__(self, eng, name):
        if name == 'get' and self.kind == 'instr':
            return _F(lambda e, a, k: 'DROP' if a and a[0] == 'prim' else (a[1] if len(a) > 1 else None))     # an instruction, not a script section
        raise Unsupported(f'opaque node .{name}')


class _F:
    __pyvc_symbolic__ = True

    def __init__(self, f):
        self.f = f

    def __pyvc_call__(self, eng, args, kwargs):
        return self.f(eng, args, kwargs)


class Txt:
    """T(c, position): the formatted text of child c (induction hypothesis), length symbolic >= 1"""
    __pyvc_symbolic__ = True
    __pyvc_strlike__ = True

    def __init__(self, child, member, inline):
        self.child, self.member, self.inline = child, member, inline
        self.L = z3.Int(f'len_{child.name}_{"m" if member else "a"}')

    def __repr__(self):
        return f'T({self.child.name},{"member" if self.member else "arg"})'

    def __pyvc_isinstance__(self, cs):
        return str in cs

    def __pyvc_len__(self, eng):
        eng.assume(self.L >= 1)
        return Sym(self.L)

    def __pyvc_truth__(self, eng):
        return True


TOK = re.compile(r'[{}();]|[^\s{}();]+')


def tokens(x):
    """whitespace-insensitive token list of a text structure"""
    if isinstance(x, str):
        return TOK.findall(x)
    if isinstance(x, Txt):
        return [x]
    if isinstance(x, FStr):
        out = []
        for it in x.items:
            out += tokens(it)
        return out
    return [('?', repr(x))]


def same_tokens(a, b):
    return len(a) == len(b) and all((x is y) if isinstance(x, Txt) or isinstance(y, Txt) else x == y for x, y in zip(a, b))


def h_node(form, k, annots, position, inline, prim='Pair'):
    """form: 'prim' | 'seq' | 'script';  position: 'root' | 'arg' | 'member'"""
    from pytezos.michelson import format as FM
    tag = f'{form}[{prim if form == "prim" else ""}k={k},annots={len(annots)},{position},{"inline" if inline else "multi-line"}]'

    def h(e: Engine):
        kids = [Child(f'c{i}', kind=(('seq', 'instr')[i % 2] if (form == 'seq' and position == 'root') else None)) for i in range(k)]
        texts, calls = {}, []

        def rec(eng, a, kw):
            node = a[0]
            if not isinstance(node, Child):
                raise Unsupported('recursive format_node on a non-opaque node (deeper than one level)')
            inl = kw.get('inline', a[2] if len(a) > 2 else False)
            member = bool(kw.get('wrapped', a[4] if len(a) > 4 else False))
            root = bool(kw.get('is_root', a[3] if len(a) > 3 else False))
            calls.append((node, inl, member, root))
            key = (id(node), member)
            if key not in texts:
                texts[key] = Txt(node, member, inl)
            return texts[key]
        e.contract_for(FM.format_node, rec, inline_depth=1)
        if form == 'seq':
            node = list(kids)
        elif form == 'script':
            node = [{'prim': 'parameter', 'args': [kids[0]]}, {'prim': 'storage', 'args': [kids[1]]}, {'prim': 'code', 'args': [kids[2]]}]
        else:
            node = {'prim': prim}
            if k:
                node['args'] = list(kids)
            if annots:
                node['annots'] = list(annots)
        kw = dict(inline=inline, is_root=(position == 'root'), wrapped=(position == 'member'))
        try:
            if form == 'script':
                # sections are formatted by the real code too (one more interpreted level): inline the section level
                e.fn_contracts.clear()
                e.contract_for(FM.format_node, rec, inline_depth=2)
            r = e.call(FM.format_node, [node, ''], kw)
        except RaiseEx as ex:
            e.check(f'format_node.{tag}::safety.no_exception[{type(ex.exc).__name__}]', z3.BoolVal(False))
            return
        got = tokens(r)
        if form == 'seq':
            want = ['{']
            for i, c in enumerate(kids):
                if i:
                    want.append(';')
                want.append(texts.get((id(c), True), ('missing', c.name)))
            want.append('}')
            if position == 'root' and k and False:
                pass
        elif form == 'script':
            want = []
            for i, (sec, c) in enumerate(zip(('parameter', 'storage', 'code'), kids)):
                if i:
                    want.append(';')
                want += [sec, texts.get((id(c), False), ('missing', c.name))]
        else:
            body = [prim] + list(annots) + [texts.get((id(c), False), ('missing', c.name)) for c in kids]
            framed = bool(k or annots) and position == 'arg'
            want = (['('] + body + [')']) if framed else body
        ok = same_tokens(got, want)
        e.check(f'format_node.{tag}::ensures.tokens==concrete_syntax(order, separators, parentheses iff framed in argument position)', z3.BoolVal(bool(ok)))
        if not ok and list(e.obl):
            e.obl[list(e.obl)[-1]]['reason'] = f'got {got!r} want {want!r}'[:400]
        e.check(f'format_node.{tag}::ensures.children_formatted_once_each_with_the_callers_inline_flag',
                z3.BoolVal(sorted(c.name for c, *_ in calls) == sorted(c.name for c in kids) and all(inl == inline and not root for _, inl, _, root in calls)))
    return h


def job(*a):
    return h_node(*a)


def specs(thorough):
    out = []
    K = 5 if thorough else 4
    for inline in (False, True):
        for position in ('root', 'arg', 'member'):
            for k in range(0, K):
                out.append(('seq', k, (), position, inline))
                for annots in ((), ('%a',), ('%a', ':t')):
                    out.append(('prim', k, annots, position, inline, 'Pair' if k != 1 else 'Some'))
            for prim, k in (('IF', 2), ('IF_LEFT', 2), ('LAMBDA', 3), ('PUSH', 2), ('DIP', 2)):
                out.append(('prim', k, (), position, inline, prim))
                out.append(('prim', k, ('@v',), position, inline, prim))
        out.append(('script', 3, (), 'root', inline))
    return out


def replay(case):
    return False, 'opaque children: concrete texts are exercised by the bounded part (props.C18)'


def run_P(ck):
    from pytezos.michelson import format as FM
    ck.function(FM.format_node)
    ck.function(FM.is_framed)
    ck.function(FM.is_complex)
    ck.function(FM.is_inline)
    ck.function(FM.is_script)
    ck.assume('induction over the expression: a child\'s text is opaque, of unknown length, and reads back as the child in its position (IH); tokens are '
              'compared whitespace-insensitively (Michelson is whitespace-insensitive outside string literals; literals are leaves: json.dumps / '
              'the lexer are external and only exercised by the bounded part); number of children <= 3 (4 thorough) in the step (S)')
    ck.trust('PyVC encoding of the Python subset (DESIGN.md 3.2)')
    sp = specs(ck.thorough())
    jobs = [(repr(s), 'props.C18_P:job', s, dict(max_paths=4000)) for s in sp]
    for res, s in zip(run_jobs(jobs), sp):
        if 'error' in res:
            raise RuntimeError(f"harness {res['label']} crashed:\n{res['error']}")
        eng = FakeEng(res)
        report(ck, eng, [('', 'props.C18_P:replay', lambda cex: replay(cex), None)], kind='S')
        functions_interpreted(ck, eng)
