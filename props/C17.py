"""C17 — Type annotations do not change execution or serialization.

Relational contract on the real interpreter (MichelineSequence.execute over the instructions' `execute`,
MichelsonType.from_micheline_value / to_micheline_value / pack, PairType.iter_comb / unpairn_comb / access_comb /
update_comb behind GET n / UPDATE n / UNPAIR n / PAIR n):

    for every well-typed program P, input stack x : S and every re-annotation rho of the type arguments of P and of S
    (field annotation %a on components of pair/or, type annotation :t anywhere, both; every single node down to depth 3,
    all nodes at once, and the n-ary spelling `pair a b c` of right combs):
        ensures.same_outcome   run(rho(P), rho(x)) ends normally / with FAILWITH / with an error exactly when run(P, x) does
        ensures.same_type      final slot types are equal after stripping annotations
        ensures.same_value     final slot values (and the FAILWITH value) are equal
        ensures.same_pack      pack() of every packable final slot gives the same bytes

Entrypoint names and Python-object field names are outside the contract (the property excludes them): nothing here goes
through parameter entrypoints or to_python_object.  R mode, bounded; programs from the `combs` and `structures` themes of
bounded/C01_gen.py (pair / option / or / collection manipulation, PACK), re-annotations from bounded/C17_annot.py.
"""
from vlib.runner import Check

REPLAY = 'props.C17:replay'

QUICK = {
    'combs': dict(ex_len=1, walk_len=3, walks=12, body_len=1, inputs=1, budget=260),
    'structures': dict(ex_len=1, walk_len=2, walks=6, body_len=1, inputs=1, budget=150),
}
THOROUGH = {
    'combs': dict(ex_len=2, walk_len=4, walks=300, body_len=1, inputs=2, budget=9000),
    'structures': dict(ex_len=1, walk_len=4, walks=200, body_len=1, inputs=2, budget=4000),
    'shape-keys': dict(ex_len=1, walk_len=3, walks=100, body_len=1, inputs=1, budget=1200),
}


def replay(case):
    from bounded import C17_annot as A
    return A.replay_case(case)


def run(ck: Check) -> int:
    from bounded import C01_gen as G, C01_harness as H, C17_annot as A
    import pytezos  # noqa: F401
    from pytezos.michelson.types import PairType
    from pytezos.michelson.types.base import MichelsonType
    from pytezos.michelson.instructions import adt
    for nm in ('iter_comb', 'unpairn_comb', 'access_comb', 'update_comb', 'to_micheline_value', 'from_micheline_value', 'from_comb'):
        ck.function(PairType.__dict__[nm], name=f'pytezos.michelson.types.pair:PairType.{nm}')
    ck.function(MichelsonType.__dict__['pack'], name='pytezos.michelson.types.base:MichelsonType.pack')
    for nm in ('GetnInstruction', 'UpdatenInstruction', 'UnpairnInstruction', 'PairnInstruction', 'CarInstruction', 'CdrInstruction'):
        if hasattr(adt, nm):
            ck.function(getattr(adt, nm).__dict__['execute'], name=f'pytezos.michelson.instructions.adt:{nm}.execute')
    from props.C17_P import run_P
    run_P(ck)
    from props.C01_I import run_I_annot
    run_I_annot(ck)      # every instruction case of props/C01_I.py again on operands whose run-time classes are ANNOTATED: same results / failures / types
    ck.assume('annotations are placed only where Michelson accepts them: field annotations on components of pair/or, type annotations anywhere')
    ck.trust('bounded/C17_annot.py (re-annotation of type arguments), bounded/C01_gen.py (programs), bounded/C01_engine.py (observation)')
    ck.rule('case = (program, typed input stack) x re-annotation; class = theme + top-level primitives; re-annotations: every node of every '
            'type argument / stack type down to depth 3 x {%a, :t, both}, all nodes at once x 3, n-ary comb spelling')
    cfg = THOROUGH if ck.thorough() else QUICK
    themes = [t for t in G.C17_THEMES + G.C02_THEMES + G.THEMES if t.name in cfg]
    ck.bound('per_theme', {k: {x: v[x] for x in ('ex_len', 'walk_len', 'body_len', 'inputs', 'budget')} for k, v in cfg.items()})
    ck.bound('annotation_depth', 3)
    tasks = H.make_tasks(themes, cfg, ck.seed)
    results, stats = H.run_tasks(tasks, evaluator=A.eval_case)
    # the identity program observes to_micheline_value / pack of plain values of every stack type
    ident = []
    for th in themes:
        for S0 in th.stacks:
            if S0:
                for V in G.input_vectors(S0, 2, __import__('random').Random(ck.seed)):
                    ident.append(dict(theme=th.name, S=S0, code=[], V=V, env={}, n=0, id=len(ident)))
    for r, c in zip(A.run_cases(ident), ident):
        r.update(cls=H.class_key(c) + 'identity', n=0)
        results.append(r)
    ck.extra['generation'] = stats
    n_var = 0
    for r in results:
        if r['status'] != 'ok':
            continue
        n_var += r['variants']
        s = r.get('sample')
        if s is not None:
            s = dict(s, re_annotations=r['variants'])
        ck.evaluate(r['cls'], sample=s, n=max(r['variants'], 1))
    for r in results:
        for f in r['findings']:
            ck.violation(f['oid'], f['message'], case=f['case'], replay=REPLAY, wclass=f['wclass'])
    n_to = sum(1 for r in results if r['status'] == 'timeout')
    if n_to:
        ck.obligation('C17::terminates', 'undecided', kind='S', backend='native', detail=f'{n_to} case(s) timed out')
    ck.note(f'{len(results)} (program, input) cases x re-annotations = {n_var} relational evaluations')
    ck.exhaustive = False
    return ck.finish('other',
                     'P/S (props/C01_I.py, annotated world): the real execute methods of CAR CDR PAIR UNPAIR PAIR n UNPAIR n GET n UPDATE n LEFT RIGHT CONS NIL '
                     'SOME NONE EMPTY_SET EMPTY_MAP GET MEM UPDATE GET_AND_UPDATE IF IF_NONE IF_LEFT IF_CONS DIP LOOP LOOP_LEFT ITER MAP EQ..GE SIZE UNIT SLICE '
                     'CONCAT JOIN_TICKETS SPLIT_TICKET on opaque / symbolic operands whose RUN-TIME CLASSES carry field and type annotations (as values '
                     'taken out of an annotated pair do): same reference results, no additional failure, same result types modulo annotations as in '
                     'the unannotated world; S (props/C17_P.py): the comb functions iter_comb / unpairn_comb / access_comb / update_comb / to_micheline_value and GET k / '
                     'UPDATE k / UNPAIR m on the real ASTs over opaque components equal the annotation-blind specification for every annotation '
                     'placement of a covering set on combs of 2..5 (6) components; R (bounded): outcome, result types, result values and PACK bytes of the real interpreter are invariant under re-annotation '
                     '(single nodes to depth 3 x {%a, :t, both}, all nodes, n-ary spelling) of stack types and type arguments, on type-directed '
                     'programs manipulating pairs/combs, options, unions and collections')
