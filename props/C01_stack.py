"""C01, stack ADT part: the protected-prefix stack (pytezos.michelson.stack.MichelsonStack) and the instructions built on it.

Abstract view  (prot, live) = (items[:protected], items[protected:]),  well_formed: 0 <= protected <= len(items).
The operations never inspect the items (parametric), so running them on DISTINCT OPAQUE TOKENS decides them for every
value; the stack size, the protected prefix and the depth argument are enumerated exhaustively up to a bound
(S: complete in the values, bounded in the sizes).  Obligations:
   push / peek / pop(n) / protect(n) / restore(n):  whole-view postconditions + frame (`prot` untouched, nothing else moves),
        pop raises iff n > len(live); protect is only demanded under its call-site precondition n <= len(live);
   DIG n / DUG n / DUP n / SWAP / DROP n (real execute methods) on stacks deep enough (well-typed uses only): live' == the reference
   permutation, prot untouched.  (`protect` tests len(items), not len(live): a too-short live part is not always refused — only
   reachable from ill-typed programs, outside the property; remark.)
"""
import itertools


class Tok:
    def __init__(self, i):
        self.i = i

    def __repr__(self):
        return f't{self.i}'

    def duplicate(self):
        return Dup(self)


class Dup(Tok):
    def __init__(self, src):
        self.src, self.i = src, src.i

    def __repr__(self):
        return f'dup(t{self.i})'


def mk(size, prot):
    from pytezos.michelson.stack import MichelsonStack
    st = MichelsonStack([Tok(i) for i in range(size)])
    st.protected = prot
    return st, list(st.items)


def view(st):
    return st.items[:st.protected], st.items[st.protected:]


def run_S(ck):
    from pytezos.michelson.stack import MichelsonStack
    from pytezos.michelson.instructions import stack as SI
    from pytezos.michelson.micheline import MichelineLiteral
    for f in (MichelsonStack.push, MichelsonStack.pop, MichelsonStack.peek, MichelsonStack.protect, MichelsonStack.restore,
              SI.DigInstruction.execute, SI.DugInstruction.execute, SI.DupnInstruction.execute, SI.SwapInstruction.execute, SI.DropnInstruction.execute):
        ck.function(f)
    N = 9 if ck.thorough() else 7
    ck.bound('S.stack_size', f'0..{N}')
    fails = {}

    def ob(oid, ok, case):
        rec = fails.setdefault(oid, [0, 0, None])
        rec[0] += 1
        if not ok:
            rec[1] += 1
            rec[2] = rec[2] or case

    for size in range(N + 1):
        for prot in range(size + 1):
            live_n = size - prot
            # push
            st, items = mk(size, prot)
            x = Tok(99)
            st.push(x)
            p, l = view(st)
            ob('MichelsonStack.push::ensures.live==[x]+live,prot_untouched', st.protected == prot and p == items[:prot] and l == [x] + items[prot:], (size, prot))
            # peek
            st, items = mk(size, prot)
            try:
                r = st.peek()
                ob('MichelsonStack.peek::ensures.top_of_live', live_n > 0 and r is items[prot] and st.items == items, (size, prot))
            except Exception:   # noqa
                ob('MichelsonStack.peek::raises.only_if(live is empty)', live_n == 0, (size, prot))
            for n in range(0, N + 2):
                # pop
                st, items = mk(size, prot)
                try:
                    r = st.pop(n)
                    p, l = view(st)
                    ob('MichelsonStack.pop::ensures.returns live[:n], live==live[n:], prot_untouched',
                       n <= live_n and r == items[prot:prot + n] and p == items[:prot] and l == items[prot + n:] and st.protected == prot, (size, prot, n))
                except Exception:   # noqa
                    ob('MichelsonStack.pop::raises.only_if(n > len(live))', n > live_n and st.items == items and st.protected == prot, (size, prot, n))
                # protect under its call-site precondition n <= len(live), then restore
                if n <= live_n:
                    st, items = mk(size, prot)
                    try:
                        st.protect(n)
                        ok = st.protected == prot + n and st.items == items
                        st.restore(n)
                        ok = ok and st.protected == prot and st.items == items
                    except Exception:   # noqa
                        ok = False
                    ob('MichelsonStack.protect/restore::ensures.prefix_grows_by_n_and_back,items_untouched', ok, (size, prot, n))
                st, items = mk(size, prot)
                try:
                    st.restore(n)
                    ob('MichelsonStack.restore::ensures.protected-=n', n <= prot and st.protected == prot - n and st.items == items, (size, prot, n))
                except Exception:   # noqa
                    ob('MichelsonStack.restore::raises.only_if(n > protected)', n > prot, (size, prot, n))
                # instructions with depth n on the live part
                lit = MichelineLiteral.create(n)
                for name, cls, spec in (
                        ('DIG', SI.DigInstruction, lambda live, n: [live[n]] + live[:n] + live[n + 1:] if n < len(live) else None),
                        ('DUG', SI.DugInstruction, lambda live, n: live[1:n + 1] + [live[0]] + live[n + 1:] if 0 < len(live) and n < len(live) else None),
                        ('DROP', SI.DropnInstruction, lambda live, n: live[n:] if n <= len(live) else None)):
                    st, items = mk(size, prot)
                    I = cls.create_type(args=[lit])
                    want = spec(items[prot:], n)
                    if want is None:
                        continue        # ill-typed (stack too short): outside the property (well-typed programs only)
                    try:
                        I.execute(st, [], None)
                        p, l = view(st)
                        ob(f'{name} n::ensures.live==reference_permutation,prot_untouched',
                           want is not None and l == want and p == items[:prot] and st.protected == prot, (name, size, prot, n))
                    except Exception:   # noqa
                        ob(f'{name} n::fails.only_if(stack too short)', want is None, (name, size, prot, n))
                if n >= 1:
                    st, items = mk(size, prot)
                    I = SI.DupnInstruction.create_type(args=[lit])
                    live = items[prot:]
                    if n > len(live):
                        continue
                    try:
                        I.execute(st, [], None)
                        p, l = view(st)
                        ok = n <= len(live) and len(l) == len(live) + 1 and isinstance(l[0], Dup) and l[0].src is live[n - 1] and l[1:] == live \
                            and p == items[:prot] and st.protected == prot
                        ob('DUP n::ensures.live==[dup(live[n-1])]+live,prot_untouched', ok, ('DUP', size, prot, n))
                    except Exception:   # noqa
                        ob('DUP n::fails.only_if(stack too short)', n > len(live), ('DUP', size, prot, n))
            st, items = mk(size, prot)
            live = items[prot:]
            if len(live) < 2:
                continue
            try:
                SI.SwapInstruction.execute(st, [], None)
                p, l = view(st)
                ob('SWAP::ensures.live==[b,a]+rest,prot_untouched', len(live) >= 2 and l == [live[1], live[0]] + live[2:] and p == items[:prot], ('SWAP', size, prot))
            except Exception:   # noqa
                ob('SWAP::fails.only_if(fewer than two items)', len(live) < 2, ('SWAP', size, prot))
    for oid, (n, bad, case) in fails.items():
        ck.obligation(f'{oid}[{n} (size, protected, n) cases, opaque tokens]', 'failed' if bad else 'discharged', 'S', 'enumeration', 0.0)
        if bad:
            ck.violation(oid, f'{bad} of {n} cases fail, first: {case}', case=dict(kind='stack', case=list(case)), replay='props.C01_stack:replay',
                         wclass=f'stack:{oid}')


def replay(case):
    from vlib.runner import Check

    class _C(Check):
        def __init__(self):
            self.v = []

        def function(self, *a, **k):
            pass

        def bound(self, *a, **k):
            pass

        def thorough(self):
            return False

        def obligation(self, *a, **k):
            pass

        def violation(self, oid, msg, **k):
            self.v.append((oid, msg))
    c = _C()
    run_S(c)
    return bool(c.v), '; '.join(f'{o}: {m}' for o, m in c.v[:3]) or 'stack contracts hold'
