"""C27 (R part) — Node errors map to the most specific registered error class.

Contract on pytezos.rpc.node:RpcError.from_errors (and _gen_error_variants through it):

    errors == []            ==> result is a plain RpcError
    otherwise, with id = errors[-1]['id']  (the LAST error of the list):
      type(result) == registry[k] for the first k registered, k tried in the property's order
          1. the full identifier
          2. the identifier without its `proto.<protocol>.` prefix
          3. its final component
          4. its category
      and plain RpcError when none is registered;  result.args == (errors[-1],)

Identifier forms in scope (property: "proto.<protocol>.<category>.<name> and shorter forms"):
    proto.P.C.N   -> candidates [proto.P.C.N, C.N, N, C]
    C.N           -> candidates [C.N, N, C]
    proto.P.N     -> candidates [proto.P.N, N]          (no category is demanded for this form)
    N             -> candidates [N]
Registry: the live one of pytezos.rpc.errors + synthetic classes registered for every subset of the candidates
(and decoy keys that must never match: `proto`, P, `proto.P`, `proto.P.C`, `P.C`, `P.C.N`), removed afterwards.
"""
from __future__ import annotations
import itertools
from vlib.runner import Check

REPLAY = 'props.C27_R:replay'


def spec_candidates(error_id: str):
    chunks = error_id.split('.')
    out = [error_id]
    rest = chunks
    if chunks[0] == 'proto' and len(chunks) >= 3:
        rest = chunks[2:]
        out.append('.'.join(rest))
    out.append(rest[-1])
    if len(rest) >= 2:
        out.append(rest[0])
    seen, res = set(), []
    for k in out:
        if k not in seen:
            seen.add(k)
            res.append(k)
    return res


def decoys(error_id: str):
    chunks = error_id.split('.')
    if chunks[0] == 'proto' and len(chunks) == 4:
        _, p, c, n = chunks
        return ['proto', p, f'proto.{p}', f'proto.{p}.{c}', f'{p}.{c}', f'{p}.{c}.{n}']
    return []


class _Registry:
    """Temporarily registers synthetic RpcError subclasses for the given keys in the live registry."""

    def __init__(self, keys):
        self.keys = list(keys)
        self.saved = {}
        self.classes = {}

    def __enter__(self):
        from pytezos.rpc.node import RpcError
        import pytezos.rpc.errors  # noqa: the live registry must be loaded
        for k in self.keys:
            if k in RpcError.__handlers__:
                self.saved[k] = RpcError.__handlers__[k]
            self.classes[k] = type('Syn_' + ''.join(ch if ch.isalnum() else '_' for ch in k), (RpcError,), {}, error_id=k)
        return self

    def __exit__(self, *a):
        from pytezos.rpc.node import RpcError
        for k in self.keys:
            RpcError.__handlers__.pop(k, None)
        RpcError.__handlers__.update(self.saved)
        return False


def _evaluate(errors, registered, decoy_keys=()):
    """-> (ok, clause, info).  registered: synthetic keys to register (besides the live registry)."""
    from pytezos.rpc.node import RpcError
    with _Registry(list(registered) + list(decoy_keys)):
        handlers = dict(RpcError.__handlers__)
        try:
            res = RpcError.from_errors([dict(e) for e in errors])
        except Exception as x:  # noqa
            return False, 'from_errors::safety.no_exception', f'raised {type(x).__name__}: {x}'
        if not errors:
            want = RpcError
            want_args = None
        else:
            last = errors[-1]
            want = RpcError
            for k in spec_candidates(last['id']):
                if k in handlers:
                    want = handlers[k]
                    break
            want_args = (last,)
        if type(res) is not want:
            hit = [k for k in spec_candidates(errors[-1]['id']) if k in handlers] if errors else []
            return False, 'from_errors::ensures.most_specific_class', \
                f'returned {type(res).__name__}, expected {want.__name__} (candidates in order ' \
                f'{spec_candidates(errors[-1]["id"]) if errors else []}, registered among them {hit})'
        if want_args is not None and res.args != want_args:
            return False, 'from_errors::ensures.carries_last_error', f'args {res.args!r}, expected {want_args!r}'
    return True, '', ''


def replay(case):
    ok, clause, info = _evaluate(case['errors'], case.get('registered', []), case.get('decoys', []))
    return (not ok), (f'{clause}: {info}' if not ok else 'from_errors returns the most specific registered class')


def _wclass(error_id, registered_candidates):
    """Which candidate should have won, by its role."""
    cands = spec_candidates(error_id)
    chunks = error_id.split('.')
    proto = chunks[0] == 'proto' and len(chunks) >= 3
    rest = chunks[2:] if proto else chunks
    roles = {}
    roles.setdefault(error_id, 'full-id')
    if proto:
        roles.setdefault('.'.join(rest), 'without-proto-prefix')
    roles.setdefault(rest[-1], 'final-component')
    if len(rest) >= 2:
        roles.setdefault(rest[0], 'category')
    first = next((k for k in cands if k in registered_candidates), None)
    form = ('proto.P.' if proto else '') + '.'.join('CN'[-len(rest):] if len(rest) <= 2 else ['C'] + ['N'] * (len(rest) - 1))
    return f'form={form} expected-winner={roles.get(first, "none(generic)")} registered-roles=' + \
        ','.join(sorted(roles[k] for k in registered_candidates if k in roles))


def run_R(ck: Check):
    from pytezos.rpc.node import RpcError, _gen_error_variants
    import pytezos.rpc.errors as live
    ck.function(RpcError.from_errors)
    ck.function(_gen_error_variants)
    ck.assume('identifier forms in scope: proto.P.C.N, C.N, proto.P.N, N (dot-free chunks); for proto.P.N no category is '
              'demanded; longer identifiers are outside the quantifier of the property')
    ck.rule('R: every identifier form x protocols x (live + synthetic) category/name chunks x every subset of its candidate '
            'keys registered (synthetic classes, removed afterwards) x decoy keys registered or not x position of the error in '
            'lists of 1..3 errors; class = (form, expected winner role, set of registered roles, list length)')
    live_keys = sorted(k for k, v in RpcError.__handlers__.items() if v.__module__ == live.__name__)
    ck.bound('live_registry', live_keys)
    protocols = ['alpha', '005-PsBabyM1', 'PtSeouLo']
    seen = set()

    def report(clause, info, case, w):
        if (clause, w) in seen:
            return
        seen.add((clause, w))
        ck.violation(clause, f"errors={case['errors']!r} registered={case['registered']!r} decoys={case['decoys']!r}: {info}",
                     case=case, replay=REPLAY, wclass=w)

    # (1) empty list
    ok, clause, info = _evaluate([], [])
    ck.evaluate('empty list', sample=dict(errors=[], registered=[], decoys=[]))
    if not ok:
        report(clause, info, dict(errors=[], registered=[], decoys=[]), 'empty list')

    # (2) synthetic registries: every subset of the candidates of every form
    chunksets = [('cat', 'name'), ('michelson_v1', 'name'), ('cat', 'script_rejected'), ('tez', 'tez')]
    ids = []
    for c, n in chunksets:
        for p in protocols:
            ids += [f'proto.{p}.{c}.{n}', f'proto.{p}.{n}']
        ids += [f'{c}.{n}', n]
    ids = list(dict.fromkeys(ids))
    ck.bound('synthetic_ids', len(ids))
    for eid in ids:
        cands = spec_candidates(eid)
        live_hit = [k for k in cands if k in live_keys]
        for r in range(len(cands) + 1):
            for sub in itertools.combinations(cands, r):
                for dk in ([], decoys(eid)):
                    if dk == [] and decoys(eid) == [] and False:
                        continue
                    for errors in ([{'id': eid, 'kind': 'temporary'}],
                                   [{'id': 'tez.overflow', 'kind': 'permanent'}, {'id': eid, 'kind': 'temporary', 'with': {'int': '1'}}],
                                   [{'id': eid}, {'id': 'proto.alpha.michelson_v1.bad_return'}, {'id': eid, 'x': 1}]):
                        if dk and not decoys(eid):
                            continue
                        registered_roles = set(sub) | set(live_hit)
                        w = _wclass(eid, registered_roles) + (' +decoys' if dk else '')
                        case = dict(errors=errors, registered=list(sub), decoys=list(dk))
                        ok, clause, info = _evaluate(errors, sub, dk)
                        ck.evaluate(f'{w} len={len(errors)}', sample=case if len(errors) == 2 and len(sub) == 2 and len(ck.samples) < 4 else None)
                        if not ok:
                            report(clause, info, case, w)

    # (3) the live registry alone: identifiers assembled from its own chunks and unregistered ones
    cats = sorted({k.split('.')[0] for k in live_keys} | {'contract', 'gas_exhausted'})
    names = sorted({k.split('.')[-1] for k in live_keys} | {'runtime_error', 'balance_too_low', 'operation'})
    for c in cats:
        for n in names:
            for eid in [f'proto.{p}.{c}.{n}' for p in protocols] + [f'{c}.{n}', n, f'proto.alpha.{n}']:
                errors = [{'id': 'proto.alpha.tez.addition_overflow'}, {'id': eid, 'kind': 'temporary'}]
                cands = spec_candidates(eid)
                w = _wclass(eid, {k for k in cands if k in live_keys}) + ' live'
                case = dict(errors=errors, registered=[], decoys=[])
                ok, clause, info = _evaluate(errors, [], [])
                ck.evaluate(w, sample=case if eid == 'proto.alpha.michelson_v1.script_rejected' else None)
                if not ok:
                    report(clause, info, case, w)
    ck.exhaustive = True
