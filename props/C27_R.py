"""C27 (R part) — Node errors map to the most specific registered error class.

Contract on pytezos.rpc.node:RpcError.from_errors (and _gen_error_variants through it):

    errors == []            ==> result is a plain RpcError
    otherwise, with id = errors[-1]['id']  (the LAST error of the list):
      type(result) == registry[k] for the first k registered, k tried in the property's order
          1. the full identifier
          2. the identifier without its `proto.<protocol>.` prefix
          3. its final component
          4. its category
      and plain RpcError when none is registered;  result.args == (errors[-1],)

Identifier forms in scope (property: "proto.<protocol>.<category>.<name> and shorter forms"):
    proto.P.C.N   -> candidates [proto.P.C.N, C.N, N, C]
    C.N           -> candidates [C.N, N, C]
    proto.P.N     -> candidates [proto.P.N, N]          (no category is demanded for this form)
    N             -> candidates [N]
Registry: synthetic classes registered for every subset of the candidates (and decoy keys that must never match: `proto`,
P, `proto.P`, `proto.P.C`, `P.C`, `P.C.N`), removed afterwards, in four environments (widened by the input audit):
    on top of the live registry of pytezos.rpc.errors  /  in a SCRATCH registry (the dict emptied first, restored afterwards:
    the registry is then exactly the chosen keys - empty for the empty subset, a single category / final component / full id,
    keys that are suffixes and prefixes of each other)
  x each class declared with a str error_id  /  with a LIST of ids (the key next to an unrelated alias, in both positions).
The oracle does not read the registry: the expected class of a synthetic key is the class object this file created for it
(the one registered LAST for that key), the expected class of a live key comes from LIVE_TABLE, written out below from the
documentation of pytezos.rpc.errors.
"""
from __future__ import annotations
import itertools
from vlib.runner import Check

REPLAY = 'props.C27_R:replay'

# the error classes pytezos documents (rpc/errors.py), written out: id -> class name.  NOT read from RpcError.__handlers__.
LIVE_TABLE = {
    'michelson_v1.bad_contract_parameter': 'MichelsonBadContractParameter',
    'michelson_v1.bad_return': 'MichelsonBadReturn',
    'michelson_v1': 'MichelsonError',
    'tez': 'TezArithmeticError',
    'script_rejected': 'MichelsonScriptRejected',
}
ENVS = [('live', 'str'), ('live', 'list'), ('scratch', 'str'), ('scratch', 'list')]


def spec_candidates(error_id: str):
    chunks = error_id.split('.')
    out = [error_id]
    rest = chunks
    if chunks[0] == 'proto' and len(chunks) >= 3:
        rest = chunks[2:]
        out.append('.'.join(rest))
    out.append(rest[-1])
    if len(rest) >= 2:
        out.append(rest[0])
    seen, res = set(), []
    for k in out:
        if k not in seen:
            seen.add(k)
            res.append(k)
    return res


def decoys(error_id: str):
    chunks = error_id.split('.')
    if chunks[0] == 'proto' and len(chunks) == 4:
        _, p, c, n = chunks
        return ['proto', p, f'proto.{p}', f'proto.{p}.{c}', f'{p}.{c}', f'{p}.{c}.{n}']
    return []


class _Registry:
    """Temporarily registers synthetic RpcError subclasses for the given keys: on top of the live registry or (scratch) in the
    emptied registry dict; each class declared with error_id=<key> or with error_id=[<key>, <unrelated alias>] (both orders)."""

    def __init__(self, keys, env=('live', 'str')):
        self.keys = list(keys)
        self.scratch, self.as_list = env[0] == 'scratch', env[1] == 'list'
        self.saved = {}
        self.classes = {}

    def __enter__(self):
        from pytezos.rpc.node import RpcError
        import pytezos.rpc.errors  # noqa: the live registry must be loaded
        self.saved = dict(RpcError.__handlers__)
        if self.scratch:
            RpcError.__handlers__.clear()
        for j, k in enumerate(self.keys):
            alias = f'zz-alias-{j}.of.nothing'
            eid = ([k, alias] if j % 2 else [alias, k]) if self.as_list else k
            self.classes[k] = type('Syn_' + ''.join(ch if ch.isalnum() else '_' for ch in k), (RpcError,), {}, error_id=eid)
        return self

    def expected(self, key):
        """the class a request for exactly this key must be mapped to, or None: synthetic classes first (registered last),
        then the documented live classes (unless the registry was emptied), then live keys this file does not know"""
        from pytezos.rpc.node import RpcError
        if key in self.classes:
            return self.classes[key]
        if self.scratch:
            return None
        if key in LIVE_TABLE:
            import pytezos.rpc.errors as live
            return getattr(live, LIVE_TABLE[key], ('missing class', LIVE_TABLE[key]))
        v = self.saved.get(key)
        return v if v is not None and not key.startswith('zz-alias-') else None

    def __exit__(self, *a):
        from pytezos.rpc.node import RpcError
        RpcError.__handlers__.clear()
        RpcError.__handlers__.update(self.saved)
        return False


def _evaluate(errors, registered, decoy_keys=(), env=('live', 'str')):
    """-> (ok, clause, info).  registered: synthetic keys to register (besides the live registry, or alone if env is scratch)."""
    from pytezos.rpc.node import RpcError
    with _Registry(list(registered) + list(decoy_keys), env) as reg:
        try:
            res = RpcError.from_errors([dict(e) for e in errors])
        except Exception as x:  # noqa
            return False, 'from_errors::safety.no_exception', f'raised {type(x).__name__}: {x}'
        if not errors:
            want = RpcError
            want_args = None
        else:
            last = errors[-1]
            want = RpcError
            for k in spec_candidates(last['id']):
                if reg.expected(k) is not None:
                    want = reg.expected(k)
                    break
            want_args = (last,)
        if type(res) is not want:
            hit = [k for k in spec_candidates(errors[-1]['id']) if reg.expected(k) is not None] if errors else []
            return False, 'from_errors::ensures.most_specific_class', \
                f'returned {type(res).__name__}, expected {getattr(want, "__name__", want)} (candidates in order ' \
                f'{spec_candidates(errors[-1]["id"]) if errors else []}, registered among them {hit}; registry {env[0]}, ' \
                f'classes declared with a {env[1]} error_id)'
        if want_args is not None and res.args != want_args:
            return False, 'from_errors::ensures.carries_last_error', f'args {res.args!r}, expected {want_args!r}'
    return True, '', ''


def replay(case):
    ok, clause, info = _evaluate(case['errors'], case.get('registered', []), case.get('decoys', []), tuple(case.get('env', ('live', 'str'))))
    return (not ok), (f'{clause}: {info}' if not ok else 'from_errors returns the most specific registered class')


def _wclass(error_id, registered_candidates):
    """Which candidate should have won, by its role."""
    cands = spec_candidates(error_id)
    chunks = error_id.split('.')
    proto = chunks[0] == 'proto' and len(chunks) >= 3
    rest = chunks[2:] if proto else chunks
    roles = {}
    roles.setdefault(error_id, 'full-id')
    if proto:
        roles.setdefault('.'.join(rest), 'without-proto-prefix')
    roles.setdefault(rest[-1], 'final-component')
    if len(rest) >= 2:
        roles.setdefault(rest[0], 'category')
    first = next((k for k in cands if k in registered_candidates), None)
    form = ('proto.P.' if proto else '') + '.'.join('CN'[-len(rest):] if len(rest) <= 2 else ['C'] + ['N'] * (len(rest) - 1))
    return f'form={form} expected-winner={roles.get(first, "none(generic)")} registered-roles=' + \
        ','.join(sorted(roles[k] for k in registered_candidates if k in roles))


def run_R(ck: Check):
    from pytezos.rpc.node import RpcError, _gen_error_variants
    import pytezos.rpc.errors as live
    ck.function(RpcError.from_errors)
    ck.function(_gen_error_variants)
    ck.function(RpcError.__init_subclass__)
    ck.assume('identifier forms in scope: proto.P.C.N, C.N, proto.P.N, N (dot-free chunks, empty chunks included); for proto.P.N no '
              'category is demanded; longer identifiers are outside the quantifier of the property; every error carries an id')
    ck.rule('R: every identifier form x protocols x (live + synthetic) category/name chunks x every subset of its candidate '
            'keys registered (synthetic classes, removed afterwards) x decoy keys registered or not x position of the error in '
            'lists of 1..6 errors x registry (on top of the live one / scratch: exactly the chosen keys, empty included) x class '
            'declared with a str / a list of ids; class = (form, expected winner role, set of registered roles, list length, registry)')
    live_keys = sorted(LIVE_TABLE)
    ck.bound('live_registry', live_keys)
    protocols = ['alpha', '005-PsBabyM1', 'PtSeouLo']
    seen = set()

    def report(clause, info, case, w):
        if (clause, w) in seen:
            return
        seen.add((clause, w))
        ck.violation(clause, f"errors={case['errors']!r} registered={case['registered']!r} decoys={case['decoys']!r} "
                             f"env={case.get('env')!r}: {info}", case=case, replay=REPLAY, wclass=w)

    # (0) the documented classes are registered under the documented ids (independent table, not the registry itself)
    bad = {k: v for k, v in LIVE_TABLE.items()
           if getattr(RpcError.__handlers__.get(k), '__name__', None) != v or RpcError.__handlers__[k].__module__ != live.__name__}
    ck.evaluate('documented live classes')
    if bad:
        ck.violation('registry::ensures.documented_classes_registered_under_documented_ids',
                     f'pytezos.rpc.errors: expected id -> class {bad}, registry has '
                     f'{ {k: getattr(RpcError.__handlers__.get(k), "__name__", None) for k in bad} }',
                     case=dict(errors=[{'id': 'proto.alpha.' + sorted(bad)[0]}], registered=[], decoys=[], env=['live', 'str']),
                     replay=REPLAY, wclass='live table ' + ','.join(sorted(bad)))

    # (1) empty list, in every registry environment
    for env in ENVS:
        for reg in ([], ['name']):
            ok, clause, info = _evaluate([], reg, (), env)
            ck.evaluate(f'empty list registry={env[0]}', sample=dict(errors=[], registered=reg, decoys=[], env=list(env)) if env == ENVS[0] else None)
            if not ok:
                report(clause, info, dict(errors=[], registered=reg, decoys=[], env=list(env)), f'empty list {env[0]}')

    # (2) synthetic registries: every subset of the candidates of every form
    chunksets = [('cat', 'name'), ('michelson_v1', 'name'), ('cat', 'script_rejected'), ('tez', 'tez')]
    ids = []
    for c, n in chunksets:
        for p in protocols:
            ids += [f'proto.{p}.{c}.{n}', f'proto.{p}.{n}']
        ids += [f'{c}.{n}', n]
    # degenerate members of the same forms: empty chunks
    ids += ['', 'cat.', '.name', 'proto.alpha..name', 'proto..cat.name', 'proto.alpha.cat.']
    ids = list(dict.fromkeys(ids))
    ck.bound('synthetic_ids', len(ids))
    for eid in ids:
        cands = spec_candidates(eid)
        for env in ENVS:
            live_hit = [k for k in cands if k in live_keys] if env[0] == 'live' else []
            for r in range(len(cands) + 1):
                for sub in itertools.combinations(cands, r):
                    for dk in ([], decoys(eid)):
                        if dk and not decoys(eid):
                            continue
                        for errors in ([{'id': eid, 'kind': 'temporary'}],
                                       [{'id': 'tez.overflow', 'kind': 'permanent'}, {'id': eid, 'kind': 'temporary', 'with': {'int': '1'}}],
                                       [{'id': eid}, {'id': 'proto.alpha.michelson_v1.bad_return'}, {'id': eid, 'x': 1}],
                                       [{'id': 'michelson_v1.bad_return'}, {'id': eid}, {'id': 'tez'}, {'id': 'x.y'}, {'id': 'script_rejected'},
                                        {'id': eid, 'kind': 'permanent', 'location': 7}]):
                            registered_roles = set(sub) | set(live_hit)
                            w = _wclass(eid, registered_roles) + (' +decoys' if dk else '') + \
                                ('' if env == ENVS[0] else f' registry={env[0]} error_id={env[1]}')
                            case = dict(errors=errors, registered=list(sub), decoys=list(dk), env=list(env))
                            ok, clause, info = _evaluate(errors, sub, dk, env)
                            ck.evaluate(f'{w} len={len(errors)}', sample=case if len(errors) == 2 and len(sub) == 2 and len(ck.samples) < 4 else None)
                            if not ok:
                                report(clause, info, case, w)

    # (3) the live registry alone: identifiers assembled from its documented chunks and unregistered ones
    cats = sorted({k.split('.')[0] for k in live_keys} | {'contract', 'gas_exhausted'})
    names = sorted({k.split('.')[-1] for k in live_keys} | {'runtime_error', 'balance_too_low', 'operation'})
    for c in cats:
        for n in names:
            for eid in [f'proto.{p}.{c}.{n}' for p in protocols] + [f'{c}.{n}', n, f'proto.alpha.{n}']:
                errors = [{'id': 'proto.alpha.tez.addition_overflow'}, {'id': eid, 'kind': 'temporary'}]
                cands = spec_candidates(eid)
                w = _wclass(eid, {k for k in cands if k in live_keys}) + ' live'
                case = dict(errors=errors, registered=[], decoys=[], env=['live', 'str'])
                ok, clause, info = _evaluate(errors, [], [])
                ck.evaluate(w, sample=case if eid == 'proto.alpha.michelson_v1.script_rejected' else None)
                if not ok:
                    report(clause, info, case, w)
    ck.exhaustive = True
