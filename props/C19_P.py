"""C19, deductive part: the macro families that are UNBOUNDED in the name — `DII+P`, `DUU+P`, `C[AD]+R`, `SET_C[AD]+R`, `MAP_C[AD]+R` —
for names of EVERY length, on the real ASTs of their handlers in pytezos/michelson/macros.py (PyVC; z3).

(a) induction step over the path.  The handler of `CA q R` (`CD q R`, `SET_CA q R`, `SET_CD q R`, `MAP_CA q R code`, `MAP_CD q R code`) is
    interpreted with the rest of the path `q` a GHOST string (any element of [AD]+, any length).  Its recursive call
    `expand_macro(prim=f'C{q}R', ..., internal=True)` is replaced by the contract (induction hypothesis): it must be a call for exactly the
    macro `C q R` / `SET_C q R` / `MAP_C q R` with the same code argument, no extra arguments, and the annotations the documentation passes
    down; it returns code H — an opaque block, in both representations the real function can return (one instruction node, or a sequence of
    two blocks).  Obligation: on EVERY stack the returned expansion has the same effect as the rule printed in the Michelson documentation
          CA q R        = CAR ; C q R                     SET_CA q R      = DUP ; DIP { CAR ; SET_C q R } ; CDR ; SWAP ; PAIR
          CD q R        = CDR ; C q R                     SET_CD q R      = DUP ; DIP { CDR ; SET_C q R } ; CAR ; PAIR
          MAP_CA q R c  = DUP ; DIP { CAR ; MAP_C q R c } ; CDR ; SWAP ; PAIR
          MAP_CD q R c  = DUP ; DIP { CDR ; MAP_C q R c } ; CAR ; PAIR
    with H standing for the inner macro on both sides.  Stacks are z3 terms (cons/head/tail over an uninterpreted value sort with
    pair/car/cdr); an opaque block is an uninterpreted function from stacks to stacks, so nothing is assumed about the inner expansion.
    The base cases (paths of one letter: CAR/CDR, SET_CAR, SET_CDR, MAP_CAR, MAP_CDR) and every name up to the length bound are the bounded
    part (props/C19.py) on every run.
(b) `DII+P code` / `DUU+P` with a ghost run of I's / U's of symbolic length n >= 2: the result is exactly `DIP n code` / `DUP n` (annotations kept),
    with n = the number of letters.
(c) dispatch.  The registered regular expressions are read live and translated to z3 regular expressions: every name of each family of the
    documented grammar is matched by the handler's regex (inclusion), by no other registered regex (disjointness: `expand_macro` takes the
    first match, so order does not matter), is not a primitive, and the regex has the shape  literal-prefix ( group ) literal-suffix  whose
    group language is exactly the family's path language — so the handler receives exactly the `q` the step quantifies over.
"""
import re
import z3
from vlib.pyvc import Engine, RaiseEx, Sym, Unsupported, Z
from vlib.pyvc.engine import FStr, IntStr
from vlib.pyvc.report import report, run_harness, functions_interpreted

V = z3.DeclareSort('MValue')
S = z3.DeclareSort('MStack')
cons = z3.Function('cons', V, S, S)
head = z3.Function('head', S, V)
tail = z3.Function('tail', S, S)
pair = z3.Function('pair', V, V, V)
car = z3.Function('car', V, V)
cdr = z3.Function('cdr', V, V)


def axioms():
    """Not handed to the solver: the evaluator reduces car/cdr of a pair and head/tail of a cons eagerly, so both sides are normal forms and
    equality is decided without quantifiers (an equality proved without the axioms holds with them; a disequality of normal forms is
    consistent with them, and is then replayed on concrete names of growing length against the real code)."""
    return []


def _axioms_unused():
    a, b, s = z3.Const('a', V), z3.Const('b', V), z3.Const('s', S)
    return [z3.ForAll([a, s], head(cons(a, s)) == a), z3.ForAll([a, s], tail(cons(a, s)) == s),
            z3.ForAll([a, b], car(pair(a, b)) == a), z3.ForAll([a, b], cdr(pair(a, b)) == b)]


class GLetters:
    """a ghost run of letters (the regex group the handler receives): any string of the family's group language, symbolic length >= lo"""
    __pyvc_symbolic__ = True
    __pyvc_strlike__ = True

    def __init__(self, label, lo):
        self.label, self.lo = label, lo
        self.n = z3.Int(f'len_{label}')

    def __pyvc_isinstance__(self, cs):
        return str in cs

    def __pyvc_len__(self, eng):
        eng.assume(self.n >= self.lo)
        return Sym(self.n)

    def __pyvc_truth__(self, eng):
        return True

    def __pyvc_getitem__(self, eng, idx):
        if isinstance(idx, slice):            # a part of the run: some other run of letters (never identified with the whole)
            return GLetters(f'{self.label}[slice]', 0)
        raise Unsupported('a single letter of a ghost run of letters')

    def __repr__(self):
        return f'<{self.label}>'


class Stuck(Exception):
    pass


class Stack:
    """known items on top of an opaque remainder"""

    def __init__(self, items, rest):
        self.items, self.rest = list(items), rest

    def pop(self):
        if self.items:
            return self.items.pop(0)
        r = self.rest
        if z3.is_app(r) and r.decl().eq(cons):      # eager normalisation: head/tail of a cons
            self.rest = r.arg(1)
            return r.arg(0)
        self.rest = tail(r)
        return head(r)

    def push(self, x):
        self.items.insert(0, x)

    def term(self):
        t = self.rest
        for x in reversed(self.items):
            t = cons(x, t)
        return t


def _car(x):
    return x.arg(0) if z3.is_app(x) and x.decl().eq(pair) else car(x)


def _cdr(x):
    return x.arg(1) if z3.is_app(x) and x.decl().eq(pair) else cdr(x)


def _int_arg(a):
    if isinstance(a, dict) and set(a) == {'int'} and isinstance(a['int'], str):
        return int(a['int'])
    raise Stuck(f'numeric argument {a!r}')


def run_code(code, st: Stack):
    """reference meaning of the polymorphic stack instructions the documented rules consist of, plus opaque blocks `$name` (uninterpreted
    stack transformers).  Anything else: Stuck (the obligation is then UNDECIDED, never a violation)."""
    if isinstance(code, list):
        for c in code:
            run_code(c, st)
        return
    if not isinstance(code, dict) or 'prim' not in code:
        raise Stuck(f'not an instruction: {code!r}')
    p, args = code['prim'], code.get('args', [])
    if not isinstance(p, str):
        raise Stuck(f'primitive {p!r}')
    if p.startswith('$'):
        f = z3.Function('block_' + p[1:], S, S)
        st.items, st.rest = [], f(st.term())
    elif p == 'CAR' and not args:
        st.push(_car(st.pop()))
    elif p == 'CDR' and not args:
        st.push(_cdr(st.pop()))
    elif p == 'DUP' and len(args) <= 1:
        n = _int_arg(args[0]) if args else 1
        if n < 1:
            raise Stuck('DUP 0')
        xs = [st.pop() for _ in range(n)]
        for x in reversed(xs):
            st.push(x)
        st.push(xs[-1])
    elif p == 'SWAP' and not args:
        a, b = st.pop(), st.pop()
        st.push(a)
        st.push(b)
    elif p == 'PAIR' and not args:
        a, b = st.pop(), st.pop()
        st.push(pair(a, b))
    elif p == 'UNPAIR' and not args:
        x = st.pop()
        st.push(_cdr(x))
        st.push(_car(x))
    elif p == 'DROP' and not args:
        st.pop()
    elif p == 'DIP' and len(args) in (1, 2):
        n = _int_arg(args[0]) if len(args) == 2 else 1
        body = args[-1]
        if not isinstance(body, list):
            raise Stuck('DIP body is not a sequence')
        xs = [st.pop() for _ in range(n)]
        run_code(body, st)
        for x in reversed(xs):
            st.push(x)
    else:
        raise Stuck(f'instruction {p} {args!r} outside the reference subset of the step')


def effect(code):
    st = Stack([], z3.Const('stack0', S))
    run_code(code, st)
    return st.term()


# ------------------------------------------------------------------------------------------------ (a) induction step
INNER = {'cxr': 'C', 'set': 'SET_C', 'map': 'MAP_C'}
BODY = [{'prim': '$user_code'}]


MAP_BODIES = {   # code arguments of MAP_C q R the handler must pass down untouched, whatever they look like
    'plain': [{'prim': '$user_code'}],
    'empty': [],
    'single-CAR': [{'prim': 'CAR'}],
    'single-DIP-2': [{'prim': 'DIP', 'args': [{'int': '2'}, [{'prim': '$user_code'}]]}],
    'nested-seq': [[{'prim': '$user_code'}, {'prim': 'DUP'}]],
}


def documented(fam, letter, H, body):
    first = {'prim': 'CAR'} if letter == 'A' else {'prim': 'CDR'}
    if fam == 'cxr':
        return [first, H]
    if letter == 'A':
        return [{'prim': 'DUP'}, {'prim': 'DIP', 'args': [[first, H]]}, {'prim': 'CDR'}, {'prim': 'SWAP'}, {'prim': 'PAIR'}]
    return [{'prim': 'DUP'}, {'prim': 'DIP', 'args': [[first, H]]}, {'prim': 'CAR'}, {'prim': 'PAIR'}]


def field_annots(annots):
    return [a for a in annots if a.startswith('%')]


def h_step(mac, fam, letter, annots, body_label='plain'):
    handler = {('cxr', 'A'): 'expand_caxr', ('cxr', 'D'): 'expand_cdxr', ('set', 'A'): 'expand_set_caxr', ('set', 'D'): 'expand_set_cdxr',
               ('map', 'A'): 'expand_map_caxr', ('map', 'D'): 'expand_map_cdxr'}[(fam, letter)]
    tag = f'{handler}[annots={"+".join(annots) or "none"}' + (f',body={body_label}]' if body_label != 'plain' else ']')

    def h(e: Engine):
        import copy
        q = GLetters('q', 1)
        body = [copy.deepcopy(MAP_BODIES[body_label])] if fam == 'map' else []
        calls = []

        def hyp(eng, a, k):
            kw = dict(zip(('prim', 'annots', 'args', 'internal'), a))
            kw.update(k)
            one = eng.fork(z3.Bool('inner_expansion_is_a_single_node'))
            kw['single'] = one
            calls.append(kw)
            if not kw.get('internal', False):
                return [{'prim': '$inner'}]            # external calls always return a sequence
            return {'prim': '$inner'} if one else [{'prim': '$inner_1'}, {'prim': '$inner_2'}]
        e.stub(mac.expand_macro, hyp)
        try:
            r = e.call(getattr(mac, handler), [q, list(annots), body])
        except RaiseEx as ex:
            e.check(f'{tag}::safety.expands', z3.BoolVal(False))
            return
        ok_call = len(calls) == 1
        if ok_call:
            c = calls[0]
            p = c.get('prim')
            ok_call = (isinstance(p, FStr) and len(p.items) == 3 and p.items[0] == INNER[fam] and p.items[1] is q and p.items[2] == 'R')
            got_annots = c.get('annots')
            if fam == 'cxr':      # documented: CA q R annots = CAR ; C q R annots
                ok_annots = got_annots == list(annots)
            else:                 # SET_/MAP_: the field annotations must reach the inner macro; which variable annotations travel with them
                #                   has no effect on any stack and is not demanded
                ok_annots = (isinstance(got_annots, list) and field_annots(got_annots) == field_annots(annots)
                             and all(a in annots for a in got_annots))
            ok_args = c.get('args') == body
        e.check(f'{tag}::hypothesis.applied_once_to(C q R / SET_C q R / MAP_C q R)', z3.BoolVal(bool(ok_call)))
        if not ok_call:
            return
        e.check(f'{tag}::hypothesis.annotations_passed_down_as_documented', z3.BoolVal(bool(ok_annots)))
        e.check(f'{tag}::hypothesis.code_argument_passed_down', z3.BoolVal(bool(ok_args)))
        H = {'prim': '$inner'} if calls[0]['single'] else [{'prim': '$inner_1'}, {'prim': '$inner_2'}]
        try:
            got = effect(r if isinstance(r, list) else [r])
            exp = effect(documented(fam, letter, H, body))
        except Stuck as s:
            raise Unsupported(f'{tag}: {s}')
        e.check(f'{tag}::ensures.same_effect_as_documented_rule_on_every_stack', got == exp)
        # var annotation of the rebuilt pair (SET_/MAP_ only): documentation puts the caller's @annots on the final PAIR
        if fam != 'cxr':
            last = r[-1] if isinstance(r, list) and r else None
            va = [a for a in annots if a.startswith('@')]
            ok = isinstance(last, dict) and last.get('prim') == 'PAIR' and [a for a in last.get('annots', []) if a.startswith('@')] == va
            e.check(f'{tag}::ensures.var_annotation_on_rebuilt_pair', z3.BoolVal(bool(ok)))
    return h


# ------------------------------------------------------------------------------------------------ (b) DII+P / DUU+P
U = {'prim': '$user_code'}
BODIES = {   # code arguments the handler must treat as opaque: plain, empty, and bodies that LOOK like something the macro could merge with
    'plain': [U],
    'empty': [],
    'two': [U, {'prim': 'DROP'}],
    'single-DIP': [{'prim': 'DIP', 'args': [[U]]}],
    'single-DIP-2': [{'prim': 'DIP', 'args': [{'int': '2'}, [U]]}],
    'single-DIP-3-nested': [{'prim': 'DIP', 'args': [{'int': '3'}, [{'prim': 'DIP', 'args': [{'int': '2'}, [U]]}]]}],
    'nested-seq-DIP-2': [[{'prim': 'DIP', 'args': [{'int': '2'}, [U]]}]],
    'single-DUP-2': [{'prim': 'DUP', 'args': [{'int': '2'}]}],
}


def dip_effect_equal(code, n, body):
    """z3 Bool: `code` has the effect of DIP n body on every stack (n concrete)"""
    return effect(code) == effect([{'prim': 'DIP', 'args': [{'int': str(n)}, body]}])


def _undecided_if_unmodelled(r):
    """the depth argument spelled in a way the engine does not model (an opaque text): UNDECIDED, not a violation"""
    from vlib.pyvc.engine import Opaque
    try:
        v = r['args'][0]['int']
    except Exception:   # noqa
        return
    if isinstance(v, Opaque) or (getattr(v, '__pyvc_symbolic__', False) and not isinstance(v, IntStr)):
        raise Unsupported(f'decimal spelling of the depth is not modelled: {v!r}')


def h_depth(mac, which, annots, body_label='plain'):
    import copy
    body = copy.deepcopy(BODIES[body_label])

    def h(e: Engine):
        g = GLetters('run', 2)
        if which == 'DIP':
            tag = f'expand_dixp[body={body_label}]'
            pristine = copy.deepcopy(body)
            try:
                r = e.call(mac.expand_dixp, [g, [], [body]])
            except RaiseEx:
                e.check(f'{tag}::safety.expands', z3.BoolVal(False))
                return
            _undecided_if_unmodelled(r)
            shape = (isinstance(r, dict) and set(r) == {'prim', 'args'} and r['prim'] == 'DIP' and isinstance(r['args'], list) and len(r['args']) == 2
                     and isinstance(r['args'][0], dict) and set(r['args'][0]) == {'int'} and isinstance(r['args'][0]['int'], IntStr))
            e.check(f'{tag}::ensures.is(DIP n code)', z3.BoolVal(bool(shape)))
            if shape:
                e.check(f'{tag}::ensures.n==number_of_I', Z(r['args'][0]['int'].v) == g.n)
                e.check(f'{tag}::ensures.code_is_the_argument', z3.BoolVal(r['args'][1] == pristine or r['args'][1] == [pristine]))
            e.check(f'{tag}::frame.code_argument_not_modified', z3.BoolVal(body == pristine))
        else:
            tag = f'expand_duxp[annots={"+".join(annots) or "none"}]'
            try:
                r = e.call(mac.expand_duxp, [g, list(annots), []])
            except RaiseEx:
                e.check(f'{tag}::safety.expands', z3.BoolVal(False))
                return
            keys = {'prim', 'args'} | ({'annots'} if annots else set())
            _undecided_if_unmodelled(r)
            shape = (isinstance(r, dict) and set(r) == keys and r['prim'] == 'DUP' and isinstance(r['args'], list) and len(r['args']) == 1
                     and isinstance(r['args'][0], dict) and set(r['args'][0]) == {'int'} and isinstance(r['args'][0]['int'], IntStr))
            e.check(f'{tag}::ensures.is(DUP n)', z3.BoolVal(bool(shape)))
            if shape:
                e.check(f'{tag}::ensures.n==number_of_U', Z(r['args'][0]['int'].v) == g.n)
                e.check(f'{tag}::ensures.annotations_kept', z3.BoolVal(r.get('annots', []) == list(annots)))
    return h


# ------------------------------------------------------------------------------------------------ (c) dispatch (z3 regular expressions)
def regex_to_z3(tokens):
    """sre parse tree -> (z3 regex); subset: literals, classes, repeats, groups, branches, ^ and $ (as full-match anchors at the ends)"""
    def cls(items):
        parts = []
        for op, av in items:
            op = str(op)
            if op == 'LITERAL':
                parts.append(z3.Re(chr(av)))
            elif op == 'RANGE':
                parts.append(z3.Range(chr(av[0]), chr(av[1])))
            else:
                raise Unsupported(f'regex class item {op}')
        return z3.Union(*parts) if len(parts) > 1 else parts[0]

    def seq(toks):
        out = []
        for op, av in toks:
            op = str(op)
            if op == 'LITERAL':
                out.append(z3.Re(chr(av)))
            elif op == 'IN':
                out.append(cls(av))
            elif op == 'MAX_REPEAT':
                lo, hi, sub = av
                r = seq(list(sub))
                if str(hi) == 'MAXREPEAT':
                    out.append(z3.Star(r) if lo == 0 else z3.Concat(*([r] * lo + [z3.Star(r)])))
                else:
                    out.append(z3.Loop(r, lo, hi))
            elif op == 'SUBPATTERN':
                out.append(seq(list(av[3])))
            elif op == 'BRANCH':
                alts = [seq(list(x)) for x in av[1]]
                out.append(z3.Union(*alts) if len(alts) > 1 else alts[0])
            else:
                raise Unsupported(f'regex token {op}')
        if not out:
            return z3.Re('')
        return z3.Concat(*out) if len(out) > 1 else out[0]
    return seq(tokens)


def anchored(pattern):
    """tokens of `^...$` without the anchors; None when the regex is not anchored at both ends"""
    import re._parser as sp
    toks = list(sp.parse(pattern))
    if len(toks) >= 2 and str(toks[0][0]) == 'AT' and str(toks[0][1]) == 'AT_BEGINNING' and str(toks[-1][0]) == 'AT' and str(toks[-1][1]) == 'AT_END':
        return toks[1:-1]
    return None


FAMILIES = [   # family of the documented grammar (names NOT covered by a shorter base macro), handler, literal prefix, group language
    ('C[AD][AD]+R (first letter A)', 'CA[AD]+R', 'expand_caxr', 'CA', '[AD]+', 'R'),
    ('C[AD][AD]+R (first letter D)', 'CD[AD]+R', 'expand_cdxr', 'CD', '[AD]+', 'R'),
    ('SET_C[AD][AD]+R (A)', 'SET_CA[AD]+R', 'expand_set_caxr', 'SET_CA', '[AD]+', 'R'),
    ('SET_C[AD][AD]+R (D)', 'SET_CD[AD]+R', 'expand_set_cdxr', 'SET_CD', '[AD]+', 'R'),
    ('MAP_C[AD][AD]+R (A)', 'MAP_CA[AD]+R', 'expand_map_caxr', 'MAP_CA', '[AD]+', 'R'),
    ('MAP_C[AD][AD]+R (D)', 'MAP_CD[AD]+R', 'expand_map_cdxr', 'MAP_CD', '[AD]+', 'R'),
    ('DII+P', 'DII+P', 'expand_dixp', 'D', 'II+', 'P'),
    ('DUU+P', 'DUU+P', 'expand_duxp', 'D', 'UU+', 'P'),
]


def _empty(rx, timeout_ms=20000):
    """is the language of the z3 regex empty?  -> 'unsat' (empty) / 'sat' + witness / 'unknown'"""
    s = z3.String('name')
    sol = z3.Solver()
    sol.set('timeout', timeout_ms)
    sol.add(z3.InRe(s, rx))
    r = sol.check()
    if r == z3.sat:
        return 'sat', sol.model()[s].as_string()
    return str(r), None


def dispatch_obligations(ck, mac):
    import re._parser as sp
    import time
    from pytezos.michelson.tags import prim_tags
    live = []
    for rx, hnd in mac.macros:
        toks = anchored(rx.pattern)
        live.append((rx, hnd.__name__, toks))
    for label, spec, handler, prefix, group, suffix in FAMILIES:
        spec_z = regex_to_z3(list(sp.parse(spec)))
        mine = [(rx, t) for rx, n, t in live if n == handler]
        oid = f'dispatch[{label}]'
        t0 = time.time()
        if len(mine) != 1 or mine[0][1] is None:
            ck.obligation(f'{oid}::handler_registered_once_with_anchored_regex', 'failed', 'P', 'structural', 0.0,
                          f'{len(mine)} registered regex(es) for {handler}')
            ck.violation(f'{oid}::handler_registered_once_with_anchored_regex', f'{handler}: {len(mine)} registered (anchored) regexes',
                         case=dict(name=_shortest(spec), dispatch=True), replay='props.C19:replay', wclass=f'dispatch {handler}')
            continue
        rx, toks = mine[0]
        # inclusion: spec \ live == empty
        st, w = _empty(z3.Intersect(spec_z, z3.Complement(regex_to_z3(toks))))
        _emit(ck, f'{oid}::ensures.every_name_reaches_{handler}', st, w, t0)
        # disjointness from every other registered regex
        for orx, on, otoks in live:
            if on == handler:
                continue
            t1 = time.time()
            if otoks is None:
                _emit(ck, f'{oid}::ensures.no_other_regex_matches[{on}]', 'unknown', None, t1)
                continue
            st, w = _empty(z3.Intersect(spec_z, regex_to_z3(otoks)))
            _emit(ck, f'{oid}::ensures.no_other_regex_matches[{on}]', st, w, t1)
        # not a primitive (finite table, read live)
        t1 = time.time()
        hit = [p for p in prim_tags if re.fullmatch(spec, p)]
        _emit(ck, f'{oid}::ensures.not_a_primitive', 'sat' if hit else 'unsat', hit[0] if hit else None, t1, 'table-scan', 'finite primitive table, read live')
        # shape: literal prefix, ONE group, literal suffix; group language == the family's path language
        t1 = time.time()
        lits = lambda ts: ''.join(chr(av) for op, av in ts if str(op) == 'LITERAL') if all(str(op) == 'LITERAL' for op, av in ts) else None
        gi = [i for i, (op, av) in enumerate(toks) if str(op) == 'SUBPATTERN']
        ok = len(gi) == 1 and lits(toks[:gi[0]]) == prefix and lits(toks[gi[0] + 1:]) == suffix and rx.groups == 1
        _emit(ck, f'{oid}::ensures.handler_receives_the_rest_of_the_path(shape prefix(group)suffix)', 'unsat' if ok else 'sat',
              None if ok else _shortest(spec), t1, 'regex-structure', 'sre parse tree of the live regex')
        if ok:
            gz = regex_to_z3(list(toks[gi[0]][1][3]))
            want = regex_to_z3(list(sp.parse(group)))
            t1 = time.time()
            st, w = _empty(z3.Union(z3.Intersect(gz, z3.Complement(want)), z3.Intersect(want, z3.Complement(gz))))
            _emit(ck, f'{oid}::ensures.group_language_is({group})', st, (prefix + w + suffix) if w is not None else None, t1)


def _shortest(spec):
    return spec.replace('[AD]+', 'A').replace('II+', 'II').replace('UU+', 'UU')


def _emit(ck, oid, status, witness, t0, backend='z3-regex', what='language emptiness'):
    import time
    dt = round(time.time() - t0, 3)
    if status == 'unsat':
        ck.obligation(oid, 'discharged', 'P', backend, dt, what)
    elif status == 'sat':
        ck.obligation(oid, 'failed', 'P', backend, dt, f'witness name {witness!r}')
        ck.violation(oid, f'obligation failed: the name {witness!r} is a counterexample', case=dict(name=witness, dispatch_p=True),
                     replay='props.C19_P:replay', wclass=f'dispatch {oid.split("::")[0]}')
    else:
        ck.obligation(oid, 'undecided', 'P', backend, dt, f'solver answered {status}')


def replay(case):
    """native replay of a dispatch witness: the name must be expanded by exactly one handler and have the documented meaning"""
    from props import C19 as B
    name = case.get('name')
    if case.get('depth_body'):
        return replay_depth(case)
    if not name:
        return False, 'symbolic induction step: concrete replays come from the bounded part (props.C19)'
    import pytezos  # noqa
    from pytezos.michelson import macros as mac
    n = sum(1 for rx, h in mac.macros if rx.findall(name))
    if n != 1:
        return True, f'{n} registered regexes match {name}'
    return B.replay(dict(name=name))


def _names_for(oid):
    """concrete names of growing length for the handler an obligation id belongs to (witness search on the REAL code)"""
    pre = {'expand_caxr': 'CA', 'expand_cdxr': 'CD', 'expand_set_caxr': 'SET_CA', 'expand_set_cdxr': 'SET_CD', 'expand_map_caxr': 'MAP_CA',
           'expand_map_cdxr': 'MAP_CD'}
    for h, p in pre.items():
        if h + '[' in oid:
            for n in range(1, 15):
                for q in {'A' * n, 'D' * n, ('AD' * n)[:n], ('DA' * n)[:n], 'A' * (n - 1) + 'D', 'D' * (n - 1) + 'A'}:
                    yield p + q + 'R'
    if 'expand_dixp' in oid:
        for n in range(2, 40):
            yield 'D' + 'I' * n + 'P'
    if 'expand_duxp' in oid:
        for n in range(2, 40):
            yield 'D' + 'U' * n + 'P'


def replay_depth(case):
    """native: expand DI..IP with the given code argument on the real code and compare its effect with DIP n body"""
    import copy
    import pytezos  # noqa
    from pytezos.michelson import macros as mac
    name, body = case['name'], copy.deepcopy(BODIES[case['body']])
    n = len(name) - 2
    try:
        code = mac.expand_macro(prim=name, annots=[], args=[body])
    except Exception as ex:   # noqa
        return True, f'{name} {{ {case["body"]} body }}: {type(ex).__name__}: {ex}'
    try:
        goal = dip_effect_equal(code, n, BODIES[case['body']])
    except Stuck as st:
        return False, f'reference subset: {st}'
    sol = z3.Solver()
    sol.add(z3.Not(goal))
    if sol.check() == z3.sat:
        return True, f'{name} with the code argument {BODIES[case["body"]]} expands to {code}: not the effect of DIP {n} {{ code }}'
    return False, f'{name} with body {case["body"]}: effect of DIP {n} {{ code }}'


def _replayer_depth_body(label):
    def native(case):
        if not isinstance(case, dict) or 'name' not in case:
            return False, 'no concrete name'
        return replay_depth(case)

    def search():
        for n in range(2, 40):
            c = dict(name='D' + 'I' * n + 'P', body=label, depth_body=True)
            if replay_depth(c)[0]:
                return c
        return None
    return (f'expand_dixp[body={label}]', 'props.C19_P:replay', native, search)


def _replayer(oid_prefix):
    from props import C19 as B

    def native(case):
        if not isinstance(case, dict) or 'name' not in case:
            return False, 'no concrete name'
        return B.replay(case)

    def search():
        for name in _names_for(oid_prefix):
            try:
                bad, info = B.replay(dict(name=name))
            except Exception:   # noqa
                continue
            if bad:
                return dict(name=name)
        return None
    return (oid_prefix, 'props.C19:replay', native, search)


HANDLERS = ('expand_caxr', 'expand_cdxr', 'expand_set_caxr', 'expand_set_cdxr', 'expand_map_caxr', 'expand_map_cdxr', 'expand_dixp', 'expand_duxp')


def run_P(ck, mac):
    ck.assume('C19_P: structural induction over the path of C/SET_C/MAP_C[AD]+R: the recursive expand_macro call is replaced by its contract '
              '(an opaque stack transformer, both return representations); the documented recursive rules are the specification')
    ck.assume('C19_P: regexes with ^...$ are full matches (a trailing newline, which `$` tolerates, cannot occur in a parsed primitive name)')
    ck.trust('PyVC encoding of the Python subset (DESIGN.md 3.2); z3 sequence/regex theory for the dispatch obligations')
    n0 = len([1 for o in ck.obligations]) if hasattr(ck, 'obligations') else 0
    for fam in ('cxr', 'set', 'map'):
        for letter in 'AD':
            for annots, bl in [([], 'plain'), (['%f', '@v'], 'plain')] + ([([], b) for b in MAP_BODIES if b != 'plain'] if fam == 'map' else []):
                eng = Engine()
                eng.axioms.extend(axioms())
                run_harness(ck, eng, h_step(mac, fam, letter, annots, bl), f'step[{fam},{letter},{bl}]')
                report(ck, eng, [_replayer(h + '[') for h in HANDLERS[:6]], kind='P', prefix='step:')
                functions_interpreted(ck, eng)
    for which, annots, bl in [('DIP', [], b) for b in BODIES] + [('DUP', [], 'plain'), ('DUP', ['@x'], 'plain')]:
        eng = Engine()
        run_harness(ck, eng, h_depth(mac, which, annots, bl), f'depth[{which},{bl}]')
        report(ck, eng, [_replayer_depth_body(b) for b in BODIES if b != 'plain'] + [_replayer(h) for h in HANDLERS[6:]], kind='P', prefix='depth:')
        functions_interpreted(ck, eng)
    dispatch_obligations(ck, mac)
