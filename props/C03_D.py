"""C03, deductive part for the DOMAIN types (S: complete in the hash / key / signature / entrypoint bytes, bounded only by the
finite list of base58 kinds): the real `compare` and the real `__lt__` / `__eq__` of AddressType, KeyHashType, KeyType,
SignatureType and ChainIdType are interpreted by PyVC on two values whose payload bytes are SYMBOLIC (= all hashes, all keys),
for every ordered pair of kinds.  base58 strings are ghost values (kind, payload); `base58_decode` / `forge_address` go through
the C09 contracts (forge_address itself is interpreted: its layout is proved in C10).

Spec (Tezos, Script_comparable):
  address    implicit < originated < smart rollup;  implicit by curve tag tz1<tz2<tz3<tz4 then hash bytes; others by hash bytes;
             equal addresses by entrypoint name (absent == "default")
  key_hash   curve tag tz1<tz2<tz3<tz4, then the 20 hash bytes
  key        curve edpk<sppk<p2pk<BLpk, then bytes (for one curve: a total order that is antisymmetric and compatible with
             equality; for ed25519 / secp256k1 / BLS exactly the byte order of the key)
  signature  the raw signature bytes, whatever notation
  chain_id   the 4 bytes
and in every case compare(a,b) == -compare(b,a), compare(a,b) == 0 <=> a and b are the same value.
"""
import itertools
import z3
from vlib.pyvc import Engine, RaiseEx, Sym, Obj, SBytes, Z, ZB, Unsupported
from vlib.pyvc.engine import DecodedStr
from vlib.pyvc.ghoststr import GB58, install, row_of
from vlib.pyvc.report import report, functions_interpreted
from vlib.pyvc.parallel import run_jobs, FakeEng

ADDR_RANK = {b'tz1': (0, 0), b'tz2': (0, 1), b'tz3': (0, 2), b'tz4': (0, 3), b'KT1': (1, 0), b'sr1': (3, 0)}
KH = [b'tz1', b'tz2', b'tz3', b'tz4']
KEYS = {b'edpk': (0, 32), b'sppk': (1, 33), b'p2pk': (2, 33), b'BLpk': (3, 48)}
SIGS = {b'sig': 64, b'edsig': 64, b'spsig': 64, b'p2sig': 64, b'BLsig': 96}


def lex(a: SBytes, b: SBytes):
    """(lt, eq) z3 formulas of the lexicographic order of two byte strings of concrete lengths"""
    k = min(a.n, b.n)
    terms, pre = [], z3.BoolVal(True)
    for i in range(k):
        terms.append(z3.And(pre, a.at(i) < b.at(i)))
        pre = z3.And(pre, a.at(i) == b.at(i))
    terms.append(z3.And(pre, z3.BoolVal(a.n < b.n)))
    return z3.Or(*terms), z3.And(pre, z3.BoolVal(a.n == b.n))


def sgn(lt, eq):
    return z3.If(lt, -1, z3.If(eq, 0, 1))


def _cls(name):
    from pytezos.michelson import types as Ty
    return dict(address=Ty.AddressType, key_hash=Ty.KeyHashType, key=Ty.KeyType, signature=Ty.SignatureType, chain_id=Ty.ChainIdType)[name]


def _val(cls, s):
    o = Obj(cls)
    o.f['value'] = s
    return o


def _ep(e, name, mode):
    """mode: None (no entrypoint == default) | int n (symbolic name of n bytes, never the text 'default')"""
    if mode is None:
        return None, SBytes.from_bytes(b'default')
    b = e.bytes(name, mode)
    if mode == 7:
        # type invariant of AddressType: every constructor path goes through from_value, which drops '%default' (checked on the real
        # from_value in C10's typed layer); so a stored entrypoint is never the text "default"
        r = e.bytes_eq(b, b'default')
        e.assume(z3.Not(ZB(r)))
    return DecodedStr(b), b


def h_pair(ty, ka, kb, epa=None, epb=None):
    from pytezos.michelson.instructions import compare as C
    tag = f'{ty}[{ka.decode()}{_eps(epa)}~{kb.decode()}{_eps(epb)}]'

    def h(e: Engine):
        install(e)
        n = dict(address=20, key_hash=20, chain_id=4).get(ty)
        na = n or (KEYS[ka][1] if ty == 'key' else SIGS[ka])
        nb = n or (KEYS[kb][1] if ty == 'key' else SIGS[kb])
        pa, pb = e.bytes('a', na), e.bytes('b', nb)
        sa, sb = GB58(row_of(ka, na), pa), GB58(row_of(kb, nb), pb)
        ea = eb = None
        if ty == 'address':
            ea, ba = _ep(e, 'ep_a', epa)
            eb, bb = _ep(e, 'ep_b', epb)
            sa.ep, sb.ep = ea, eb
        cls = _cls(ty)
        a, b = _val(cls, sa), _val(cls, sb)
        try:
            r = e.call(C.compare, [a, b])
            r2 = e.call(C.compare, [b, a])
        except RaiseEx as ex:
            e.check(f'compare.{tag}::safety.no_exception[{type(ex.exc).__name__}]', z3.BoolVal(False))
            return
        e.check(f'compare.{tag}::law.antisymmetric(compare(a,b) == -compare(b,a))', Z(r) == -Z(r2))
        e.check(f'compare.{tag}::ensures.result_in(-1,0,1)', z3.Or(Z(r) == -1, Z(r) == 0, Z(r) == 1))
        lt, eq = lex(pa, pb)
        if ty == 'address':
            ra, rb = ADDR_RANK[ka], ADDR_RANK[kb]
            if ra != rb:
                want = z3.IntVal(-1 if ra < rb else 1)
            else:
                elt, eeq = lex(ba, bb)
                want = z3.If(eq, sgn(elt, eeq), sgn(lt, eq))
            e.check(f'compare.{tag}::ensures.result==order(implicit<originated<rollup, curve tag, hash bytes, entrypoint)', Z(r) == want)
        elif ty == 'key_hash':
            want = sgn(lt, eq) if ka == kb else z3.IntVal(-1 if KH.index(ka) < KH.index(kb) else 1)
            e.check(f'compare.{tag}::ensures.result==order(curve tag, hash bytes)', Z(r) == want)
        elif ty == 'key':
            if ka != kb:
                e.check(f'compare.{tag}::ensures.result==order(curve)', Z(r) == (-1 if KEYS[ka][0] < KEYS[kb][0] else 1))
            elif ka == b'p2pk':
                e.check(f'compare.{tag}::ensures.zero_iff_same_key', (Z(r) == 0) == eq)
            else:
                e.check(f'compare.{tag}::ensures.result==order(key bytes)', Z(r) == sgn(lt, eq))
        elif ty == 'signature':
            e.check(f'compare.{tag}::ensures.result==order(signature bytes, notation ignored)', Z(r) == sgn(lt, eq))
        else:
            e.check(f'compare.{tag}::ensures.result==order(chain id bytes)', Z(r) == sgn(lt, eq))
    return h


def h_trans(ty, k):
    """transitivity on one kind (three symbolic values); across kinds the result is a constant rank, checked pairwise above"""
    from pytezos.michelson.instructions import compare as C

    def h(e: Engine):
        install(e)
        n = dict(address=20, key_hash=20, chain_id=4).get(ty) or (KEYS[k][1] if ty == 'key' else SIGS[k])
        ps = [e.bytes(x, n) for x in 'abc']
        vs = [_val(_cls(ty), GB58(row_of(k, n), p)) for p in ps]
        try:
            ab = e.call(C.compare, [vs[0], vs[1]])
            bc = e.call(C.compare, [vs[1], vs[2]])
            ac = e.call(C.compare, [vs[0], vs[2]])
        except RaiseEx as ex:
            e.check(f'compare.{ty}[{k.decode()}]::safety.no_exception[{type(ex.exc).__name__}]', z3.BoolVal(False))
            return
        e.check(f'compare.{ty}[{k.decode()}]::law.transitive(a<=b and b<=c => a<=c)', z3.Implies(z3.And(Z(ab) <= 0, Z(bc) <= 0), Z(ac) <= 0))
        e.check(f'compare.{ty}[{k.decode()}]::law.transitive_strict(a<b and b<=c => a<c)', z3.Implies(z3.And(Z(ab) < 0, Z(bc) <= 0), Z(ac) < 0))
    return h


def _eps(m):
    return '' if m is None else f'%<{m} bytes>'


def job(kind, *args):
    return h_trans(*args) if kind == 'trans' else h_pair(*args)


def _mk(kind: bytes, payload: bytes) -> str:
    from pytezos.crypto.encoding import base58_encode
    return base58_encode(payload, kind).decode()


def spec_native(ty, ka, pa, epa, kb, pb, epb):
    def c(x, y):
        return -1 if x < y else 0 if x == y else 1
    if ty == 'address':
        return c((ADDR_RANK[ka], pa, epa or 'default'), (ADDR_RANK[kb], pb, epb or 'default'))
    if ty == 'key_hash':
        return c((KH.index(ka), pa), (KH.index(kb), pb))
    if ty == 'key':
        if ka != kb:
            return c(KEYS[ka][0], KEYS[kb][0])
        return None if ka == b'p2pk' else c(pa, pb)
    return c(pa, pb)


def native(case):
    from pytezos.michelson.instructions.compare import compare
    ty = case['type']
    if case.get('trans'):
        k = case['ka'].encode()
        vs = [_cls(ty)(_mk(k, case[x])) for x in 'abc']
        ab, bc, ac = compare(vs[0], vs[1]), compare(vs[1], vs[2]), compare(vs[0], vs[2])
        bad = (ab <= 0 and bc <= 0 and not ac <= 0) or (ab < 0 and bc <= 0 and not ac < 0)
        return bad, f'{ty}: compare(a,b)={ab} compare(b,c)={bc} compare(a,c)={ac} for a,b,c = {[v.value for v in vs]}'
    ka, kb = case['ka'].encode(), case['kb'].encode()
    sa, sb = _mk(ka, case['a']), _mk(kb, case['b'])
    epa, epb = case.get('epa'), case.get('epb')
    if epa is not None:
        sa += '%' + epa
    if epb is not None:
        sb += '%' + epb
    a, b = _cls(ty)(sa), _cls(ty)(sb)
    try:
        r, r2 = compare(a, b), compare(b, a)
    except Exception as ex:   # noqa
        return True, f'compare({sa}, {sb}) raised {ex!r}'
    if r != -r2:
        return True, f'{ty}: compare({sa}, {sb}) = {r} but compare(b, a) = {r2}'
    want = spec_native(ty, ka, case['a'], epa, kb, case['b'], epb)
    if want is None:
        same = case['a'] == case['b']
        return (r == 0) != same, f'{ty}: compare({sa}, {sb}) = {r}, same key = {same}'
    return r != want, f'{ty}: COMPARE {sa} {sb} = {r}; Tezos order = {want}'


def replay(case):
    return native(case)


def specs(thorough):
    out = []
    for ka, kb in itertools.product(ADDR_RANK, repeat=2):
        out.append(('pair', 'address', ka, kb, None, None))
    for k in ((b'KT1', b'tz1', b'sr1') if not thorough else tuple(ADDR_RANK)):
        for ea, eb in ((3, 3), (None, 3), (3, None), (7, None), (None, 7), (7, 7), (2, 5), (8, None)):
            out.append(('pair', 'address', k, k, ea, eb))
    out.append(('pair', 'address', b'tz1', b'KT1', 3, None))
    out.append(('pair', 'address', b'sr1', b'KT1', None, 4))
    for ka, kb in itertools.product(KH, repeat=2):
        out.append(('pair', 'key_hash', ka, kb))
    for ka, kb in itertools.product(KEYS, repeat=2):
        out.append(('pair', 'key', ka, kb))
    for ka, kb in itertools.product(SIGS, repeat=2):
        if thorough or ka == kb or b'sig' in (ka, kb) or b'BLsig' in (ka, kb):
            out.append(('pair', 'signature', ka, kb))
    out.append(('pair', 'chain_id', b'Net', b'Net'))
    for ty, ks in (('address', (b'tz1', b'KT1', b'sr1')), ('key_hash', (b'tz2',)), ('key', tuple(KEYS)), ('signature', (b'sig', b'BLsig')), ('chain_id', (b'Net',))):
        for k in ks:
            out.append(('trans', ty, k))
    return out


def _case(s, cex):
    def g(name, n):
        v = cex.get(name, bytes(n))
        return v if isinstance(v, (bytes, bytearray)) else bytes(n)
    if s[0] == 'trans':
        ty, k = s[1], s[2]
        n = dict(address=20, key_hash=20, chain_id=4).get(ty) or (KEYS[k][1] if ty == 'key' else SIGS[k])
        return dict(type=ty, trans=True, ka=k.decode(), a=g('a', n), b=g('b', n), c=g('c', n))
    ty, ka, kb = s[1], s[2], s[3]
    n = dict(address=20, key_hash=20, chain_id=4).get(ty)
    na = n or (KEYS[ka][1] if ty == 'key' else SIGS[ka])
    nb = n or (KEYS[kb][1] if ty == 'key' else SIGS[kb])
    c = dict(type=ty, ka=ka.decode(), kb=kb.decode(), a=g('a', na), b=g('b', nb))
    if ty == 'address':
        for side, m in (('a', s[4]), ('b', s[5])):
            if isinstance(m, int):
                raw = g('ep_' + side, m)
                try:
                    c['ep' + side] = raw.decode()
                except Exception:   # noqa
                    c['ep' + side] = 'a' * m
    return c


def run_domain(ck):
    from pytezos.michelson import types as Ty
    from pytezos.michelson import forge as F
    for f in (Ty.AddressType.__lt__, Ty.AddressType._sort_key, Ty.KeyType.__lt__, Ty.SignatureType.__lt__, Ty.SignatureType.__eq__,
              Ty.StringType.__lt__, Ty.StringType.__eq__, F.forge_address):
        ck.function(f)
    ck.assume('base58 strings are ghost values (kind, payload): base58_decode / b58decode_check by their C09 contracts; text order of two base58 '
              'strings of one kind == byte order of their payloads, of two kinds with unrelated prefixes == order of the prefixes (lemma L-b58a, '
              'vlib/pyvc/ghoststr.py); str order == byte order of the UTF-8 encodings (entrypoint names)')
    sp = specs(ck.thorough())
    ck.bound('S.domain_kind_pairs', len(sp))
    jobs = [(repr(s), 'props.C03_D:job', s, dict(max_paths=4000)) for s in sp]
    for res, s in zip(run_jobs(jobs), sp):
        if 'error' in res:
            raise RuntimeError(f"harness {res['label']} crashed:\n{res['error']}")
        eng = FakeEng(res)

        def nat(cex, s=s):
            c = _case(s, cex or {})
            cex.clear()
            cex.update(c)
            return native(dict(c))
        report(ck, eng, [('', 'props.C03_D:replay', nat, None)], kind='S')
        functions_interpreted(ck, eng)


# ------------------------------------------------------------------------------------------------- induction step (unbounded depth)
def h_step(kind, va, vb):
    """compare on pair / option / or whose components are OPAQUE values of arbitrary comparable component types carrying the induction
    hypothesis "the component's < and == are a strict total order" (symbolic integer ranks: every finite configuration of a total order embeds in Z).
    PairType is always binary (combs are nested to the right), so these three steps + the leaf cases cover every comparable type of any depth."""
    from pytezos.michelson.instructions import compare as C
    from pytezos.michelson import types as Ty
    from pytezos.michelson.types.base import Undefined
    from props.C11_P import GLeaf, GT, mk, obj
    tag = f'{kind}[{va}~{vb}]'

    def h(e: Engine):
        pool = {}
        ta, tb = GT('A', pool), GT('B', pool)

        def leaf(name, t):
            return GLeaf(name, t, e.int('rank_' + name))

        def build(side, var):
            if kind == 'pair':
                cls = mk(Ty.PairType, [ta, tb])
                x, y = leaf(side + '1', ta), leaf(side + '2', tb)
                return obj(cls, items=(x, y)), ('pair', x, y)
            if kind == 'option':
                cls = mk(Ty.OptionType, [ta])
                if var == 'none':
                    return obj(cls, item=None), ('none',)
                x = leaf(side + '1', ta)
                return obj(cls, item=x), ('some', x)
            cls = mk(Ty.OrType, [ta, tb])
            if var == 'left':
                x = leaf(side + '1', ta)
                return obj(cls, items=(x, Undefined)), ('left', x)
            x = leaf(side + '1', tb)
            return obj(cls, items=(Undefined, x)), ('right', x)
        a, ka = build('a', va)
        b, kb = build('b', vb)
        # the two values are of the SAME type: make the classes identical
        b.cls = a.cls

        def c(x, y):
            return sgn(Z(x.rank) < Z(y.rank), Z(x.rank) == Z(y.rank))
        if kind == 'pair':
            c1 = c(ka[1], kb[1])
            want = z3.If(c1 != 0, c1, c(ka[2], kb[2]))
        else:
            rk = {'none': 0, 'some': 1, 'left': 0, 'right': 1}
            if rk[ka[0]] != rk[kb[0]]:
                want = z3.IntVal(-1 if rk[ka[0]] < rk[kb[0]] else 1)
            elif ka[0] == 'none':
                want = z3.IntVal(0)
            else:
                want = c(ka[1], kb[1])
        try:
            r = e.call(C.compare, [a, b])
            r2 = e.call(C.compare, [b, a])
        except RaiseEx as ex:
            e.check(f'compare.step.{tag}::safety.no_exception[{type(ex.exc).__name__}]', z3.BoolVal(False))
            return
        e.check(f'compare.step.{tag}::ensures.result==order(lexicographic / None<Some / Left<Right over the components\' order)', Z(r) == want)
        e.check(f'compare.step.{tag}::law.antisymmetric', Z(r) == -Z(r2))
    return h


def step_specs():
    out = [('pair', 'p', 'p')]
    for a, b in itertools.product(('none', 'some'), repeat=2):
        out.append(('option', a, b))
    for a, b in itertools.product(('left', 'right'), repeat=2):
        out.append(('or', a, b))
    return out


def job_step(*a):
    return h_step(*a)


def run_step(ck):
    from pytezos.michelson import types as Ty
    ck.assume('induction over the type: components are opaque values whose own order is a strict total order (IH, symbolic ranks); the leaf cases are the '
              'symbolic-leaf and domain-type obligations of this check; PairType is binary (right-nested combs)')
    sp = step_specs()
    jobs = [(repr(s), 'props.C03_D:job_step', s, dict(max_paths=4000)) for s in sp]
    for res, s in zip(run_jobs(jobs), sp):
        if 'error' in res:
            raise RuntimeError(f"harness {res['label']} crashed:\n{res['error']}")
        eng = FakeEng(res)
        report(ck, eng, [('', 'props.C03_D:replay_step', lambda cex: (False, 'opaque components: concrete replays come from the symbolic-leaf and bounded parts'), None)], kind='P')
        functions_interpreted(ck, eng)


def replay_step(case):
    return False, 'opaque components: concrete replays come from the symbolic-leaf and bounded parts'
