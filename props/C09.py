"""C09 — Base58Check typed encodings are unambiguous and invertible.

P, per table row (table read live from pytezos.crypto.encoding.base58_encodings), for ALL payloads:
   x = int(bin_prefix ‖ payload ‖ checksum) ranges over [P·256^(n+4), (P+1)·256^(n+4));
   obligation b58row[..]::prefix_len :  58^(L-1) <= x < 58^L  and  x div 58^(L-|hp|) == digits(hp)
   (the string has the documented length L and human-readable prefix hp; bin_prefix[0] != 0 so no leading '1').
P, table level: no two rows with the same encoded length have prefix-related human prefixes.
P (PyVC on the real ASTs, strings as ghost base58 numbers, payload bytes symbolic, lengths per row = complete):
   base58_encode: selects the row or raises ValueError;  base58_decode(base58_encode(v, p)) == v;
   base58_decode returns only for a valid checksum and a matching (prefix, length) row, raises ValueError otherwise;
   _validate / is_* wrappers accept exactly the strings of their kinds.
Assumed (library contract, checked in R): base58.b58encode_check / b58decode_check implement specs/b58.py.
"""
import random
import z3
from vlib.runner import Check
from vlib.pyvc import Engine, RaiseEx, Sym, SBytes, Z, ZB, Unsupported
from vlib.pyvc.report import report, run_harness, functions_interpreted
from vlib.pyvc import solve
from specs import b58 as B58


def table():
    from pytezos.crypto import encoding as E
    return list(E.base58_encodings)


def row_id(r):
    return f'{r[0].decode()}/{r[3]}'


# ------------------------------------------------------------------------------- row obligations
def row_goal(r, x):
    hp, L, bp, n, _ = r
    P = int.from_bytes(bp, 'big')
    lo, hi = P * 256 ** (n + 4), (P + 1) * 256 ** (n + 4)
    D = B58.digits_value(hp.decode())
    k = len(hp)
    pre = z3.And(x >= lo, x < hi)
    goal = z3.And(x >= 58 ** (L - 1), x < 58 ** L, x / (58 ** (L - k)) == D)
    return pre, goal


def native_row(case):
    """replay: does the real base58_encode produce the documented prefix and length for this payload?"""
    from pytezos.crypto.encoding import base58_encode, base58_decode
    hp, L, n = case['prefix'].encode(), case['length'], case['payload_len']
    payload = case['payload']
    s = base58_encode(payload, hp)
    if not s.startswith(hp) or len(s) != L:
        return True, f'base58_encode({payload.hex()}, {hp!r}) = {s!r}: prefix/length ({len(s)}) differ from the documented {hp!r}/{L}'
    try:
        back = base58_decode(s)
    except Exception as e:   # noqa
        return True, f'base58_decode({s!r}) raised {e!r}'
    return back != payload, f'decode(encode(payload)) = {back.hex()}'


def search_row(r):
    hp, L, bp, n, _ = r
    rng = random.Random(1)
    for payload in [bytes(n), b'\xff' * n] + [bytes(rng.getrandbits(8) for _ in range(n)) for _ in range(20)]:
        case = dict(prefix=hp.decode(), length=L, payload_len=n, payload=payload)
        try:
            if native_row(case)[0]:
                return case
        except Exception:   # noqa
            pass
    return None


# ------------------------------------------------------------------------------- ghost base58 strings
LENS = None


class G58:
    """A base58check string seen as the number x = int(decoded bytes ‖ checksum); `data` = the bytes that were
    encoded (when it came from b58encode_check), `valid` = checksum verdict (library contract)."""
    __pyvc_symbolic__ = True

    def __init__(self, x, valid, data=None, lens=None):
        self.x, self.valid, self.data, self.lens = x, valid, data, lens

    def len_is(self, l):
        return z3.And(self.x >= 58 ** (l - 1), self.x < 58 ** l)

    def __pyvc_len__(self, eng):
        return G58Len(self)

    def __pyvc_isinstance__(self, cs):
        return bytes in cs

    def __pyvc_attr__(self, eng, name):
        if name == 'startswith':
            return _Starts(self)
        if name == 'decode':
            return _K(self)
        raise Unsupported(f'G58.{name}')

    def starts(self, p: bytes):
        try:
            D = B58.digits_value(p.decode())
        except KeyError:
            return z3.BoolVal(False)
        k = len(p)
        return z3.Or(*[z3.And(self.len_is(l), self.x / (58 ** (l - k)) == D) for l in self.lens if l >= k])


class _K:
    __pyvc_symbolic__ = True

    def __init__(self, v):
        self.v = v

    def __pyvc_call__(self, eng, args, kwargs):
        return self.v


class _Starts:
    __pyvc_symbolic__ = True

    def __init__(self, g):
        self.g = g

    def __pyvc_call__(self, eng, args, kwargs):
        (p,) = args
        if isinstance(p, tuple):
            return Sym(z3.Or(*[self.g.starts(q) for q in p]))
        return Sym(self.g.starts(p))


class G58Len:
    __pyvc_symbolic__ = True

    def __init__(self, g):
        self.g = g

    def __pyvc_cmp__(self, eng, op, other, refl):
        import ast
        if isinstance(other, int) and isinstance(op, (ast.Eq, ast.NotEq)):
            f = self.g.len_is(other) if other >= 1 else z3.BoolVal(False)
            return Sym(f if isinstance(op, ast.Eq) else z3.Not(f))
        return NotImplemented


def install_lib_stubs(eng, lens):
    """contract of the base58 package (assumed; checked at run time in run_R):
       b58encode_check(d): the string whose number is int(d)*2^32 + checksum(d), 0 <= checksum < 2^32
       b58decode_check(s): raises ValueError unless the checksum is valid, else returns the encoded bytes"""
    import base58

    def enc(e, args, kwargs):
        (d,) = args
        d = e.as_sbytes(d)
        if not d.concrete_len():
            raise Unsupported('b58encode_check of symbolic-length bytes')
        c = z3.Int('checksum')
        e.pc.append(z3.And(c >= 0, c < 2 ** 32))
        val = z3.Sum(*[d.at(i) * 256 ** (d.n - 1 - i) for i in range(d.n)]) if d.n else z3.IntVal(0)
        return G58(val * 2 ** 32 + c, z3.BoolVal(True), data=d, lens=lens)

    def dec(e, args, kwargs):
        (s,) = args
        if not isinstance(s, G58):
            raise Unsupported('b58decode_check of a non-ghost string')
        if not e.fork(s.valid):
            raise RaiseEx(ValueError('Invalid checksum'))
        if s.data is not None:
            return SBytes(s.data.arr, s.data.n, s.data.off, False)
        return e.bytes('decoded')      # arbitrary valid string: content not constrained here
    eng.stub(base58.b58encode_check, enc)
    eng.stub(base58.b58decode_check, dec)


# ------------------------------------------------------------------------------- harnesses on the real functions
def harness_roundtrip(E, r, lens):
    hp, L, bp, n, _ = r
    rid = row_id(r)

    def h(e: Engine):
        install_lib_stubs(e, lens)
        v = e.bytes('payload', n)
        try:
            s = e.call(E.base58_encode, [v, hp])
        except RaiseEx as ex:
            e.check(f'base58_encode[{rid}]::safety.no_exception[{type(ex.exc).__name__}]', z3.BoolVal(False))
            return
        e.check(f'base58_encode[{rid}]::returns.string', z3.BoolVal(isinstance(s, G58)))
        if not isinstance(s, G58):
            return
        e.check(f'base58_encode[{rid}]::ensures.bin_prefix', z3.BoolVal(s.data.n == len(bp) + n) if s.data.concrete_len() else z3.BoolVal(False))
        e.check(f'base58_encode[{rid}]::ensures.bin_prefix_bytes', z3.And(*[s.data.at(i) == bp[i] for i in range(len(bp))]))
        e.check(f'base58_encode[{rid}]::ensures.documented_length', s.len_is(L))
        e.check(f'base58_encode[{rid}]::ensures.documented_prefix', s.starts(hp))
        try:
            back = e.call(E.base58_decode, [s])
        except RaiseEx as ex:
            e.check(f'base58_decode∘encode[{rid}]::safety.no_exception[{type(ex.exc).__name__}]', z3.BoolVal(False))
            return
        ok = isinstance(back, SBytes) and back.concrete_len() and back.n == n
        e.check(f'base58_decode∘encode[{rid}]::length', z3.BoolVal(bool(ok)))
        if ok:
            e.check(f'base58_decode∘encode[{rid}]::identity', z3.And(*[back.at(i) == v.at(i) for i in range(n)]) if n else z3.BoolVal(True))
    return h


def harness_encode_select(E, tbl):
    """base58_encode inspects only len(v) and prefix: exhaustive over (length, prefix) incl. unknown ones"""
    lens_payload = sorted({r[3] for r in tbl} | {0, 1, 19, 21, 31, 33, 47, 49, 63, 65, 95, 97})
    prefixes = sorted({r[0] for r in tbl} | {b'', b'tz', b'tz5', b'XX', b'KT', b'edsig2'})
    results = []

    def mk(n, p):
        def h(e: Engine):
            install_lib_stubs(e, sorted({r[1] for r in tbl}))
            v = e.bytes('payload', n)
            rows = [r for r in tbl if r[3] == n and r[0] == p]
            try:
                s = e.call(E.base58_encode, [v, p])
            except RaiseEx as ex:
                e.check(f'base58_encode::raises.ValueError.iff(no row for (len,prefix))[{p.decode()},{n}]',
                        z3.BoolVal(not rows and isinstance(ex.exc, ValueError)))
                return
            e.check(f'base58_encode::returns.iff(row exists)[{p.decode()},{n}]', z3.BoolVal(len(rows) == 1))
        return h
    return [(n, p, mk(n, p)) for n in lens_payload for p in prefixes]


def harness_decode_arbitrary(E, tbl, lens):
    """any string (ghost number x, any checksum verdict): returns  <=>  checksum valid and some row matches"""
    def h(e: Engine):
        install_lib_stubs(e, lens)
        x = e.int('x', lo=1).e
        valid = e.bool('checksum_valid').e
        s = G58(x, valid, None, lens)
        match = z3.Or(*[z3.And(s.len_is(r[1]), s.starts(r[0])) for r in tbl])
        try:
            e.call(E.base58_decode, [s])
        except RaiseEx as ex:
            e.check('base58_decode::raises.only_if(bad checksum or no (prefix,length) row)', z3.Not(z3.And(valid, match)))
            e.check('base58_decode::raises.ValueError_class', z3.BoolVal(isinstance(ex.exc, ValueError)))
            return
        e.check('base58_decode::returns.only_if(valid checksum and matching row)', z3.And(valid, match))
    return h


WRAPPERS = {
    'is_pkh': [b'tz1', b'tz2', b'tz3', b'tz4'], 'is_l2_pkh': [b'txr1'], 'is_sig': [b'edsig', b'spsig', b'p2sig', b'BLsig', b'sig'],
    'is_bh': [b'B'], 'is_ogh': [b'o'], 'is_kt': [b'KT1'], 'is_sr': [b'sr1'], 'is_chain_id': [b'Net'],
    'is_public_key': [b'edsk', b'edpk', b'spsk', b'sppk', b'p2sk', b'p2pk', b'BLsk', b'BLpk'],
}


def harness_wrapper(E, name, kinds, tbl, lens):
    def h(e: Engine):
        install_lib_stubs(e, lens)
        x = e.int('x', lo=1).e
        valid = e.bool('checksum_valid').e
        s = G58(x, valid, None, lens)
        want = z3.And(valid, z3.Or(*[z3.And(s.len_is(r[1]), s.starts(r[0])) for r in tbl if r[0] in kinds]))
        # scrub_input(bytes) is the identity on bytes: pass the ghost as bytes
        got = e.call(getattr(E, name), [s])
        e.check(f'{name}::ensures.accepts_exactly_its_kinds', ZB(got) == want)
    return h


def native_wrapper(case):
    """find a real string of another kind accepted by the wrapper (counter-models give x, not a checksummed string)"""
    from pytezos.crypto import encoding as E
    name = case['wrapper']
    kinds = WRAPPERS[name]
    for r in table():
        s = E.base58_encode(bytes(range(1, r[3] + 1)), r[0])
        if getattr(E, name)(s) != (r[0] in kinds):
            return True, f'{name}({s.decode()!r}) = {getattr(E, name)(s)} but the string is a "{r[4]}" ({r[0].decode()})'
    # a string of kind A whose text happens to start with a human prefix of the wrapper's kinds (search payloads of A)
    for r in table():
        if r[0] in kinds:
            continue
        for hp in kinds:
            if not hp.startswith(r[0]) or hp == r[0]:
                continue
            found = _string_with_text_prefix(r, hp)
            if found is not None and getattr(E, name)(found):
                return True, f'{name}({found.decode()!r}) = True but the string is a "{r[4]}" ({r[0].decode()}, length {r[1]})'
    return False, 'wrapper agrees with the kinds on the samples'


def job_roundtrip(i):
    from pytezos.crypto import encoding as E
    tbl = table()
    return harness_roundtrip(E, tbl[i], sorted({r[1] for r in tbl}))


def job_select():
    from pytezos.crypto import encoding as E
    hs = harness_encode_select(E, table())

    def h(e):
        # all (length, prefix) pairs in one engine run: each sub-harness is straight-line
        for n, p, sub in hs:
            from vlib.pyvc.engine import PC
            e.pc = PC()
            e.inputs = {}
            sub(e)
    return h


def job_decode():
    from pytezos.crypto import encoding as E
    tbl = table()
    return harness_decode_arbitrary(E, tbl, sorted({r[1] for r in tbl}))


def job_wrapper(name):
    from pytezos.crypto import encoding as E
    tbl = table()
    return harness_wrapper(E, name, WRAPPERS[name], tbl, sorted({r[1] for r in tbl}))


def _string_with_text_prefix(r, text: bytes):
    """a valid string of row r whose text starts with `text` (payload chosen by positional arithmetic, checksum recomputed)"""
    import base58
    hp, L, bp, n, _ = r
    D = B58.digits_value(text.decode())
    lo = D * 58 ** (L - len(text))
    for bump in range(1, 60):
        x = lo + bump * 58 ** (L - len(text) - 2)
        raw = x.to_bytes(len(bp) + n + 4, 'big') if x < 256 ** (len(bp) + n + 4) else None
        if raw is None or not raw.startswith(bp):
            continue
        s = base58.b58encode_check(raw[:-4])
        if s.startswith(text) and len(s) == L:
            return s
    return None


def replay(case):
    if case.get('kind') == 'row':
        return native_row(case)
    if case.get('kind') == 'wrapper':
        return native_wrapper(case)
    if case.get('kind') == 'lib':
        return native_lib(case)
    return False, 'unknown case'


def native_lib(case):
    import base58
    d = case['data']
    s = base58.b58encode_check(d)
    if s.decode() != B58.encode_check(d):
        return True, f'b58encode_check({d.hex()}) = {s!r} ; spec {B58.encode_check(d)!r}'
    if base58.b58decode_check(s) != d:
        return True, 'library round trip'
    return False, 'ok'


# ------------------------------------------------------------------------------- run
def run(ck: Check) -> int:
    from pytezos.crypto import encoding as E
    tbl = table()
    lens = sorted({r[1] for r in tbl})
    for f in (E.base58_encode, E.base58_decode, E._validate, E.scrub_input, E.is_pkh, E.is_sig, E.is_bh, E.is_public_key):
        ck.function(f)
    ck.assume('base58.b58encode_check/b58decode_check implement specs/b58.py (positional base-58 of data‖sha256d[:4]); checked in R')
    ck.assume('a base58 string is identified with its number (no leading "1": every binary prefix starts with a non-zero byte, checked per row)')
    ck.assume('sha256 checksum = uninterpreted 32-bit value')
    ck.trust('PyVC encoding of the Python subset (DESIGN.md 3.2)')
    ck.trust('z3 5.1 linear integer arithmetic with 100..1000-bit constants')
    ck.bound('rows', len(tbl))

    # ---- P: per-row interval obligations (all payloads)
    x = z3.Int('x')
    for r in tbl:
        rid = row_id(r)
        pre, goal = row_goal(r, x)
        res = solve.prove([pre], goal)
        nz = r[2][0] != 0
        if res.status == 'unsat' and nz:
            ck.obligation(f'b58row[{rid}]::prefix_len', 'discharged', 'P', res.backend, res.time_s, f'{r[4]}')
        elif res.status == 'unknown':
            ck.obligation(f'b58row[{rid}]::prefix_len', 'undecided', 'P', res.backend, res.time_s, res.reason)
        else:
            ck.obligation(f'b58row[{rid}]::prefix_len', 'failed', 'P', res.backend, res.time_s)
            case = search_row(r)
            xv = res.model.eval(x).as_long() if res.model is not None else None
            if case is not None:
                case['kind'] = 'row'
                ck.violation(f'b58row[{rid}]::prefix_len', f'"{r[4]}": ' + native_row(case)[1], case=case, replay='props.C09:replay',
                             wclass=f'row {rid}', solver_output=f'counter-model x={xv}')
            else:
                ck.violation(f'b58row[{rid}]::prefix_len', f'"{r[4]}": some number in the row interval has another length/prefix (x={xv})',
                             case=dict(x=str(xv)), wclass=f'row {rid}', solver_output=f'sat x={xv}', confirmed=False)
    # ---- P: table-level unambiguity
    amb = [(a, b) for i, a in enumerate(tbl) for b in tbl[i + 1:]
           if a[1] == b[1] and (a[0].startswith(b[0]) or b[0].startswith(a[0]))]
    if amb:
        for a, b in amb:
            ck.obligation(f'b58table::unambiguous[{row_id(a)}|{row_id(b)}]', 'failed', 'P', 'enumeration')
            ck.violation(f'b58table::unambiguous[{row_id(a)}|{row_id(b)}]',
                         f'rows {a[0]}/{a[1]} and {b[0]}/{b[1]}: a string can be valid for two kinds', case=dict(a=row_id(a), b=row_id(b)),
                         wclass=f'{row_id(a)}|{row_id(b)}', confirmed=False, solver_output='table rows are prefix-related with equal length')
    else:
        ck.obligation('b58table::unambiguous(no equal-length prefix-related rows)', 'discharged', 'P', 'enumeration', 0.0, f'{len(tbl)} rows, all pairs')
    dup = len({(r[0], r[3]) for r in tbl}) != len(tbl)
    ck.obligation('b58table::encode_key_unique(prefix,payload_len)', 'failed' if dup else 'discharged', 'P', 'enumeration')
    if dup:
        ck.violation('b58table::encode_key_unique(prefix,payload_len)', 'two rows share (prefix, payload length)', confirmed=False, solver_output='table')

    # ---- P: the real encode/decode/validate functions through PyVC (process pool)
    from vlib.pyvc.parallel import run_jobs, FakeEng
    jobs = [(f'roundtrip[{row_id(r)}]', 'props.C09:job_roundtrip', (i,), None) for i, r in enumerate(tbl)]
    jobs.append(('encode_select', 'props.C09:job_select', (), None))
    jobs.append(('decode_arbitrary', 'props.C09:job_decode', (), None))
    jobs += [(f'wrapper[{name}]', 'props.C09:job_wrapper', (name,), None) for name in WRAPPERS]
    for res in run_jobs(jobs):
        if 'error' in res:
            raise RuntimeError(f"harness {res['label']} crashed:\n{res['error']}")
        eng = FakeEng(res)
        lab = res['label']
        if lab.startswith('roundtrip['):
            r = next(q for q in tbl if f'roundtrip[{row_id(q)}]' == lab)

            def nat(c, r=r):
                c.clear()
                found = search_row(r)
                if found is None:
                    return False, 'no failing payload among the samples'
                c.update(found, kind='row')
                return True, native_row(found)[1]
            report(ck, eng, [('', 'props.C09:replay', nat, None)])
        elif lab.startswith('wrapper['):
            name = lab[8:-1]

            def natw(c, name=name):
                c.clear()
                c.update(kind='wrapper', wrapper=name)
                return native_wrapper(c)
            report(ck, eng, [('', 'props.C09:replay', natw, None)])
        else:
            report(ck, eng, [])
        functions_interpreted(ck, eng)

    # ---- R: the assumed library contract + corrupted strings on the real functions
    run_R(ck, E, tbl)
    allP = all(o['kind'] == 'P' for o in ck.obligations)
    return ck.finish('proof',
                     'P: per-row interval obligations (all payloads) give documented prefix+length; table unambiguity; real '
                     'base58_encode/base58_decode/_validate/is_* executed symbolically by PyVC over ghost base58 numbers (payload '
                     'lengths are fixed per row, so per-row symbolic execution is complete). R (not counted as proof): the base58 '
                     'package against specs/b58.py and corrupted strings. Remark (not demanded by the property): base58_decode does '
                     'not compare the decoded binary prefix with the row.')


def run_R(ck, E, tbl):
    import base58
    rng = random.Random(ck.seed + 9)
    N = 40 if ck.thorough() else 6
    ck.rule('R: per row N payloads (zeros, ones, random): library vs specs/b58.py, round trip, and corruptions (checksum char, '
            'prefix char, truncation, extension) must be rejected with ValueError; class=(row, corruption kind)')
    for r in tbl:
        hp, L, bp, n, nm = r
        for k in range(N):
            payload = bytes(n) if k == 0 else b'\xff' * n if k == 1 else bytes(rng.getrandbits(8) for _ in range(n))
            d = bp + payload
            lib = base58.b58encode_check(d).decode()
            ck.evaluate(('lib', row_id(r)), sample=dict(row=row_id(r), payload=payload, encoded=lib) if k == 2 and hp in (b'tz1', b'sig') else None)
            if lib != B58.encode_check(d) or base58.b58decode_check(lib) != d:
                ck.violation('base58lib::contract', f'base58 package disagrees with specs/b58.py on {d.hex()}', case=dict(kind='lib', data=d),
                             replay='props.C09:replay', wclass='library')
                return
            try:
                s = E.base58_encode(payload, hp)
            except Exception:   # noqa
                continue
            # corruptions
            sd = s.decode()
            i = rng.randrange(len(hp), len(sd))
            alt = B58.ALPHABET[(B58.INDEX[sd[i]] + 1 + rng.randrange(56)) % 58]
            cors = {'flip': sd[:i] + alt + sd[i + 1:], 'trunc': sd[:-1], 'ext': sd + '1', 'unknown-prefix': 'zz' + sd[2:],
                    'nonalpha': sd[:-1] + '0'}
            for kind, c in cors.items():
                ck.evaluate(('corrupt', row_id(r), kind))
                try:
                    out = E.base58_decode(c.encode())
                except ValueError:
                    continue
                except Exception as ex:   # noqa
                    ck.violation('base58_decode::raises.ValueError_class', f'base58_decode({c!r}) raised {ex!r}', case=dict(kind='corrupt', s=c),
                                 wclass=f'exc {type(ex).__name__}', confirmed=True)
                    continue
                try:
                    B58.decode_check(c)
                    okc = any(len(c) == q[1] and c.startswith(q[0].decode()) for q in tbl)
                except ValueError:
                    okc = False
                if not okc:
                    ck.violation('base58_decode::rejects_corrupted', f'base58_decode({c!r}) = {out.hex()} (corruption {kind} of {sd!r})',
                                 case=dict(kind='corrupt', s=c), wclass=f'{kind}', confirmed=True)
