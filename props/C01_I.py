"""C01 / C02, deductive part on the real `execute` methods of the instruction classes (PyVC over the real ASTs).

What is decided, for ALL values (the operands are OPAQUE values `GLeaf` of OPAQUE types `GT`, or symbolic ints / bools; a
parametric instruction cannot distinguish two opaque values, so running it once on distinct opaque tokens decides it for
every value of every type) and for every enumerated small SHAPE (comb length, collection size, iteration count):

  adt.py      CAR CDR PAIR UNPAIR  PAIR n  UNPAIR n  GET n  UPDATE n  LEFT RIGHT
  struct.py   CONS NIL SOME NONE EMPTY_SET EMPTY_MAP  GET MEM UPDATE(set, map) GET_AND_UPDATE on collections of k opaque elements whose
              keys carry symbolic integer ranks (strictly increasing = the type invariant, C14) and an operand key of symbolic rank:
              every position of the key relative to the existing ones (z3 case split by forking)
  control.py  IF IF_NONE IF_LEFT IF_CONS  DIP  DIP n  LOOP LOOP_LEFT ITER MAP with OPAQUE bodies (ghost instruction objects that record
              the stack view they are run on and replace their inputs by fresh opaque outputs)
  compare.py / generic.py   EQ NEQ LT GT LE GE on a symbolic int, SIZE, UNIT

Obligations per case:
  ::safety.no_exception                  a well-typed use does not fail
  ::ensures.result==spec                 the new stack == Michelson reference semantics (spec functions of this module, written from the
                                         reference over nested tuples of leaves), the rest of the stack untouched (hence the popped count)
  ::ensures.body_runs==spec              (control) which body ran, how often, in which order, on which stack view
  ::ensures.result_type==static          (C02) constructor and component types of every produced value == the Michelson typing rule applied
                                         to the operand types (annotations ignored)
The same case functions run in two "worlds": SymWorld (PyVC, opaque / symbolic operands) and NatWorld (the real code run natively on
concrete ints etc. built from a counter-model) — the latter is the native replay of a failed obligation.
"""
from __future__ import annotations
import z3
from vlib.pyvc import Engine, RaiseEx, Sym, Obj, Z, ZB, Unsupported
from vlib.pyvc.report import report, functions_interpreted
from vlib.pyvc import parallel

REPLAY = 'props.C01_I:replay'


# ===================================================================================================== ghosts
class F:
    __pyvc_symbolic__ = True

    def __init__(self, f):
        self.f = f

    def __pyvc_call__(self, eng, args, kwargs):
        return self.f(eng, args, kwargs)


def _base_classes():
    from pytezos.michelson.types.base import MichelsonType
    from pytezos.michelson.micheline import Micheline
    return (MichelsonType, Micheline, object)


class GT:
    """opaque Michelson type (annotation-free, comparable / duplicable / packable as required by the typing rule of the case)"""
    __pyvc_symbolic__ = True

    def __init__(self, name, base=None):
        """base: the anonymous twin of an ANNOTATED opaque type (field_name 'fld', type_name 'typ'); None for an anonymous type"""
        self.name, self.base = name, base
        self.prim, self.args = f'opaque:{name}', []
        self.literal = None
        self.field_name, self.type_name = ('fld', 'typ') if base is not None else (None, None)

    def __repr__(self):
        return f'GT({self.name}{" %fld :typ" if self.base is not None else ""})'

    def anon(self):
        return self.base if self.base is not None else self

    def __pyvc_issubclass__(self, cs):
        return any(c in _base_classes() for c in cs)

    def _eq(self, e, a, k):
        other = a[0]
        if not isinstance(other, GT) or other.anon() is not self.anon():       # type equality is modulo annotations
            raise RaiseEx(AssertionError(f'expected {getattr(other, "prim", other)}, got {self.prim}'))
        return None

    def _in(self, e, a, k):
        if not any(c in _base_classes() for c in a):
            raise RaiseEx(AssertionError(f'expected one of {[getattr(c, "prim", c) for c in a]}, got {self.prim}'))
        return None

    def __pyvc_attr__(self, eng, name):
        if name == 'literal':
            return None
        if name == 'field_name':
            return self.field_name
        if name == 'type_name':
            return self.type_name
        if name == 'prim':
            return self.prim
        if name == 'args':
            return []
        if name == 'assert_type_equal':
            return F(self._eq)
        if name == 'assert_type_in':
            return F(self._in)
        if name == 'get_anon_type':
            return F(lambda e, a, k: self.anon())
        if name in ('is_comparable', 'is_duplicable', 'is_packable', 'is_pushable', 'is_storable', 'is_passable', 'is_big_map_friendly'):
            return F(lambda e, a, k: True)
        if name == 'as_micheline_expr':
            return F(lambda e, a, k: {'prim': self.prim})
        raise Unsupported(f'opaque type .{name}')


class GLeaf:
    """opaque value of an opaque type; `rank` (symbolic int) orders it when it is used as a key / set element"""
    __pyvc_symbolic__ = True

    def __init__(self, name, ty, rank=None):
        self.name, self.ty, self.rank = name, ty, rank

    def __repr__(self):
        return f'<{self.name}:{self.ty.name}>'

    def __pyvc_isinstance__(self, cs):
        return any(c in _base_classes() for c in cs)

    def __pyvc_type__(self, eng):
        return self.ty

    def __pyvc_truth__(self, eng):
        # a value of an unknown type may be falsy in Python ('' / False / empty collection ...): code that tests the truthiness of a
        # component instead of `is None` must not get away with it
        return eng.bool(f'truthy({self.name})')

    def __pyvc_attr__(self, eng, name):
        if name in ('field_name', 'type_name', 'literal', 'prim', 'args', 'assert_type_equal', 'assert_type_in', 'get_anon_type', 'is_comparable',
                    'is_duplicable', 'is_packable', 'is_pushable', 'is_storable', 'is_passable', 'is_big_map_friendly'):
            return self.ty.__pyvc_attr__(eng, name)
        if name == 'to_literal':
            return F(lambda e, a, k: GLit(self))
        raise Unsupported(f'opaque value .{name}')

    def __pyvc_cmp__(self, eng, op, other, refl):
        import ast
        if not isinstance(other, GLeaf) or self.rank is None or other.rank is None:
            if isinstance(op, ast.Eq):
                return self is other
            if isinstance(op, ast.NotEq):
                return self is not other
            raise Unsupported('order of opaque values without ranks')
        a, b = (other.rank, self.rank) if refl else (self.rank, other.rank)
        a, b = Z(a), Z(b)
        return Sym({ast.Lt: a < b, ast.LtE: a <= b, ast.Gt: a > b, ast.GtE: a >= b, ast.Eq: a == b, ast.NotEq: a != b}[type(op)])


class GLit:
    """the Micheline literal of an opaque value (x.to_literal())"""
    __pyvc_symbolic__ = True

    def __init__(self, leaf):
        self.leaf = leaf


class GText:
    """opaque ASCII text (Michelson strings are printable ASCII: len(s) == len(s.encode())): a sequence of segments (source text, start, stop);
    a source text `name` of symbolic length n is the single segment (name, 0, n).  Slicing and concatenation stay symbolic."""
    __pyvc_symbolic__ = True
    __pyvc_strlike__ = True

    def __init__(self, name, n, segs=None):
        self.name, self.n = name, n
        self.segs = segs if segs is not None else [(name, z3.IntVal(0), Z(n))]

    def __repr__(self):
        return f'<text {self.name}>'

    def __pyvc_isinstance__(self, cs):
        return str in cs

    def __pyvc_len__(self, eng):
        return self.n

    def __pyvc_truth__(self, eng):
        return Sym(Z(self.n) != 0)

    def __pyvc_getitem__(self, eng, sl):
        from vlib.pyvc import solve
        if not isinstance(sl, slice) or sl.step is not None or len(self.segs) != 1:
            raise Unsupported('opaque text: only [start:stop] of a plain text')
        start = z3.IntVal(0) if sl.start is None else Z(sl.start)
        stop = Z(self.n) if sl.stop is None else Z(sl.stop)
        inb = z3.And(start >= 0, start <= stop, stop <= Z(self.n))
        if solve.prove(eng.axioms + list(eng.pc), inb, min(eng.timeout_ms, 3000)).status != 'unsat':
            raise Unsupported('opaque text: slice bounds not provably within the text (clamping not modelled)')
        src, s0, _ = self.segs[0]
        return GText(f'{self.name}[:]', Sym(z3.simplify(stop - start)), [(src, z3.simplify(s0 + start), z3.simplify(s0 + stop))])

    def __pyvc_binop__(self, eng, op, other, refl):
        import ast
        if isinstance(op, ast.Add) and isinstance(other, GText):
            a, b = (other, self) if refl else (self, other)
            return GText(f'{a.name}+{b.name}', Sym(z3.simplify(Z(a.n) + Z(b.n))), a.segs + b.segs)
        return NotImplemented

    def __pyvc_attr__(self, eng, name):
        if name == 'encode':
            return F(lambda e, a, k: _Encoded(self))
        raise Unsupported(f'str.{name} on opaque text')


class _Encoded:
    __pyvc_symbolic__ = True

    def __init__(self, of):
        self.of = of

    def __pyvc_len__(self, eng):
        return self.of.n

    def __pyvc_isinstance__(self, cs):
        return bytes in cs


def mk(base, args, **extra):
    """a real pytezos class parametrised by (ghost or real) arguments, as create_type builds it (no annotations)"""
    from pytezos.michelson.types.base import MichelsonType
    ns = dict(args=list(args))
    if issubclass(base, MichelsonType):
        ns.update(field_name=None, type_name=None)
    ns.update(extra)
    return type(base.__name__, (base,), ns)


class BodyBudget(Exception):
    """an opaque body was run more often than the reference semantics allows"""


class GBody:
    """opaque instruction body: records the stack view it runs on, then applies `effect(stack, call_index)` (pops its inputs, pushes fresh
    opaque outputs).  Works natively (method `execute`) and under PyVC (`__pyvc_attr__`).  `budget` = the largest number of runs the reference
    semantics allows in the case; one more run is a failure of the instruction (BodyBudget), as is a body that cannot find its inputs."""
    __pyvc_symbolic__ = True

    def __init__(self, name, log, effect=None, budget=None):
        self.name, self.log, self.effect, self.budget, self.n = name, log, effect, budget, 0
        self.prim, self.args = f'BODY:{name}', []

    def __repr__(self):
        return f'{{{self.name}}}'

    def execute(self, stack, stdout=None, context=None):
        i = self.n
        self.n += 1
        self.log.append((self.name, i, list(stack.items), stack.protected))
        if self.budget is not None and i >= self.budget:
            raise BodyBudget(f'body {self.name} run {i + 1} times; the reference semantics runs it at most {self.budget} times')
        if self.effect is not None:
            self.effect(stack, i)
        return ('ran', self.name, i)

    def _sym_execute(self, e, a, k):
        try:
            return self.execute(a[0])
        except (Unsupported, RaiseEx):
            raise
        except Exception as ex:   # noqa  the body fails on the stack it was given: a failure of the program, not of the checker
            raise RaiseEx(ex)

    def __pyvc_attr__(self, eng, name):
        if name == 'execute':
            return F(self._sym_execute)
        if name == 'prim':
            return self.prim
        if name == 'args':
            return []
        raise Unsupported(f'opaque body .{name}')


# ===================================================================================================== worlds
def _T():
    from pytezos.michelson import types as T
    return T


GHOST_NAMES = ("'GLeaf'", "'GT'", "'GBody'", "'F'", "'Obj'", "'Sym'", 'GLeaf object', 'GT object', 'GBody object', 'Obj object')
NAT_POOL = ('nat', 'string', 'bytes', 'mutez', 'timestamp', 'bool', 'int')


class World:
    """common interface of the symbolic (PyVC) and the native (replay) run of a case"""

    def __init__(self, want='all', annotated=False):
        self.want = want            # 'values' (C01) | 'types' (C02) | 'all'
        self.annotated = annotated  # C17: the run-time classes of the operands carry field and type annotations
        self.suffix = '[annotated operands]' if annotated else ''
        self.leafids = {}
        self.types, self.atypes = {}, {}

    def oid(self, oid):
        return oid.replace('::', self.suffix + '::', 1) if self.suffix else oid

    def ann(self):
        """class attributes of an operand class: a value taken out of an annotated pair keeps field_name / type_name"""
        return dict(field_name='fld', type_name='typ') if self.annotated else {}

    def cls(self, base, args=()):
        """class of a stand-alone operand of a concrete Michelson type"""
        return mk(base, list(args), **self.ann()) if (self.annotated or args) else base

    def cty(self, key):
        """type of a pair / or COMPONENT (may be annotated); arguments of list / set / map / option / ticket are always anonymous (`ty`)"""
        return self.aty(key) if self.annotated else self.ty(key)

    # -- obligations
    def check(self, oid, goal, kind):
        """kind: 'v' value clause (C01), 't' type clause (C02), 's' safety (both)"""
        if kind == 'v' and self.want == 'types' or kind == 't' and self.want == 'values':
            return
        self._check(self.oid(oid), goal if z3.is_expr(goal) else z3.BoolVal(bool(goal)))

    def typeof(self, v):
        if isinstance(v, GLeaf):
            return v.ty
        if isinstance(v, Obj):
            return v.cls
        return type(v)

    def pair(self, a, b):
        return self.inst(mk(_T().PairType, [self.typeof(a), self.typeof(b)], **self.ann()), items=(a, b))

    def comb(self, xs):
        return xs[0] if len(xs) == 1 else self.pair(xs[0], self.comb(xs[1:]))

    def coll(self, kind, tkeys, items):
        T = _T()
        base = dict(list=T.ListType, set=T.SetType, map=T.MapType)[kind]
        return self.inst(mk(base, [self.ty(t) for t in tkeys], **self.ann()), items=list(items))

    def option(self, tkey, item):
        return self.inst(mk(_T().OptionType, [self.ty(tkey)], **self.ann()), item=item)

    def either(self, tl, tr, left, x):
        from pytezos.michelson.types.base import Undefined
        return self.inst(mk(_T().OrType, [self.cty(tl), self.cty(tr)], is_enum=False, **self.ann()), items=(x, Undefined) if left else (Undefined, x))

    def boolean(self, v):
        return self.inst(self.cls(_T().BoolType), value=v)

    def integer(self, v):
        return self.inst(self.cls(_T().IntType), value=v)

    def nat(self, v):
        return self.inst(self.cls(_T().NatType), value=v)

    def string(self, v):
        return self.inst(self.cls(_T().StringType), value=v)

    def bytesv(self, v):
        return self.inst(self.cls(_T().BytesType), value=v)

    def ticket(self, ticketer, tkey, item, amount):
        return self.inst(mk(_T().TicketType, [self.ty(tkey)], **self.ann()), ticketer=ticketer, item=item, amount=amount)

    def stack(self, items):
        from pytezos.michelson.stack import MichelsonStack
        st = MichelsonStack()
        st.items = list(items)
        return st

    def rest(self):
        return [self.leaf('rest0', 'R0'), self.leaf('rest1', 'R1')]

    def isleaf(self, v):
        return id(v) in self.leafids

    def rank(self, v):
        if isinstance(v, GLeaf):
            return Z(v.rank)
        return Z(fields(v)['value'])


class SymWorld(World):
    sym = True

    def __init__(self, e, want='all', annotated=False):
        super().__init__(want, annotated)
        self.e = e

    def _check(self, oid, goal):
        self.e.check(oid, goal)

    def ty(self, key, ranked=False):
        if key not in self.types:
            self.types[key] = GT(key)
        return self.types[key]

    def aty(self, key):
        if key not in self.atypes:
            self.atypes[key] = GT(key, base=self.ty(key))
        return self.atypes[key]

    def leaf(self, name, tkey, rank=None):
        x = GLeaf(name, self.cty(tkey), rank)
        self.leafids[id(x)] = x
        return x

    def text(self, name):
        return GText(name, self.e.int(f'len({name})', lo=0))

    def rawbytes(self, name, n=None):
        return self.e.bytes(name, n)

    def sint(self, name, lo=None):
        return self.e.int(name, lo=lo)

    def sbool(self, name):
        return self.e.bool(name)

    def assume(self, f):
        self.e.assume(f)

    def inst(self, cls, **f):
        o = Obj(cls)
        o.f.update(f)
        return o

    def run(self, cls, st):
        try:
            self.e.call(self.e.getattr_(cls, 'execute'), [st, [], None])
        except RaiseEx as ex:
            msg = f'{type(ex.exc).__name__}: {ex.exc}'
            if isinstance(ex.exc, (TypeError, AttributeError)) and any(g in msg for g in GHOST_NAMES):
                # python-level operation applied to a ghost by natively run code: a limitation of the model, not a behaviour of pytezos
                raise Unsupported('operation on an opaque value is not modelled: ' + msg[:200])
            return ex.exc
        return None


class NatWorld(World):
    """the real code, natively, on concrete values: opaque types become distinct real leaf types, ranks come from the counter-model"""
    sym = False

    def __init__(self, model, want='all', annotated=False):
        super().__init__(want, annotated)
        self.model = dict(model or {})
        self.failed = []
        self.inconclusive = None
        self.n = 0
        # opaque values that the counter-model makes falsy: realised as empty strings (then every unranked opaque type is `string`)
        self.falsy = {k[7:-1] for k, v in self.model.items() if isinstance(k, str) and k.startswith('truthy(') and v is False}

    def _check(self, oid, goal):
        g = z3.simplify(goal)
        if z3.is_false(g):
            self.failed.append(oid)
        elif not z3.is_true(g):
            self.inconclusive = f'{oid}: not decided on the concrete instance'

    def ty(self, key, ranked=False):
        T = _T()
        if key not in self.types:
            if ranked:
                self.types[key] = T.IntType
            elif self.falsy:
                self.types[key] = T.StringType
            else:
                names = dict(nat=T.NatType, string=T.StringType, bytes=T.BytesType, mutez=T.MutezType, timestamp=T.TimestampType, bool=T.BoolType,
                             int=T.IntType)
                self.types[key] = names[NAT_POOL[len([k for k in self.types.values() if k is not None]) % len(NAT_POOL)]]
        return self.types[key]

    def aty(self, key):
        if key not in self.atypes:
            self.atypes[key] = mk(self.ty(key), [], field_name='fld', type_name='typ')
        return self.atypes[key]

    def text(self, name):
        n = self.model.get(f'len({name})', 0)
        n = n if isinstance(n, int) and 0 <= n <= 4096 else 0
        k = sum(map(ord, name))
        return ''.join(chr(97 + (k + 7 * i) % 26) for i in range(n))

    def rawbytes(self, name, n=None):
        v = self.model.get(name, b'')
        if isinstance(v, str):        # replay files are JSON: bytes travel as repr / hex
            try:
                v = bytes.fromhex(v)
            except ValueError:
                v = v.encode('latin-1', 'ignore')
        v = bytes(v)
        if n is not None:
            v = (v + bytes(n))[:n]
        return v

    def leaf(self, name, tkey, rank=None):
        T = _T()
        base = self.ty(tkey, ranked=rank is not None)
        cls = self.aty(tkey) if self.annotated else base
        self.n += 1
        i = self.n
        if rank is not None:
            x = cls(int(rank))
        elif base is T.StringType:
            x = cls('' if name in self.falsy else f's{i}')
        elif base is T.BytesType:
            x = cls(bytes([i]))
        elif base is T.BoolType:
            x = cls(bool(i % 2))
        else:
            x = cls(i)
        self.leafids[id(x)] = x
        return x

    def sint(self, name, lo=None):
        v = self.model.get(name)
        if not isinstance(v, int) or isinstance(v, bool):
            v = lo if lo is not None else 0
        return v

    def sbool(self, name):
        return bool(self.model.get(name, False))

    def assume(self, f):
        g = z3.simplify(ZB(f))
        if not z3.is_true(g):
            self.inconclusive = 'the concrete instance does not satisfy the assumptions of the case'

    def inst(self, cls, **f):
        o = cls.__new__(cls)
        o.__dict__.update(f)
        return o

    def run(self, cls, st):
        try:
            cls.execute(st, [], None)
        except Exception as ex:   # noqa
            return ex
        return None


# ===================================================================================================== observation
def fields(v):
    return v.f if isinstance(v, Obj) else vars(v)


def absval(w, v):
    """abstract view of a pytezos value (symbolic record or real instance): nested tuples down to the leaves of the case (by identity)"""
    from pytezos.michelson.types.base import Undefined
    if isinstance(v, GLeaf) or w.isleaf(v):
        return ('leaf', v)
    if not isinstance(v, Obj) and not hasattr(type(v), 'prim'):
        return ('not-a-michelson-value', repr(v)[:80])
    cls = w.typeof(v)
    p, f = cls.prim, fields(v)
    if p == 'pair':
        its = f.get('items')
        if not isinstance(its, tuple) or len(its) != 2:
            return ('malformed-pair', repr(its)[:80])
        return ('pair', absval(w, its[0]), absval(w, its[1]))
    if p == 'or':
        its = f.get('items')
        if not isinstance(its, tuple) or len(its) != 2 or (its[0] is Undefined) == (its[1] is Undefined):
            return ('malformed-or', repr(its)[:80])
        return ('right', absval(w, its[1])) if its[0] is Undefined else ('left', absval(w, its[0]))
    if p == 'option':
        it = f.get('item')
        return ('none',) if it is None else ('some', absval(w, it))
    if p in ('list', 'set'):
        its = f.get('items')
        if not isinstance(its, list):
            return ('malformed-' + p, repr(its)[:80])
        return (p, tuple(absval(w, x) for x in its))
    if p == 'map':
        its = f.get('items')
        if not isinstance(its, list) or not all(isinstance(x, tuple) and len(x) == 2 for x in its):
            return ('malformed-map', repr(its)[:80])
        return ('map', tuple(('elt', absval(w, k), absval(w, x)) for k, x in its))
    if p == 'unit':
        return ('unit',)
    if p in ('bool', 'int', 'nat'):
        return ('val', p, f.get('value'))
    return ('unknown', p)


def eqv(w, got, want):
    """z3 Bool: abstract value `got` == abstract value `want`.  ('key', leaf) in `want` = any leaf of the same rank and type
    (a key equal to the operand key in the Michelson order); ('val', prim, term) compares the payload"""
    if not isinstance(got, tuple) or not isinstance(want, tuple) or not got or not want:
        return z3.BoolVal(False)
    if want[0] == 'key':
        if got[0] != 'leaf' or tshape(w.typeof(got[1])) != tshape(w.typeof(want[1])):
            return z3.BoolVal(False)
        return w.rank(got[1]) == w.rank(want[1])
    if got[0] != want[0] or len(got) != len(want):
        return z3.BoolVal(False)
    if got[0] == 'leaf':
        return z3.BoolVal(got[1] is want[1])
    if got[0] == 'val':
        if got[1] != want[1] or got[2] is None:
            return z3.BoolVal(False)
        return (ZB(got[2]) == ZB(want[2])) if got[1] == 'bool' else (Z(got[2]) == Z(want[2]))
    if got[0] in ('list', 'set', 'map'):
        if len(got[1]) != len(want[1]):
            return z3.BoolVal(False)
        return z3.And([eqv(w, a, b) for a, b in zip(got[1], want[1])] + [z3.BoolVal(True)])
    if isinstance(got[1] if len(got) > 1 else None, str) and got[0].startswith(('malformed', 'unknown', 'not-a')):
        return z3.BoolVal(False)
    return z3.And([eqv(w, a, b) for a, b in zip(got[1:], want[1:])] + [z3.BoolVal(True)])


def tshape(t):
    """shape of a type: opaque types by identity, real classes by (prim, argument shapes) — annotations ignored"""
    if isinstance(t, GT):
        return ('opaque', t.anon())
    if not isinstance(t, type) or not hasattr(t, 'prim'):
        return ('not-a-type', repr(t)[:60])
    return (t.prim,) + tuple(tshape(a) for a in t.args)


def A(w, v):
    return absval(w, v)


def TY(w, v):
    return tshape(w.typeof(v))


def L(x):
    return ('leaf', x)


def same_list(a, b):
    """element-wise identity (tuples: component-wise identity) — never the values' own __eq__"""
    if not isinstance(a, (list, tuple)) or not isinstance(b, (list, tuple)) or len(a) != len(b):
        return False
    return all((same_list(x, y) if isinstance(x, tuple) or isinstance(y, tuple) else x is y) for x, y in zip(a, b))


def frame_ok(w, tag, st, exc, n, rest, protected=0):
    """no exception, and the stack is n new slots on top of the untouched rest (identity), protected prefix as before"""
    w.check(f'{tag}::safety.no_exception', exc is None, 's')
    if exc is not None:
        _why(w, f'{tag}::safety.no_exception', f'raised {type(exc).__name__}: {str(exc)[:160]}')
        return False
    if not (len(st.items) == n + len(rest) and same_list(st.items[n:], rest) and st.protected == protected):
        w.check(f'{tag}::ensures.result==spec', False, 'v')
        w.check(f'{tag}::ensures.result_type==static', False, 't')
        return False
    return True


def stack_checks(w, tag, st, exc, want_vals, want_types, rest, protected=0):
    """the three standard obligations: no exception; live stack == want_vals + rest (rest by identity); types of the produced slots"""
    n = len(want_vals)
    if not frame_ok(w, tag, st, exc, n, rest, protected):
        return False
    got = [A(w, x) for x in st.items[:n]]
    w.check(f'{tag}::ensures.result==spec', z3.And([eqv(w, g, s) for g, s in zip(got, want_vals)] + [z3.BoolVal(True)]), 'v')
    if want_types is not None:
        gt = [TY(w, x) for x in st.items[:n]]
        w.check(f'{tag}::ensures.result_type==static', gt == list(want_types), 't')
    return True


def _why(w, oid, text):
    oid = w.oid(oid)
    if w.sym and oid in w.e.obl and w.e.obl[oid]['status'] == 'failed':
        w.e.obl[oid]['reason'] = (w.e.obl[oid].get('reason') or '') + ' | ' + text


def lit(n):
    from pytezos.michelson.micheline import MichelineLiteral
    return MichelineLiteral.create(n)


# ===================================================================================================== Michelson reference semantics
# (over nested tuples ('pair', a, b); the same functions give the typing rules when applied to type shapes)
def S_comb(xs):
    return xs[0] if len(xs) == 1 else ('pair', xs[0], S_comb(xs[1:]))


def S_unpair_n(v, n):
    """UNPAIR n :: pair a1 (pair a2 ... (pair a(n-1) an)) : S  ->  a1 : a2 : ... : an : S"""
    if n == 1:
        return [v]
    assert v[0] == 'pair'
    return [v[1]] + S_unpair_n(v[2], n - 1)


def S_get(v, k):
    """GET 0 x = x;  GET 1 (a, b) = a;  GET (k+2) (a, b) = GET k b"""
    if k == 0:
        return v
    assert v[0] == 'pair'
    return v[1] if k == 1 else S_get(v[2], k - 2)


def S_update(v, k, x):
    """UPDATE 0 x _ = x;  UPDATE 1 x (a, b) = (x, b);  UPDATE (k+2) x (a, b) = (a, UPDATE k x b)"""
    if k == 0:
        return x
    assert v[0] == 'pair'
    return ('pair', x, v[2]) if k == 1 else ('pair', v[1], S_update(v[2], k - 2, x))


def comb_leaves(w, m, inner):
    """m components x0..x(m-1) of distinct opaque types; inner = index of a NON-last component that is itself a pair (or None)"""
    out = []
    for i in range(m):
        if inner is not None and i == inner:
            out.append(w.pair(w.leaf(f'x{i}a', f'A{i}a'), w.leaf(f'x{i}b', f'A{i}b')))
        else:
            out.append(w.leaf(f'x{i}', f'A{i}'))
    return out


def shape_name(m, inner):
    return f'comb={m}' + (f',component {inner} is a pair' if inner is not None else '')


# ===================================================================================================== adt.py
def c_cxr(w, prim):
    from pytezos.michelson.instructions import adt
    tag = prim
    a, b = w.leaf('a', 'A'), w.leaf('b', 'B')
    p, rest = w.pair(a, b), w.rest()
    st = w.stack([p] + rest)
    exc = w.run(adt.CarInstruction if prim == 'CAR' else adt.CdrInstruction, st)
    x = a if prim == 'CAR' else b
    stack_checks(w, tag, st, exc, [L(x)], [TY(w, x)], rest)


def c_pair(w, n, last_pair, plain):
    """PAIR n (plain: the 0-argument PAIR, n == 2) on n opaque values; the last one may itself be a pair"""
    from pytezos.michelson.instructions import adt
    tag = 'PAIR' if plain else f'PAIR n[n={n}{",last component is a pair" if last_pair else ""}]'
    xs = comb_leaves(w, n, n - 1 if last_pair else None)
    rest = w.rest()
    st = w.stack(xs + rest)
    I = adt.PairInstruction if plain else adt.PairnInstruction.create_type(args=[lit(n)])
    exc = w.run(I, st)
    stack_checks(w, tag, st, exc, [S_comb([A(w, x) for x in xs])], [S_comb([TY(w, x) for x in xs])], rest)


def c_unpair(w, n, m, inner, plain):
    from pytezos.michelson.instructions import adt
    tag = 'UNPAIR' if plain else f'UNPAIR n[n={n},{shape_name(m, inner)}]'
    v = w.comb(comb_leaves(w, m, inner))
    rest = w.rest()
    st = w.stack([v] + rest)
    I = adt.UnpairInstruction if plain else adt.UnpairnInstruction.create_type(args=[lit(n)])
    av, tv = A(w, v), TY(w, v)
    exc = w.run(I, st)
    stack_checks(w, tag, st, exc, S_unpair_n(av, n), S_unpair_n(tv, n), rest)


def c_get(w, k, m, inner):
    from pytezos.michelson.instructions import adt
    tag = f'GET n[n={k},{shape_name(m, inner)}]'
    v = w.comb(comb_leaves(w, m, inner)) if m > 0 else w.leaf('x', 'A')
    rest = w.rest()
    st = w.stack([v] + rest)
    av, tv = A(w, v), TY(w, v)
    exc = w.run(adt.GetnInstruction.create_type(args=[lit(k)]), st)
    stack_checks(w, tag, st, exc, [S_get(av, k)], [S_get(tv, k)], rest)


def c_update(w, k, m, inner, elem_pair):
    from pytezos.michelson.instructions import adt
    tag = f'UPDATE n[n={k},{shape_name(m, inner)},new element is {"a pair" if elem_pair else "opaque"}]'
    v = w.comb(comb_leaves(w, m, inner)) if m > 0 else w.leaf('x', 'A')
    y = w.pair(w.leaf('ya', 'Ya'), w.leaf('yb', 'Yb')) if elem_pair else w.leaf('y', 'Y')
    rest = w.rest()
    st = w.stack([y, v] + rest)
    av, tv, ay, ty = A(w, v), TY(w, v), A(w, y), TY(w, y)
    exc = w.run(adt.UpdatenInstruction.create_type(args=[lit(k)]), st)
    stack_checks(w, tag, st, exc, [S_update(av, k, ay)], [S_update(tv, k, ty)], rest)


def c_inj(w, prim):
    from pytezos.michelson.instructions import adt
    tag = prim
    x, rest = w.leaf('x', 'A'), w.rest()
    other = w.ty('B')
    st = w.stack([x] + rest)
    exc = w.run(mk(adt.LeftInstruction if prim == 'LEFT' else adt.RightInstruction, [other]), st)
    if prim == 'LEFT':
        stack_checks(w, tag, st, exc, [('left', L(x))], [('or', TY(w, x), tshape(other))], rest)
    else:
        stack_checks(w, tag, st, exc, [('right', L(x))], [('or', tshape(other), TY(w, x))], rest)


# ===================================================================================================== struct.py
def ranked(w, k, prefix, tkey):
    """k opaque elements of one comparable type with strictly increasing symbolic ranks (the invariant of sets / map keys)"""
    w.ty(tkey, ranked=True)
    rs = [w.sint(f'{prefix}rank{i}') for i in range(k)]
    for a, b in zip(rs, rs[1:]):
        w.assume(Z(a) < Z(b))
    return [w.leaf(f'{prefix}{i}', tkey, rank=r) for i, r in enumerate(rs)]


def key_cases(ranks, r):
    """exhaustive and mutually exclusive positions of r relative to strictly increasing ranks: ('at', i) | ('gap', p) = before element p"""
    k = len(ranks)
    out = [(('at', i), r == ranks[i]) for i in range(k)]
    for p in range(k + 1):
        c = []
        if p > 0:
            c.append(r > ranks[p - 1])
        if p < k:
            c.append(r < ranks[p])
        out.append((('gap', p), z3.And(c + [z3.BoolVal(True)])))
    return out


def by_cases(w, cases, got, spec):
    """z3: for every position case, case => got == spec(case)"""
    return z3.And([z3.Implies(cond, z3.And([eqv(w, g, s) for g, s in zip(got, spec(c))] + [z3.BoolVal(True)])) for c, cond in cases])


def c_cons(w, k):
    from pytezos.michelson.instructions import struct
    tag = f'CONS[list of {k}]'
    xs = [w.leaf(f'x{i}', 'A') for i in range(k)]
    lst, x, rest = w.coll('list', ['A'], xs), w.leaf('x', 'A'), w.rest()
    st = w.stack([x, lst] + rest)
    exc = w.run(struct.ConsInstruction, st)
    stack_checks(w, tag, st, exc, [('list', tuple(L(y) for y in [x] + xs))], [('list', tshape(w.ty('A')))], rest)
    w.check(f'{tag}::ensures.operand_not_modified', same_list(fields(lst)['items'], xs), 'v')


def c_empty(w, prim):
    from pytezos.michelson.instructions import struct
    tag = prim
    rest = w.rest()
    st = w.stack(rest)
    a, b = w.ty('A'), w.ty('B')
    I, val, ty = dict(NIL=(mk(struct.NilInstruction, [a]), ('list', ()), ('list', tshape(a))),
                      NONE=(mk(struct.NoneInstruction, [a]), ('none',), ('option', tshape(a))),
                      EMPTY_SET=(mk(struct.EmptySetInstruction, [a]), ('set', ()), ('set', tshape(a))),
                      EMPTY_MAP=(mk(struct.EmptyMapInstruction, [a, b]), ('map', ()), ('map', tshape(a), tshape(b))))[prim]
    exc = w.run(I, st)
    stack_checks(w, tag, st, exc, [val], [ty], rest)


def c_some(w):
    from pytezos.michelson.instructions import struct
    x, rest = w.leaf('x', 'A'), w.rest()
    st = w.stack([x] + rest)
    exc = w.run(struct.SomeInstruction, st)
    stack_checks(w, 'SOME', st, exc, [('some', L(x))], [('option', TY(w, x))], rest)


def _map(w, k):
    ks = ranked(w, k, 'k', 'K')
    vs = [w.leaf(f'v{i}', 'V') for i in range(k)]
    return ks, vs, w.coll('map', ['K', 'V'], list(zip(ks, vs)))


def _opkey(w):
    return w.leaf('key', 'K', rank=w.sint('keyrank'))


def c_get_map(w, k):
    from pytezos.michelson.instructions import struct
    tag = f'GET[map of {k}]'
    ks, vs, m = _map(w, k)
    key, rest = _opkey(w), w.rest()
    before = list(fields(m)['items'])
    st = w.stack([key, m] + rest)
    exc = w.run(struct.GetInstruction, st)
    if not frame_ok(w, tag, st, exc, 1, rest):
        return
    cases = key_cases([w.rank(x) for x in ks], w.rank(key))
    got = [A(w, st.items[0])]
    w.check(f'{tag}::ensures.result==spec', by_cases(w, cases, got, lambda c: [('some', L(vs[c[1]]))] if c[0] == 'at' else [('none',)]), 'v')
    w.check(f'{tag}::ensures.result_type==static', TY(w, st.items[0]) == ('option', tshape(w.ty('V'))), 't')
    w.check(f'{tag}::ensures.operand_not_modified', same_list(fields(m)['items'], before), 'v')


def c_mem(w, kind, k):
    from pytezos.michelson.instructions import struct
    tag = f'MEM[{kind} of {k}]'
    if kind == 'map':
        ks, vs, c = _map(w, k)
    else:
        ks = ranked(w, k, 'k', 'K')
        c = w.coll('set', ['K'], ks)
    key, rest = _opkey(w), w.rest()
    st = w.stack([key, c] + rest)
    exc = w.run(struct.MemInstruction, st)
    r = w.rank(key)
    member = z3.Or([r == w.rank(x) for x in ks] + [z3.BoolVal(False)])
    stack_checks(w, tag, st, exc, [('val', 'bool', Sym(member))], [('bool',)], rest)


def c_update_set(w, k):
    from pytezos.michelson.instructions import struct
    tag = f'UPDATE[set of {k}]'
    ks = ranked(w, k, 'k', 'K')
    s = w.coll('set', ['K'], ks)
    key, rest = _opkey(w), w.rest()
    flag = w.sbool('flag')
    before = list(ks)
    st = w.stack([key, w.boolean(flag), s] + rest)
    exc = w.run(struct.UpdateInstruction, st)
    if not frame_ok(w, tag, st, exc, 1, rest):
        return
    cases = key_cases([w.rank(x) for x in ks], w.rank(key))

    def spec(add):
        def f(c):
            if c[0] == 'at':
                return [('set', tuple(L(x) for x in ks))] if add else [('set', tuple(L(x) for i, x in enumerate(ks) if i != c[1]))]
            if not add:
                return [('set', tuple(L(x) for x in ks))]
            return [('set', tuple([L(x) for x in ks[:c[1]]] + [('key', key)] + [L(x) for x in ks[c[1]:]]))]
        return f
    got = [A(w, st.items[0])]
    w.check(f'{tag}::ensures.result==spec',
            z3.And(z3.Implies(ZB(flag), by_cases(w, cases, got, spec(True))), z3.Implies(z3.Not(ZB(flag)), by_cases(w, cases, got, spec(False)))), 'v')
    w.check(f'{tag}::ensures.result_type==static', TY(w, st.items[0]) == ('set', tshape(w.ty('K'))), 't')
    w.check(f'{tag}::ensures.operand_not_modified', same_list(fields(s)['items'], before), 'v')


def c_update_map(w, k, some, get_and_update):
    from pytezos.michelson.instructions import struct
    prim = 'GET_AND_UPDATE' if get_and_update else 'UPDATE'
    tag = f'{prim}[map of {k},{"Some v" if some else "None"}]'
    ks, vs, m = _map(w, k)
    key, rest = _opkey(w), w.rest()
    nv = w.leaf('newv', 'V')
    before = list(fields(m)['items'])
    st = w.stack([key, w.option('V', nv if some else None), m] + rest)
    exc = w.run(struct.GetAndUpdateInstruction if get_and_update else struct.UpdateInstruction, st)
    n = 2 if get_and_update else 1
    if not frame_ok(w, tag, st, exc, n, rest):
        return
    cases = key_cases([w.rank(x) for x in ks], w.rank(key))
    elts = [('elt', L(a), L(b)) for a, b in zip(ks, vs)]

    def spec(c):
        if c[0] == 'at':
            i = c[1]
            new = elts[:i] + ([('elt', ('key', key), L(nv))] if some else []) + elts[i + 1:]
            prev = ('some', L(vs[i]))
        else:
            p = c[1]
            new = elts[:p] + ([('elt', ('key', key), L(nv))] if some else []) + elts[p:]
            prev = ('none',)
        return ([prev] if get_and_update else []) + [('map', tuple(new))]
    got = [A(w, x) for x in st.items[:n]]
    w.check(f'{tag}::ensures.result==spec', by_cases(w, cases, got, spec), 'v')
    tm = ('map', tshape(w.ty('K')), tshape(w.ty('V')))
    w.check(f'{tag}::ensures.result_type==static',
            [TY(w, x) for x in st.items[:n]] == ([('option', tshape(w.ty('V')))] if get_and_update else []) + [tm], 't')
    w.check(f'{tag}::ensures.operand_not_modified', same_list(fields(m)['items'], before), 'v')


# ===================================================================================================== control.py
def body_checks(w, tag, exc, log, want):
    """want: list of (body name, expected live stack as list of abstract values | identity objects).  Each entry of the log is
    (name, call index, items at entry, protected at entry)"""
    w.check(f'{tag}::safety.no_exception', exc is None, 's')
    if exc is not None:
        _why(w, f'{tag}::safety.no_exception', f'raised {type(exc).__name__}: {str(exc)[:160]}')
        return False
    ok = len(log) == len(want)
    conds = []
    if ok:
        for (name, i, items, prot), (wname, wprot, wstack) in zip(log, want):
            if name != wname or prot != wprot or len(items) != len(wstack):
                ok = False
                break
            for g, s in zip(items, wstack):
                conds.append(eqv(w, A(w, g), s))
    w.check(f'{tag}::ensures.body_runs==spec', z3.And(conds + [z3.BoolVal(ok)]), 'v')
    return ok


def fresh_out(w, outs, name, tkey):
    def eff(stack, i):
        stack.pop1()
        y = w.leaf(f'{name}{i}', tkey)
        outs.append(y)
        stack.push(y)
    return eff


def c_if(w):
    from pytezos.michelson.instructions import control
    tag = 'IF'
    c = w.sbool('cond')
    rest = w.rest()
    log, outs = [], []

    def eff(name):
        def f(stack, i):
            y = w.leaf(f'out_{name}', 'OUT')
            outs.append(y)
            stack.push(y)
        return f
    bt, bf = GBody('bt', log, eff('bt'), 1), GBody('bf', log, eff('bf'), 1)
    st = w.stack([w.boolean(c)] + rest)
    exc = w.run(mk(control.IfInstruction, [bt, bf]), st)
    w.check(f'{tag}::safety.no_exception', exc is None, 's')
    if exc is not None:
        return
    ran = [x[0] for x in log]
    ok = len(log) == 1 and same_list(log[0][2], rest) and log[0][3] == 0
    w.check(f'{tag}::ensures.body_runs==spec', z3.And(z3.BoolVal(ok), ZB(c) == z3.BoolVal(ran == ['bt'])), 'v')
    w.check(f'{tag}::ensures.result==spec', len(outs) == 1 and len(st.items) == 3 and st.items[0] is outs[0] and same_list(st.items[1:], rest) and st.protected == 0, 'v')


def c_if_none(w, some):
    from pytezos.michelson.instructions import control
    tag = f'IF_NONE[{"Some x" if some else "None"}]'
    x, rest = w.leaf('x', 'A'), w.rest()
    log = []
    bt, bf = GBody('bt', log, None, 1), GBody('bf', log, None, 1)
    st = w.stack([w.option('A', x if some else None)] + rest)
    exc = w.run(mk(control.IfNoneInstruction, [bt, bf]), st)
    want = [('bf', 0, [L(x)] + [L(r) for r in rest])] if some else [('bt', 0, [L(r) for r in rest])]
    if body_checks(w, tag, exc, log, want):
        stack_checks(w, tag, st, exc, [L(x)] if some else [], [TY(w, x)] if some else [], rest)


def c_if_left(w, left):
    from pytezos.michelson.instructions import control
    tag = f'IF_LEFT[{"Left x" if left else "Right y"}]'
    x, rest = w.leaf('x', 'A' if left else 'B'), w.rest()
    log = []
    bt, bf = GBody('bt', log, None, 1), GBody('bf', log, None, 1)
    st = w.stack([w.either('A', 'B', left, x)] + rest)
    exc = w.run(mk(control.IfLeftInstruction, [bt, bf]), st)
    if body_checks(w, tag, exc, log, [('bt' if left else 'bf', 0, [L(x)] + [L(r) for r in rest])]):
        stack_checks(w, tag, st, exc, [L(x)], [TY(w, x)], rest)


def c_if_cons(w, k):
    from pytezos.michelson.instructions import control
    tag = f'IF_CONS[list of {k}]'
    xs, rest = [w.leaf(f'x{i}', 'A') for i in range(k)], w.rest()
    log = []
    bt, bf = GBody('bt', log, None, 1), GBody('bf', log, None, 1)
    lst = w.coll('list', ['A'], xs)
    st = w.stack([lst] + rest)
    exc = w.run(mk(control.IfConsInstruction, [bt, bf]), st)
    if k:
        new = [L(xs[0]), ('list', tuple(L(x) for x in xs[1:]))]
        if body_checks(w, tag, exc, log, [('bt', 0, new + [L(r) for r in rest])]):
            stack_checks(w, tag, st, exc, new, [tshape(w.ty('A')), ('list', tshape(w.ty('A')))], rest)
            w.check(f'{tag}::ensures.operand_not_modified', same_list(fields(lst)['items'], xs), 'v')
    elif body_checks(w, tag, exc, log, [('bf', 0, [L(r) for r in rest])]):
        stack_checks(w, tag, st, exc, [], [], rest)


def c_dip(w, n, plain):
    """DIP n {body}: the body runs on the stack below the n topmost items (protected prefix), which come back untouched"""
    from pytezos.michelson.instructions import control
    tag = 'DIP' if plain else f'DIP n[n={n}]'
    top = [w.leaf(f't{i}', f'T{i}') for i in range(n)]
    x, rest = w.leaf('x', 'A'), w.rest()
    log, outs = [], []
    body = GBody('body', log, fresh_out(w, outs, 'y', 'B'), 1)
    st = w.stack(top + [x] + rest)
    I = mk(control.DipInstruction, [body]) if plain else mk(control.DipnInstruction, [lit(n), body])
    exc = w.run(I, st)
    if body_checks(w, tag, exc, log, [('body', n, [L(t) for t in top] + [L(x)] + [L(r) for r in rest])]):
        stack_checks(w, tag, st, exc, [L(t) for t in top] + [L(outs[0])], None, rest)


def c_loop(w, nmax):
    """LOOP {body}: the conditions are symbolic; the body leaves the next condition on the stack.  On every path the body ran exactly as many
    times as there are leading True conditions and the loop stopped at the first False one"""
    from pytezos.michelson.instructions import control
    tag = f'LOOP[at most {nmax} iterations]'
    cs = [w.sbool(f'cond{i}') for i in range(nmax + 1)]
    w.assume(z3.Not(z3.And([ZB(c) for c in cs])))
    rest = w.rest()
    log = []

    def eff(stack, i):
        stack.push(w.boolean(cs[i + 1]))
    body = GBody('body', log, eff, nmax)
    st = w.stack([w.boolean(cs[0])] + rest)
    exc = w.run(mk(control.LoopInstruction, [body]), st)
    w.check(f'{tag}::safety.no_exception', exc is None, 's')
    if exc is not None:
        return
    n = len(log)
    ok = all(e[0] == 'body' and same_list(e[2], rest) and e[3] == 0 for e in log) and n <= nmax
    spec = z3.And([ZB(c) for c in cs[:n]] + [z3.Not(ZB(cs[n]))]) if ok else z3.BoolVal(False)
    w.check(f'{tag}::ensures.body_runs==spec', spec, 'v')
    w.check(f'{tag}::ensures.result==spec', same_list(st.items, rest) and st.protected == 0, 'v')


def c_loop_left(w, n):
    from pytezos.michelson.instructions import control
    tag = f'LOOP_LEFT[{n} iterations]'
    xs = [w.leaf(f'x{i}', 'A') for i in range(n)]
    y, rest = w.leaf('y', 'B'), w.rest()
    ors = [w.either('A', 'B', True, x) for x in xs] + [w.either('A', 'B', False, y)]
    log = []

    def eff(stack, i):
        stack.pop1()
        stack.push(ors[i + 1])
    body = GBody('body', log, eff, n)
    st = w.stack([ors[0]] + rest)
    exc = w.run(mk(control.LoopLeftInstruction, [body]), st)
    if body_checks(w, tag, exc, log, [('body', 0, [L(x)] + [L(r) for r in rest]) for x in xs]):
        stack_checks(w, tag, st, exc, [L(y)], [TY(w, y)], rest)


def _src(w, kind, k):
    if kind == 'map':
        ks, vs, c = _map(w, k)
        elts = [('pair', L(a), L(b)) for a, b in zip(ks, vs)]
        et = ('pair', tshape(w.ty('K')), tshape(w.ty('V')))
        return ks, c, elts, et
    xs = ranked(w, k, 'k', 'K') if kind == 'set' else [w.leaf(f'x{i}', 'K') for i in range(k)]
    return xs, w.coll(kind, ['K'], xs), [L(x) for x in xs], tshape(w.ty('K'))


def c_iter(w, kind, k):
    from pytezos.michelson.instructions import control
    tag = f'ITER[{kind} of {k}]'
    xs, c, elts, et = _src(w, kind, k)
    rest = w.rest()
    log, seen = [], []

    def eff(stack, i):
        seen.append(stack.pop1())
    body = GBody('body', log, eff, k)
    before = list(fields(c)['items'])
    st = w.stack([c] + rest)
    exc = w.run(mk(control.IterInstruction, [body]), st)
    if body_checks(w, tag, exc, log, [('body', 0, [e] + [L(r) for r in rest]) for e in elts]):
        stack_checks(w, tag, st, exc, [], [], rest)
        w.check(f'{tag}::ensures.result_type==static[element seen by the body]', all(TY(w, x) == et for x in seen), 't')
        w.check(f'{tag}::ensures.operand_not_modified', same_list(fields(c)['items'], before), 'v')


def c_map(w, kind, k):
    from pytezos.michelson.instructions import control
    tag = f'MAP[{kind} of {k}]'
    xs, c, elts, et = _src(w, kind, k)
    rest = w.rest()
    log, outs, seen = [], [], []

    def eff(stack, i):
        seen.append(stack.pop1())
        y = w.leaf(f'y{i}', 'B')
        outs.append(y)
        stack.push(y)
    body = GBody('body', log, eff, k)
    before = list(fields(c)['items'])
    st = w.stack([c] + rest)
    exc = w.run(mk(control.MapInstruction, [body]), st)
    if not body_checks(w, tag, exc, log, [('body', 0, [e] + [L(r) for r in rest]) for e in elts]):
        return
    tb, tk = tshape(w.ty('B')), tshape(w.ty('K'))
    if kind == 'map':
        want, wt = ('map', tuple(('elt', L(a), L(y)) for a, y in zip(xs, outs))), ('map', tk, tb)
    else:
        want, wt = ('list', tuple(L(y) for y in outs)), ('list', tb)
    stack_checks(w, tag, st, exc, [want], [wt], rest)
    w.check(f'{tag}::ensures.result_type==static[element seen by the body]', all(TY(w, x) == et for x in seen), 't')
    w.check(f'{tag}::ensures.operand_not_modified', same_list(fields(c)['items'], before), 'v')


# ===================================================================================================== compare.py / generic.py
def c_zero_compare(w, prim):
    from pytezos.michelson.instructions import compare as C
    cls = dict(EQ=C.EqInstruction, NEQ=C.NeqInstruction, LT=C.LtInstruction, GT=C.GtInstruction, LE=C.LeInstruction, GE=C.GeInstruction)[prim]
    v, rest = w.sint('v'), w.rest()
    st = w.stack([w.integer(v)] + rest)
    exc = w.run(cls, st)
    z = Z(v)
    want = dict(EQ=z == 0, NEQ=z != 0, LT=z < 0, GT=z > 0, LE=z <= 0, GE=z >= 0)[prim]
    stack_checks(w, prim, st, exc, [('val', 'bool', Sym(want))], [('bool',)], rest)


def c_size(w, kind, k):
    from pytezos.michelson.instructions import generic
    tag = f'SIZE[{kind} of {k}]'
    xs, c, elts, et = _src(w, kind, k)
    rest = w.rest()
    st = w.stack([c] + rest)
    exc = w.run(generic.SizeInstruction, st)
    stack_checks(w, tag, st, exc, [('val', 'nat', k)], [('nat',)], rest)


def c_unit(w):
    from pytezos.michelson.instructions import generic
    rest = w.rest()
    st = w.stack(rest)
    exc = w.run(generic.UnitInstruction, st)
    stack_checks(w, 'UNIT', st, exc, [('unit',)], [('unit',)], rest)


# ===================================================================================================== SLICE / CONCAT / tickets
def text_eq(w, kind, got, segs):
    """z3 Bool: the string / bytes payload `got` is the concatenation of source[start:stop] over segs = [(source payload, start, stop)]"""
    from vlib.pyvc import SBytes
    if not w.sym:
        want = (b'' if kind == 'bytes' else '').join(src[z3.simplify(Z(a)).as_long():z3.simplify(Z(b)).as_long()] for src, a, b in segs)
        return z3.BoolVal(type(got) is type(want) and got == want)
    if kind == 'string':
        if not isinstance(got, GText) or len(got.segs) != len(segs):
            return z3.BoolVal(False)
        return z3.And([z3.And(z3.BoolVal(g[0] == src.name), g[1] == Z(a), g[2] == Z(b)) for g, (src, a, b) in zip(got.segs, segs)] + [z3.BoolVal(True)])
    if not isinstance(got, SBytes):
        return z3.BoolVal(False)
    lens = [z3.simplify(Z(b) - Z(a)) for _, a, b in segs]
    if all(z3.is_int_value(x) for x in lens):              # concrete lengths: element-wise
        want = [src.at(Z(a) + j) for (src, a, b), n in zip(segs, lens) for j in range(n.as_long())]
        return z3.And([got.zn() == len(want)] + [got.at(j) == x for j, x in enumerate(want)])
    if len(segs) != 1:
        return z3.BoolVal(False)
    src, a, b = segs[0]                                       # a view of the source array
    return z3.And(z3.BoolVal(got.arr.eq(src.arr)), got.zoff() == src.zoff() + Z(a), got.zn() == Z(b) - Z(a))


def payload_len(w, v):
    from vlib.pyvc import SBytes
    if isinstance(v, GText):
        return Z(v.n)
    if isinstance(v, SBytes):
        return v.zn()
    return z3.IntVal(len(v))


def c_slice(w, kind):
    """SLICE :: nat : nat : string|bytes : S -> option string|bytes : S   (Some s[o:o+l] iff o < |s| and o + l <= |s|, else None)"""
    from pytezos.michelson.instructions import generic
    tag = f'SLICE[{kind}]'
    o, l = w.sint('offset', lo=0), w.sint('length', lo=0)
    raw = w.text('s') if kind == 'string' else w.rawbytes('s')
    sv = w.string(raw) if kind == 'string' else w.bytesv(raw)
    rest = w.rest()
    st = w.stack([w.nat(o), w.nat(l), sv] + rest)
    exc = w.run(generic.SliceInstruction, st)
    if not frame_ok(w, tag, st, exc, 1, rest):
        return
    n = payload_len(w, raw)
    some = z3.And(Z(o) < n, Z(o) + Z(l) <= n)
    r = st.items[0]
    a = A(w, r)
    if a == ('none',):
        w.check(f'{tag}::ensures.result==spec', z3.Not(some), 'v')
    elif a[0] == 'some' and w.typeof(fields(r)['item']).prim == kind:
        got = fields(fields(r)['item']).get('value')
        w.check(f'{tag}::ensures.result==spec', z3.And(some, text_eq(w, kind, got, [(raw, Z(o), Z(o) + Z(l))])), 'v')
    else:
        w.check(f'{tag}::ensures.result==spec', False, 'v')
    w.check(f'{tag}::ensures.result_type==static', TY(w, r) == ('option', (kind,)), 't')


def c_concat(w, kind):
    """CONCAT :: string : string : S -> string : S  (pair form; also bytes)"""
    from pytezos.michelson.instructions import generic
    tag = f'CONCAT[{kind}]'
    if kind == 'string':
        ra, rb = w.text('a'), w.text('b')
        va, vb = w.string(ra), w.string(rb)
    else:
        ra, rb = w.rawbytes('a', 2), w.rawbytes('b', 3)
        va, vb = w.bytesv(ra), w.bytesv(rb)
    rest = w.rest()
    st = w.stack([va, vb] + rest)
    exc = w.run(generic.ConcatInstruction, st)
    if not frame_ok(w, tag, st, exc, 1, rest):
        return
    r = st.items[0]
    ok = not w.isleaf(r) and getattr(w.typeof(r), 'prim', None) == kind
    got = fields(r).get('value') if ok else None
    w.check(f'{tag}::ensures.result==spec',
            text_eq(w, kind, got, [(ra, z3.IntVal(0), payload_len(w, ra)), (rb, z3.IntVal(0), payload_len(w, rb))]) if ok else False, 'v')
    w.check(f'{tag}::ensures.result_type==static', TY(w, r) == (kind,), 't')


ADDR_A = 'KT1BEqzn5Wx8uJrZNvuS9DVHmLvG9td3fDLi'
ADDR_B = 'KT1TxqZ8QtKvLu3V3JH7Gx58n7Co8pgtpQU5'


def absticket(w, v):
    """(ticketer, content (identity), amount) of a ticket value, or None"""
    if w.isleaf(v) or getattr(w.typeof(v), 'prim', None) != 'ticket':
        return None
    f = fields(v)
    return f.get('ticketer'), f.get('item'), f.get('amount')


def c_join_tickets(w, same_ticketer, same_content):
    """JOIN_TICKETS :: pair (ticket C) (ticket C) : S -> option (ticket C) : S   (Some iff same ticketer and same content; amounts add up)"""
    from pytezos.michelson.instructions import ticket as TI
    tag = f'JOIN_TICKETS[{"same" if same_ticketer else "different"} ticketer,{"same" if same_content else "different"} content]'
    x, y = w.sint('amount_a', lo=1), w.sint('amount_b', lo=1)
    ca = w.leaf('c', 'C')
    cb = ca if same_content else w.leaf('d', 'C')
    ta = w.ticket(ADDR_A, 'C', ca, x)
    tb = w.ticket(ADDR_A if same_ticketer else ADDR_B, 'C', cb, y)
    rest = w.rest()
    st = w.stack([w.pair(ta, tb)] + rest)
    exc = w.run(TI.JoinTicketsInstruction, st)
    if not frame_ok(w, tag, st, exc, 1, rest):
        return
    r = st.items[0]
    a = A(w, r)
    if same_ticketer and same_content:
        t = absticket(w, fields(r).get('item')) if a[0] == 'some' else None
        w.check(f'{tag}::ensures.result==spec', z3.And(z3.BoolVal(t[0] == ADDR_A and t[1] is ca), Z(t[2]) == Z(x) + Z(y)) if t else False, 'v')
    else:
        w.check(f'{tag}::ensures.result==spec', a == ('none',), 'v')
    w.check(f'{tag}::ensures.result_type==static', TY(w, r) == ('option', ('ticket', tshape(w.ty('C')))), 't')


def c_split_ticket(w):
    """SPLIT_TICKET :: ticket C : pair nat nat : S -> option (pair (ticket C) (ticket C)) : S   (Some iff both parts > 0 and they sum to the amount)"""
    from pytezos.michelson.instructions import ticket as TI
    T = _T()
    tag = 'SPLIT_TICKET'
    amount, l, r_ = w.sint('amount', lo=1), w.sint('left', lo=0), w.sint('right', lo=0)
    content = T.NatType(5)          # the content is copied with copy.copy: a concrete value (its type argument stays anonymous)
    tk = w.inst(mk(T.TicketType, [T.NatType], **w.ann()), ticketer=ADDR_A, item=content, amount=amount)
    rest = w.rest()
    st = w.stack([tk, w.pair(w.nat(l), w.nat(r_))] + rest)
    exc = w.run(TI.SplitTicketInstruction, st)
    if not frame_ok(w, tag, st, exc, 1, rest):
        return
    res = st.items[0]
    a = A(w, res)
    some = z3.And(Z(l) > 0, Z(r_) > 0, Z(l) + Z(r_) == Z(amount))
    if a == ('none',):
        w.check(f'{tag}::ensures.result==spec', z3.Not(some), 'v')
    else:
        parts = None
        if a[0] == 'some' and getattr(w.typeof(fields(res)['item']), 'prim', None) == 'pair':
            its = fields(fields(res)['item']).get('items')
            if isinstance(its, tuple) and len(its) == 2:
                parts = [absticket(w, x) for x in its]
        if parts and all(parts):
            okc = all(p[0] == ADDR_A and getattr(type(p[1]), 'prim', None) == 'nat' and p[1].value == 5 for p in parts)
            w.check(f'{tag}::ensures.result==spec', z3.And(some, z3.BoolVal(okc), Z(parts[0][2]) == Z(l), Z(parts[1][2]) == Z(r_)), 'v')
        else:
            w.check(f'{tag}::ensures.result==spec', False, 'v')
    tt = ('ticket', ('nat',))
    w.check(f'{tag}::ensures.result_type==static', TY(w, res) == ('option', ('pair', tt, tt)), 't')


def c_apply(w):
    """APPLY :: 'a : lambda (pair 'a 'b) 'c : S -> lambda 'b 'c : S   (the new body is { PUSH 'a x ; PAIR ; body })"""
    from pytezos.michelson.instructions import control, adt
    from pytezos.michelson.instructions.stack import PushInstruction
    from pytezos.michelson.micheline import MichelineSequence
    T = _T()
    tag = 'APPLY'
    x, rest = w.leaf('x', 'A'), w.rest()
    body = GBody('body', [])
    ptype = mk(T.PairType, [w.cty('A'), w.cty('B')])          # components of the parameter pair may be annotated
    lam = w.inst(mk(T.LambdaType, [ptype, w.ty('C')], **w.ann()), value=body)
    st = w.stack([x, lam] + rest)
    exc = w.run(control.ApplyInstruction, st)
    if not frame_ok(w, tag, st, exc, 1, rest):
        return
    r = st.items[0]
    ok = not w.isleaf(r) and getattr(w.typeof(r), 'prim', None) == 'lambda'
    seq = fields(r).get('value') if ok else None
    ok = ok and isinstance(seq, type) and issubclass(seq, MichelineSequence) and len(seq.args) == 3
    if ok:
        push, pr, b = seq.args
        ok = isinstance(push, type) and issubclass(push, PushInstruction) and len(push.args) == 2 and tshape(push.args[0]) == tshape(w.ty('A')) \
            and pr is adt.PairInstruction and b is body
        if ok and w.sym:
            ok = isinstance(push.args[1], GLit) and push.args[1].leaf is x
        elif ok:
            ok = push.args[1].as_micheline_expr() == x.to_literal().as_micheline_expr()
    w.check(f'{tag}::ensures.result==spec', bool(ok), 'v')
    w.check(f'{tag}::ensures.result_type==static', TY(w, r) == ('lambda', tshape(w.ty('B')), tshape(w.ty('C'))), 't')


CASES = dict(apply=c_apply, slice=c_slice, concat=c_concat, join_tickets=c_join_tickets, split_ticket=c_split_ticket, cxr=c_cxr, pair=c_pair, unpair=c_unpair, get=c_get, update=c_update, inj=c_inj, cons=c_cons, empty=c_empty, some=c_some,
             get_map=c_get_map, mem=c_mem, update_set=c_update_set, update_map=c_update_map, **{'if': c_if}, if_none=c_if_none, if_left=c_if_left,
             if_cons=c_if_cons, dip=c_dip, loop=c_loop, loop_left=c_loop_left, iter=c_iter, map=c_map, zero_compare=c_zero_compare, size=c_size,
             unit=c_unit)


# ===================================================================================================== enumeration
def specs(thorough):
    """(kind, case name, *params); kind 'P' = nothing bounded (opaque operands of opaque types), 'S' = a shape parameter is enumerated"""
    M = 7 if thorough else 6        # comb length / n
    K = 4 if thorough else 3        # collection size / iterations
    out = []
    for p in ('CAR', 'CDR'):
        out.append(('P', 'cxr', p))
    out.append(('P', 'pair', 2, False, True))
    out.append(('P', 'unpair', 2, 2, None, True))
    for p in ('LEFT', 'RIGHT'):
        out.append(('P', 'inj', p))
    for n in range(2, M + 1):
        out.append(('S', 'pair', n, False, False))
        out.append(('S', 'pair', n, True, False))
    for m in range(2, M + 1):
        inners = [None, 0] + ([m - 2] if m > 2 else [])
        for inner in inners:
            for n in range(2, m + 1):
                out.append(('S', 'unpair', n, m, inner, False))
            for k in range(0, 2 * (m - 1) + 1):
                out.append(('S', 'get', k, m, inner))
                for ep in (False, True):
                    out.append(('S', 'update', k, m, inner, ep))
    out.append(('P', 'get', 0, 0, None))             # GET 0 / UPDATE 0 on a non-pair
    out.append(('P', 'update', 0, 0, None, False))
    out.append(('P', 'update', 0, 0, None, True))
    for p in ('NIL', 'NONE', 'EMPTY_SET', 'EMPTY_MAP'):
        out.append(('P', 'empty', p))
    out.append(('P', 'some',))
    for k in range(0, K + 1):
        out.append(('S', 'cons', k))
        out.append(('S', 'get_map', k))
        out.append(('S', 'mem', 'set', k))
        out.append(('S', 'mem', 'map', k))
        out.append(('S', 'update_set', k))
        for some in (False, True):
            for gau in (False, True):
                out.append(('S', 'update_map', k, some, gau))
        out.append(('S', 'if_cons', k))
        out.append(('S', 'loop_left', k))
        for kind in ('list', 'set', 'map'):
            out.append(('S', 'iter', kind, k))
            out.append(('S', 'size', kind, k))
        for kind in ('list', 'map'):
            out.append(('S', 'map', kind, k))
    out.append(('P', 'if'))
    for b in (False, True):
        out.append(('P', 'if_none', b))
        out.append(('P', 'if_left', b))
    out.append(('P', 'dip', 1, True))
    for n in range(0, M + 1):
        out.append(('S', 'dip', n, False))
    out.append(('S', 'loop', K))
    for p in ('EQ', 'NEQ', 'LT', 'GT', 'LE', 'GE'):
        out.append(('P', 'zero_compare', p))
    out.append(('P', 'unit',))
    for kind in ('string', 'bytes'):
        out.append(('P', 'slice', kind))
    out.append(('P', 'concat', 'string'))
    out.append(('S', 'concat', 'bytes'))
    for st_ in (False, True):
        for sc in (False, True):
            out.append(('P', 'join_tickets', st_, sc))
    out.append(('P', 'split_ticket',))
    out.append(('P', 'apply',))
    return out


def job(want, name, *params):
    def h(e: Engine):
        CASES[name](SymWorld(e, want), *params)
    return h


def job_annot(want, name, *params):
    def h(e: Engine):
        CASES[name](SymWorld(e, want, annotated=True), *params)
    return h


# ===================================================================================================== native replay
def native(case):
    s = case.get('spec')
    if not s:
        return False, 'no case description'
    name, params = s[1], [_tup(x) for x in s[2:]]
    w = NatWorld({k: v for k, v in case.items() if k not in ('spec', 'want', 'annotated')}, case.get('want', 'all'), bool(case.get('annotated')))
    try:
        CASES[name](w, *params)
    except Exception as ex:   # noqa
        return False, f'native replay crashed: {ex!r}'
    if w.failed:
        return True, f'the real code, run natively on concrete operands ({_describe(w)}), violates: {", ".join(w.failed[:3])}'
    if w.inconclusive:
        return False, w.inconclusive
    return False, f'contract holds on the concrete instance ({_describe(w)}); the symbolic failure concerns opaque components'


def _describe(w):
    d = ', '.join(f'{type(v).__name__[:-4].lower()} {getattr(v, "value", v)!r}' for v in list(w.leafids.values())[:8])
    m = {k: v for k, v in w.model.items() if k not in ('spec', 'want', 'annotated')}
    return d + (f'; symbolic inputs {m}' if m else '') + ('; operand classes annotated %fld :typ' if w.annotated else '')


def _tup(x):
    return tuple(_tup(y) for y in x) if isinstance(x, list) else x


def replay(case):
    return native(case)


# ===================================================================================================== driver
def _work_group(group):
    return [parallel._work(j) for j in group]


def _run_grouped(jobs, size=6):
    import os
    from concurrent.futures import ProcessPoolExecutor
    groups = [jobs[i:i + size] for i in range(0, len(jobs), size)]
    with ProcessPoolExecutor(max_workers=min(16, os.cpu_count() or 4)) as ex:
        return [r for g in ex.map(_work_group, groups, chunksize=1) for r in g]


def record_functions(ck):
    from pytezos.michelson.instructions import adt, struct, control, compare, generic, ticket
    from pytezos.michelson import types as T
    from pytezos.michelson.stack import MichelsonStack
    for mod, names in ((adt, ('CarInstruction', 'CdrInstruction', 'PairInstruction', 'UnpairInstruction', 'PairnInstruction', 'UnpairnInstruction',
                              'GetnInstruction', 'UpdatenInstruction', 'LeftInstruction', 'RightInstruction')),
                       (struct, ('ConsInstruction', 'NilInstruction', 'SomeInstruction', 'NoneInstruction', 'EmptySetInstruction', 'EmptyMapInstruction',
                                 'GetInstruction', 'MemInstruction', 'UpdateInstruction', 'GetAndUpdateInstruction')),
                       (control, ('ApplyInstruction', 'IfInstruction', 'IfNoneInstruction', 'IfLeftInstruction', 'IfConsInstruction', 'DipInstruction', 'DipnInstruction',
                                  'LoopInstruction', 'LoopLeftInstruction', 'IterInstruction', 'MapInstruction')),
                       (compare, ('EqInstruction', 'NeqInstruction', 'LtInstruction', 'GtInstruction', 'LeInstruction', 'GeInstruction')),
                       (generic, ('SizeInstruction', 'UnitInstruction', 'SliceInstruction', 'ConcatInstruction')),
                       (ticket, ('JoinTicketsInstruction', 'SplitTicketInstruction'))):
        for n in names:
            ck.function(getattr(mod, n).__dict__['execute'], name=f'{mod.__name__}:{n}.execute')
    for f in (adt.execute_cxr, control.execute_dip, compare.execute_zero_compare, T.PairType.from_comb, T.PairType.init, T.PairType.create_type,
              T.PairType.iter_comb, T.PairType.unpairn_comb, T.PairType.access_comb, T.PairType.update_comb, T.OrType.from_left, T.OrType.from_right,
              T.OrType.resolve, T.OrType.is_left, T.OptionType.none, T.OptionType.from_some, T.ListType.prepend, T.ListType.split_head,
              T.ListType.from_items, T.ListType.empty, T.SetType.empty, T.SetType.add, T.SetType.remove, T.SetType.contains, T.MapType.empty,
              T.MapType.get, T.MapType.update, T.MapType.contains, T.MapType.from_items, MichelsonStack.push, MichelsonStack.pop,
              T.StringType.__getitem__, T.BytesType.__getitem__, T.TicketType.join, T.TicketType.split, T.MichelsonType.create_type,
              T.MichelsonType.get_anon_type):
        ck.function(f)


def run_I(ck, want='values'):
    """want='values': the C01 clauses (results, body runs, frame); want='types': the C02 clauses (result types)"""
    record_functions(ck)
    ck.assume('deductive part: operands are opaque values of opaque types (parametricity: an instruction that never inspects a component cannot '
              'tell two values apart, so distinct opaque tokens stand for all values of all types); keys / set elements carry symbolic integer ranks '
              'and collections satisfy their type invariant (strictly increasing: C14), the order of the key type being a strict total order (C03); '
              'bodies of control instructions are opaque (they record their stack view and replace their inputs by fresh opaque outputs); '
              'an opaque type is any type that is not a pair (the only question the code asks about a component is isinstance(x, PairType)); pairs in '
              'component position are enumerated as shapes; the Python truthiness of an opaque value is an unconstrained symbolic boolean')
    ck.assume('frame: the stack below the operands is represented by two opaque slots (identity-checked after the run); the instructions reach the '
              'stack only through MichelsonStack.pop / push / protect / restore, whose frame contracts at every depth are props/C01_stack.py')
    ck.assume('the reference semantics of the covered instructions is the set of spec functions in props/C01_I.py (S_comb, S_unpair_n, S_get, '
              'S_update, key_cases / by_cases and the per-case expectations), written from the Michelson reference')
    ck.trust('PyVC encoding of the Python subset (DESIGN.md 3.2)')
    th = ck.thorough()
    ck.bound('I.comb_length_and_n', 7 if th else 6)
    ck.bound('I.collection_size_and_iterations', 4 if th else 3)
    sp = specs(th)
    jobs = [(repr(s[1:]), 'props.C01_I:job', (want,) + tuple(s[1:]), dict(max_paths=3000)) for s in sp]
    n_obl = 0
    for res, s in zip(_run_grouped(jobs), sp):
        if 'error' in res:
            raise RuntimeError(f"harness {res['label']} crashed:\n{res['error']}")
        eng = parallel.FakeEng(res)

        def nat(cex, s=s):
            c = dict(cex or {})
            c['spec'] = list(s)
            c['want'] = want
            cex.clear()
            cex.update(c)
            return native(c)
        report(ck, eng, [('', REPLAY, nat, None)], kind=s[0])
        functions_interpreted(ck, eng)
        n_obl += len(eng.obl)
    ck.note(f'deductive part ({want}): {len(sp)} cases, {n_obl} obligations over opaque / symbolic operands on the real execute methods')
    return n_obl


def run_I_types(ck):
    return run_I(ck, want='types')


def run_I_annot(ck):
    """C17: every case of specs() again with ANNOTATED operand classes (values taken out of an annotated pair / or keep field_name and
    type_name in their run-time class).  Same reference results, same absence of failures, same result types modulo annotations.  An obligation
    that fails in exactly the same way WITHOUT annotations is not an annotation effect (it belongs to C01 / C02) and is not reported here."""
    record_functions(ck)
    ck.assume('annotated world: every stand-alone operand (opaque value, bool / int / nat / string / bytes, pair, or, option, list, set, map, ticket) has a '
              'run-time class carrying a field and a type annotation, as values taken out of an annotated pair by CAR / CDR / UNPAIR / GET n do; '
              'pair / or component types are annotated too; type arguments of list / set / map / option / ticket and of instructions are anonymous '
              '(Michelson and pytezos forbid annotated arguments there); type equality is modulo annotations')
    th = ck.thorough()
    sp = specs(th)
    opts = dict(max_paths=3000)
    jobs = [(repr(s[1:]) + '[annotated]', 'props.C01_I:job_annot', ('all',) + tuple(s[1:]), opts) for s in sp]
    n_obl, same = 0, []
    for res, s in zip(_run_grouped(jobs), sp):
        if 'error' in res:
            raise RuntimeError(f"harness {res['label']} crashed:\n{res['error']}")
        failed = [k for k, v in res['obl'].items() if v['status'] == 'failed']
        if failed:
            plain = parallel._work((repr(s[1:]), 'props.C01_I:job', ('all',) + tuple(s[1:]), opts))
            for k in failed:
                pk = k.replace('[annotated operands]::', '::', 1)
                if plain.get('obl', {}).get(pk, {}).get('status') == 'failed':
                    res['obl'][k] = dict(res['obl'][k], status='discharged', cex=None, reason='')
                    same.append(k)
        eng = parallel.FakeEng(res)

        def nat(cex, s=s):
            c = dict(cex or {})
            c.update(spec=list(s), want='all', annotated=True)
            cex.clear()
            cex.update(c)
            return native(c)
        report(ck, eng, [('', REPLAY, nat, None)], kind=s[0])
        functions_interpreted(ck, eng)
        n_obl += len(eng.obl)
    if same:
        ck.note('fail identically without annotations (not an annotation effect, reported by C01 / C02): ' + ', '.join(same))
    ck.note(f'deductive part (annotated operands): {len(sp)} cases, {n_obl} obligations on the real execute methods')
    return n_obl
