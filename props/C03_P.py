"""C03, symbolic part (S: complete in the leaf values, bounded in the type shape): the real `compare` /
COMPARE instruction and the `__lt__` / `__eq__` methods of Pair/Option/Or/leaf types are executed by PyVC on two
values of every enumerated comparable type shape (and every None/Some, Left/Right variant pair) with SYMBOLIC
leaves; obligation: result == Michelson order (pairs lexicographic, None < Some, Left < Right, False < True,
ints/nats/mutez/timestamps numerically, strings/bytes lexicographically) and antisymmetry compare(a,b) == -compare(b,a).

String/bytes leaves are modelled by integer ranks: Python's `<`/`==` on str/bytes is a total order (assumed), and every
finite configuration of order relations between leaves is realisable both in Z and in strings, so the verdict carries over.
Counter-models are mapped back to real strings (rank -> fixed-width decimal) and replayed on the real classes.
"""
import itertools
import z3
from vlib.pyvc import Engine, RaiseEx, Sym, Obj, Z, ZB, Unsupported
from vlib.pyvc.report import report, functions_interpreted
from vlib.pyvc.parallel import run_jobs, FakeEng

INT_LEAVES = ('int', 'nat', 'mutez', 'timestamp')
RANK_LEAVES = ('string', 'bytes')


def T(expr):
    from pytezos.michelson.types.base import MichelsonType
    return MichelsonType.match(expr)


def texpr(t):
    if isinstance(t, str):
        return {'prim': t}
    return {'prim': t[0], 'args': [texpr(x) for x in t[1:]]}


def type_shapes(thorough):
    base = ['int', 'nat', 'string', 'bytes', 'mutez', 'bool', 'unit', 'timestamp']
    small = ['int', 'string', 'bool', 'unit']
    out = list(base)
    for a, b in itertools.product(small, repeat=2):
        out.append(('pair', a, b))
    out += [('pair', 'nat', 'bytes'), ('pair', 'mutez', 'timestamp')]
    for a in small:
        out.append(('option', a))
    for a, b in (('int', 'string'), ('unit', 'unit'), ('bool', 'int'), ('string', 'string')):
        out.append(('or', a, b))
    out += [('pair', ('pair', 'int', 'int'), 'int'), ('pair', 'int', ('pair', 'int', 'int')), ('pair', 'int', 'int', 'int'),
            ('pair', ('option', 'int'), ('or', 'int', 'string')), ('option', ('pair', 'int', 'int')), ('option', ('option', 'int')),
            ('or', ('pair', 'int', 'int'), ('option', 'int')), ('pair', ('or', 'int', 'int'), 'string'),
            ('option', ('or', 'unit', 'int')), ('or', ('or', 'int', 'int'), 'int')]
    if thorough:
        out += [('pair', 'int', 'int', 'int', 'int'), ('pair', ('pair', ('pair', 'int', 'string'), 'bool'), 'nat'),
                ('option', ('option', ('option', 'int'))), ('or', ('or', ('or', 'int', 'unit'), 'string'), ('option', 'bool')),
                ('pair', ('option', ('pair', 'int', 'string')), ('or', ('option', 'int'), ('pair', 'bool', 'unit'))),
                ('pair', ('or', 'string', ('pair', 'int', 'int')), ('option', ('or', 'int', 'string')))]
        for a, b in itertools.product(['int', 'string', 'bytes', 'nat', 'bool', 'unit', 'mutez', 'timestamp'], repeat=2):
            if ('pair', a, b) not in out:
                out.append(('pair', a, b))
    return out


def variants(t):
    """all structural variants of a type shape: leaf -> ['leaf']; option -> None | Some v; or -> Left v | Right v"""
    if isinstance(t, str):
        return [t]
    if t[0] == 'pair':
        if len(t) > 3:                       # comb: pair a b c == pair a (pair b c)
            t = ('pair', t[1], ('pair',) + tuple(t[2:]))
        return [('pair', a, b) for a in variants(t[1]) for b in variants(t[2])]
    if t[0] == 'option':
        return [('none',)] + [('some', v) for v in variants(t[1])]
    if t[0] == 'or':
        return [('left', v) for v in variants(t[1])] + [('right', v) for v in variants(t[2])]
    raise ValueError(t)


class Builder:
    """builds (pytezos value with symbolic leaves, spec key) for a variant"""

    def __init__(self, e, tag, concrete=None):
        self.e, self.tag, self.n, self.concrete = e, tag, 0, concrete

    def leaf(self, kind):
        self.n += 1
        name = f'{self.tag}{self.n}'
        if self.concrete is not None:
            return name, self.concrete.get(name, 0)
        if kind == 'bool':
            return name, self.e.bool(name)
        v = self.e.int(name, lo=0 if kind in ('nat', 'mutez') + RANK_LEAVES else None)
        return name, v

    def build(self, cls, var):
        from pytezos.michelson.types.base import Undefined
        if isinstance(var, str):
            if var == 'unit':
                from pytezos.michelson.types.core import Unit
                return (cls() if self.concrete is not None else _mk(cls)), ('unit',)
            name, v = self.leaf(var)
            if self.concrete is not None:
                pv = v
                if var in RANK_LEAVES:
                    s = f'{max(0, int(v)):012d}'
                    pv = s if var == 'string' else s.encode()
                elif var == 'bool':
                    pv = bool(v)
                return cls(pv), ('leaf', var, v)
            return _mk(cls, value=v), ('leaf', var, v)
        k = var[0]
        if k == 'pair':
            a, ka = self.build(cls.args[0], var[1])
            b, kb = self.build(cls.args[1], var[2])
            val = cls((a, b)) if self.concrete is not None else _mk(cls, items=(a, b))
            return val, ('pair', ka, kb)
        if k == 'none':
            return (cls(None) if self.concrete is not None else _mk(cls, item=None)), ('none',)
        if k == 'some':
            a, ka = self.build(cls.args[0], var[1])
            return (cls(a) if self.concrete is not None else _mk(cls, item=a)), ('some', ka)
        if k in ('left', 'right'):
            a, ka = self.build(cls.args[0 if k == 'left' else 1], var[1])
            items = (a, Undefined) if k == 'left' else (Undefined, a)
            return (cls(items) if self.concrete is not None else _mk(cls, items=items)), (k, ka)
        raise ValueError(var)


def _mk(cls, **fields):
    o = Obj(cls)
    o.f.update(fields)
    return o


def spec_cmp(ka, kb):
    """z3 Int term in {-1,0,1}: Michelson order of two spec keys of the same type"""
    def sgn(lt, eq):
        return z3.If(lt, -1, z3.If(eq, 0, 1))
    if ka[0] == 'unit':
        return z3.IntVal(0)
    if ka[0] == 'leaf':
        a, b = ka[2], kb[2]
        if ka[1] == 'bool':
            a, b = ZB(a), ZB(b)
            return sgn(z3.And(z3.Not(a), b), a == b)
        return sgn(Z(a) < Z(b), Z(a) == Z(b))
    if ka[0] == 'pair':
        c1 = spec_cmp(ka[1], kb[1])
        return z3.If(c1 != 0, c1, spec_cmp(ka[2], kb[2]))
    rank = {'none': 0, 'some': 1, 'left': 0, 'right': 1}
    if rank[ka[0]] != rank[kb[0]]:
        return z3.IntVal(-1 if rank[ka[0]] < rank[kb[0]] else 1)
    if ka[0] == 'none':
        return z3.IntVal(0)
    return spec_cmp(ka[1], kb[1])


def spec_cmp_py(ka, kb):
    if ka[0] == 'unit':
        return 0
    if ka[0] == 'leaf':
        a, b = ka[2], kb[2]
        return -1 if a < b else 0 if a == b else 1
    if ka[0] == 'pair':
        c = spec_cmp_py(ka[1], kb[1])
        return c if c else spec_cmp_py(ka[2], kb[2])
    rank = {'none': 0, 'some': 1, 'left': 0, 'right': 1}
    if rank[ka[0]] != rank[kb[0]]:
        return -1 if rank[ka[0]] < rank[kb[0]] else 1
    return 0 if ka[0] == 'none' else spec_cmp_py(ka[1], kb[1])


def h_compare(shape, va, vb, via_instruction):
    from pytezos.michelson.instructions import compare as C
    sid = f'{_sname(shape)}|{_sname(va)}~{_sname(vb)}'

    def h(e: Engine):
        cls = T(texpr(shape))
        a, ka = Builder(e, 'a').build(cls, va)
        b, kb = Builder(e, 'b').build(cls, vb)
        want = spec_cmp(ka, kb)
        try:
            if via_instruction:
                from pytezos.michelson.stack import MichelsonStack
                st = MichelsonStack()
                st.items = [a, b]
                e.call(e.unwrap(C.CompareInstruction.__dict__['execute'].__func__), [C.CompareInstruction, st, [], None])
                top = st.items[0]
                r = top.f['value'] if isinstance(top, Obj) else int(top)
            else:
                r = e.call(C.compare, [a, b])
        except RaiseEx as ex:
            e.check(f'compare[{sid}]::safety.no_exception[{type(ex.exc).__name__}]', z3.BoolVal(False))
            return
        e.check(f'compare[{sid}]::ensures.result==michelson_order', Z(r) == want)
        if not via_instruction:
            try:
                r2 = e.call(C.compare, [b, a])
            except RaiseEx as ex:
                e.check(f'compare[{sid}]::safety.no_exception(reverse)[{type(ex.exc).__name__}]', z3.BoolVal(False))
                return
            e.check(f'compare[{sid}]::law.antisymmetric(compare(a,b) == -compare(b,a))', Z(r) == -Z(r2))
    return h


def _sname(t):
    if isinstance(t, str):
        return t
    return t[0] + '(' + ','.join(_sname(x) for x in t[1:]) + ')'


def job(shape, va, vb, via):
    return h_compare(shape, va, vb, via)


def native(case):
    from pytezos.michelson.instructions.compare import compare
    shape, va, vb = _tup(case['shape']), _tup(case['va']), _tup(case['vb'])
    vals = case.get('leaves', {})
    cls = T(texpr(shape))
    a, ka = Builder(None, 'a', concrete=vals).build(cls, va)
    b, kb = Builder(None, 'b', concrete=vals).build(cls, vb)
    want = spec_cmp_py(ka, kb)
    try:
        got = compare(a, b)
        got2 = compare(b, a)
    except Exception as ex:   # noqa
        return True, f'compare({a!r}, {b!r}) raised {ex!r}'
    if got != want:
        return True, f'COMPARE {a!r} {b!r} at type {_sname(shape)} = {got}; Michelson order = {want}'
    if got2 != -got:
        return True, f'compare({a!r},{b!r}) = {got} but compare(b,a) = {got2}'
    return False, 'ok'


def _tup(x):
    return tuple(_tup(y) for y in x) if isinstance(x, list) else x


def replay(case):
    return native(case)


def run_P(ck):
    from pytezos.michelson.instructions import compare as C
    from pytezos.michelson import types as Ty
    for f in (C.compare, C.CompareInstruction.execute, Ty.PairType.__lt__, Ty.PairType.__eq__, Ty.OptionType.__lt__, Ty.OptionType.__eq__,
              Ty.OrType.__lt__, Ty.OrType.__eq__, Ty.IntType.__lt__, Ty.StringType.__lt__, Ty.BytesType.__lt__, Ty.BoolType.__lt__):
        ck.function(f)
    ck.assume("Python's < and == on str/bytes/int/bool are the lexicographic / numeric total orders (CPython); string and bytes leaves are "
              'modelled by integer ranks (order-embedding argument in the module docstring)')
    ck.assume('the ErrorTrace wrapper only re-labels exceptions; format_stdout is a no-op')
    ck.trust('PyVC encoding of the Python subset (DESIGN.md 3.2)')
    ck.trust('z3 5.1')
    shapes = type_shapes(ck.thorough())
    jobs, meta = [], []
    for sh in shapes:
        vs = variants(sh)
        pairs = list(itertools.product(vs, repeat=2))
        if len(pairs) > 40 and not ck.thorough():
            # all variants against themselves and their neighbours + a deterministic sample of the rest
            keep = [(a, b) for i, a in enumerate(vs) for j, b in enumerate(vs) if abs(i - j) <= 1]
            rest = [p for p in pairs if p not in keep]
            pairs = keep + rest[::max(1, len(rest) // 12)]
        for va, vb in pairs:
            via = (va == vb and isinstance(sh, tuple) and sh[0] == 'pair') or isinstance(sh, str)
            for v in ((False, True) if via else (False,)):
                jobs.append((f'{_sname(sh)}|{_sname(va)}~{_sname(vb)}|{v}', 'props.C03_P:job', (sh, va, vb, v), dict(max_paths=3000)))
                meta.append((sh, va, vb))
    ck.bound('S.type_shapes', len(shapes))
    ck.bound('S.variant_pairs', len(jobs))
    for res, (sh, va, vb) in zip(run_jobs(jobs), meta):
        if 'error' in res:
            raise RuntimeError(f"harness {res['label']} crashed:\n{res['error']}")
        eng = FakeEng(res)

        def nat(cex, sh=sh, va=va, vb=vb):
            c = dict(shape=sh, va=va, vb=vb, leaves={k: (int(v) if not isinstance(v, bool) else v) for k, v in cex.items()})
            cex.clear()
            cex.update(c)
            return native(dict(c))
        report(ck, eng, [('', 'props.C03_P:replay', nat, None)], kind='S')
        functions_interpreted(ck, eng)
    from props.C03_D import run_domain, run_step
    run_domain(ck)
    run_step(ck)
