"""C23 — Operation groups from any account kind are signed and hashed per protocol.

Contracts on the real OperationGroup (src/pytezos/operation/group.py); `forged` = bytes.fromhex(self.forge()):

  sign()
    requires  all contents belong to one class (consensus / non-consensus); chain_id defined for consensus kinds;
              the context key is a secret key of curve c in {ed (tz1), sp (tz2), p2 (tz3), BL (tz4)}
    ensures   no exception; returns a group with the same branch / contents / chain id / protocol carrying the signature;
              result.signature decodes (independent Base58Check) to a signature of the scheme's length, and it verifies
              under the source public key over  W || forged,  W = 0x03 for non-consensus operations and
              0x02 || chain-id bytes for consensus operations (endorsement kinds); ed/sp/p2: independent verifier
              (`cryptography`) over Blake2b-256(W||forged); BLS: deterministic reference signature over W||forged itself
  hash()      ensures  == base58 `o` of Blake2b-256(forged || raw signature)   (hashlib + own Base58Check), whatever notation the
              signature is written in (generic `sig` or edsig / spsig1 / p2sig / BLsig) and whatever opg_hash the group remembers;
              raises ValueError when unsigned (also when an opg_hash is remembered)
  binary_payload()  ensures == forged || raw signature;  raises ValueError when unsigned
  sign() on a group that ALREADY carries a signature (copied by _spawn from a group whose bytes have changed since) signs again:
              the new signature verifies over the watermarked CURRENT forged bytes
Initial state covered: client context with no chain id pinned / another chain than the group's / the group's; groups carrying a
remembered opg_hash / opg_result; unsigned and already signed receivers.
The three operations recorded from a public network in /repo/tests validate the hash oracle against Octez.
"""
from vlib.runner import Check

REPLAY = 'props.C23:replay'


def replay(case):
    from bounded import C23_cases as K
    oid = case.get('oid')
    rs = K.eval_case({k: v for k, v in case.items() if k != 'oid'})
    bad = [r for r in rs if not r['ok'] and (oid is None or r['oid'] == oid)]
    if bad:
        return True, f"{bad[0]['oid']}: {bad[0]['info']}"
    return False, f'contract holds on this case ({len(rs)} clauses evaluated)'


def run(ck: Check) -> int:
    from bounded import C23_cases as K
    from bounded import crypto_common as CC
    from pytezos.crypto.key import Key
    from pytezos.operation.group import OperationGroup

    from props import C23_P
    C23_P.run_P(ck)       # lead's deductive part: wrapper logic over opaque forged bytes / key / hash
    for f in (OperationGroup.sign, OperationGroup.hash, OperationGroup.binary_payload):
        ck.function(f)
    ck.function(Key.sign)
    ck.assume('forged bytes are taken from OperationGroup.forge() (local forging is property C06)')
    ck.assume('signature schemes: as in C07 (primitives assumed; independent verifier `cryptography` for tz1-tz3, deterministic '
              'reference composition for tz4)')
    ck.assume('consensus kinds among the forgeable ones = endorsement, endorsement_with_slot (watermark 0x02||chain id as the '
              'property states); everything else 0x03')
    ck.assume('for a tz4 source the property statement is taken literally (hash over forged || 96-byte raw signature); the '
              'Signature_prefix framing Octez uses on the wire for BLS-signed operations cannot be validated offline and is not demanded')
    ck.trust('specs/crypto_b58.py operation_hash (validated on the recorded network operations), specs/crypto_sig.py')
    ck.rule('R: every forgeable kind alone (3 field variants) + batches (reveal+transaction, 3 manager ops, 2 endorsements, 4 mixed '
            'manager kinds) x source keys of the four curves x chain ids (4 for consensus kinds) x 3 branches x chain id pinned on the '
            'client context (none / another / the same, rotating); per group: unsigned payload/hash, sign, verify, hash, payload, the same '
            'signature in curve-specific notation, re-signing after a branch change, re-deriving from an injected group, ONE group object '
            're-used across in-place edits (field / appended content / branch; signature replaced in place) with sign() and hash() after each; '
            'class = (kinds, source kind, chain id, clause)')
    chunks = K.enumerate_cases(ck.tier, ck.seed)
    ck.bound('groups', sum(len(c) for c in chunks))
    ck.bound('kinds', K.FORGEABLE)
    ck.bound('keys_per_curve', '2 (BLS 1) quick / 4 (BLS 2) thorough')
    results = CC.pmap(K.eval_chunk, chunks)
    seen, skipped = {}, 0
    for chunk_res in results:
        for case, rs in chunk_res:
            for r in rs:
                if r['oid'] == 'skip':
                    skipped += 1
                    if skipped <= 5:
                        ck.note(f'not judged: {case.get("kinds", case.get("file"))} {case.get("curve", "")}: {r["info"]}')
                    continue
                cls = ('+'.join(case['kinds']), case['curve'], case['chain_id'], r['oid'].split('::')[1][:24]) if case['k'] == 'group' \
                    else ('recorded', case['file'][:8])
                sample = dict(case=case, clause=r['oid'], ok=r['ok']) if case.get('kinds') in (['endorsement'], ['reveal', 'transaction']) and case.get('variant') == 0 else None
                ck.evaluate(cls, sample=sample)
                if not r['ok']:
                    key = (r['oid'], r['wclass'])
                    seen[key] = seen.get(key, 0) + 1
                    if seen[key] <= 2:
                        ck.violation(r['oid'], r['info'], case=dict(case, oid=r['oid']), replay=REPLAY, wclass=r['wclass'])
    ck.bound('groups_not_judged_because_forge_raised', skipped)
    ck.exhaustive = False
    return ck.finish('exploration',
                     'R (bounded, real OperationGroup): sign safety, signed-copy frame, signature validity over the watermarked '
                     'forged bytes (independent verifier), hash and binary payload recomputed independently.')
