"""C32, deductive part: `ViewSection.check_code` (structural induction) and the name clause of `ViewSection.create_type`
on the real ASTs.

check_code(code, lambda_) — induction step for a node with ANY primitive and ANY number of arguments:
    the node's primitive is ANY name (an unconstrained integer; names are interned on demand, so a comparison of the code
    with any string whatsoever is seen) or None (sequence / literal node); its arguments are a ghost sequence of symbolic length whose elements obey the
    induction hypothesis (recursive calls use the contract:  check_code(c, l) raises  <=>  F(c, l)  with F uninterpreted);
    loop invariant: no argument before the current index is forbidden.
    obligation:  raises  <=>  prim == SELF  or  (prim restricted and not lambda_)  or  exists i. F(arg_i, lambda_ or opener(prim))
    which is the defining recursion of views.forbidden: SELF anywhere; TRANSFER_TOKENS / CREATE_CONTRACT / SET_DELEGATE
    outside LAMBDA, LAMBDA_REC bodies and pushed (PUSH) lambda literals.
create_type name clause — the name is a z3 String, `re.fullmatch` is translated to a z3 regular expression:
    raises  <=>  len(name) > 31  or  some character is outside [A-Za-z0-9_.%@]  or  check_code(args[3], lambda_=False) raises
    (check_code by a recorder with a symbolic verdict: it must be consulted exactly once, on the code argument, outside a lambda).
"""
import ast, re
import sre_parse
import z3
from vlib.pyvc import Engine, RaiseEx, Sym, Obj, Z, ZB, Unsupported
from vlib.pyvc.report import report, run_harness, functions_interpreted

# Primitive names are INTERNED on demand: the node's primitive is an unconstrained integer, every string the code (or the
# specification) compares it with gets its own integer the first time it is seen, and a primitive equal to none of them is
# "some other primitive".  (Before the audit of over-specific inputs the primitive ranged over a fixed list of 9 names read
# off the code under test, so a comparison with any OTHER name - SELF_ADDRESS, EMIT, IF_CONS ... - was invisible.)
ALPH = ['SELF', 'CREATE_CONTRACT', 'SET_DELEGATE', 'TRANSFER_TOKENS', 'LAMBDA', 'LAMBDA_REC', 'PUSH']


def intern(name):
    if name not in ALPH:
        ALPH.append(name)
    return ALPH.index(name)


RESTRICTED = ('CREATE_CONTRACT', 'SET_DELEGATE', 'TRANSFER_TOKENS')
OPENERS = ('LAMBDA', 'LAMBDA_REC', 'PUSH')
NodeS = z3.DeclareSort('Node')
F = z3.Function('forbidden', NodeS, z3.BoolSort(), z3.BoolSort())
ARG = z3.Function('arg', NodeS, z3.IntSort(), NodeS)


class GPrim:
    __pyvc_symbolic__ = True
    __pyvc_strlike__ = True

    def __init__(self, idx):
        self.idx = idx

    def __pyvc_cmp__(self, eng, op, other, refl):
        if isinstance(other, str) and isinstance(op, (ast.Eq, ast.NotEq)):
            f = self.idx == intern(other)
            return Sym(f if isinstance(op, ast.Eq) else z3.Not(f))
        if other is None and isinstance(op, (ast.Eq, ast.NotEq)):
            return isinstance(op, ast.NotEq)          # a named primitive is not None
        return NotImplemented


class GArgs:
    """ghost tuple of argument nodes of symbolic length"""
    __pyvc_symbolic__ = True

    def __init__(self, node, n):
        self.node, self.n = node, n

    def __pyvc_seq__(self):
        return self.n

    def elem(self, eng, i):
        return GCode(ARG(self.node, i), None, None)


class GCode:
    __pyvc_symbolic__ = True

    def __init__(self, node, prim_idx, nargs):
        self.node, self.prim_idx, self.nargs = node, prim_idx, nargs

    def __pyvc_attr__(self, eng, name):
        if name == 'prim':
            if self.prim_idx is None:
                raise Unsupported('prim of a child node (children are abstract: only the contract may be used)')
            if isinstance(self.prim_idx, str):
                return None                   # sequences and literals: Micheline.prim is None
            return GPrim(self.prim_idx)
        if name == 'args':
            return GArgs(self.node, self.nargs)
        raise RaiseEx(AttributeError(name))


def h_check_code():
    from pytezos.michelson.sections.view import ViewSection
    from pytezos.michelson.micheline import MichelsonRuntimeError

    def h(e: Engine):
        node = z3.Const('node', NodeS)
        p = e.int('prim').e                    # ANY primitive name (interned, see above)
        prim_is_none = e.fork(e.bool('node_is_a_sequence_or_literal(prim is None)').e)
        n = e.int('n_args', lo=0).e
        lam = e.bool('lambda_')

        def contract(eng, args, kwargs):
            c, l = args[0], args[1] if len(args) > 1 else kwargs['lambda_']
            if not isinstance(c, GCode):
                raise Unsupported('check_code on a non-ghost node')
            if eng.fork(F(c.node, ZB(l))):
                raise RaiseEx(MichelsonRuntimeError('view', 'not allowed in views'))
            return None
        e.contract_for(ViewSection.__dict__['check_code'].__func__, contract, inline_depth=1)
        is_ = (lambda name: z3.BoolVal(False)) if prim_is_none else (lambda name: p == intern(name))   # noqa
        opener = z3.Or(*[is_(x) for x in OPENERS])
        inner = z3.Or(lam.e, opener)

        def inv(env):
            i = Z(env['__idx__'])
            j = z3.Int('j!v')
            return z3.And(i >= 0, i <= n, z3.ForAll([j], z3.Implies(z3.And(j >= 0, j < i), z3.Not(F(ARG(node, j), inner)))))
        e.invariants[('ViewSection.check_code', 0)] = dict(inv=inv, variant=lambda env: n - Z(env['__idx__']))
        own = z3.Or(is_('SELF'), z3.And(z3.Or(*[is_(x) for x in RESTRICTED]), z3.Not(lam.e)))
        j = z3.Int('j!s')
        some_child = z3.Exists([j], z3.And(j >= 0, j < n, F(ARG(node, j), inner)))
        try:
            e.call(ViewSection.check_code, [GCode(node, 'none' if prim_is_none else p, n), lam])
        except RaiseEx as ex:
            e.check('check_code::raises.only_if(forbidden(code, lambda_))', z3.Or(own, some_child))
            e.check('check_code::raises.MichelsonRuntimeError', z3.BoolVal(isinstance(ex.exc, MichelsonRuntimeError)))
            return
        e.check('check_code::returns.only_if(not forbidden(code, lambda_))', z3.Not(z3.Or(own, some_child)))
    return h


# ------------------------------------------------------------------------------- name clause
def regex_to_z3(pattern: str):
    """translate a (simple) Python regular expression to a z3 regex; anything else is outside the subset"""
    def cls(items):
        parts = []
        for op, av in items:
            op = str(op)
            if op == 'LITERAL':
                parts.append(z3.Re(chr(av)))
            elif op == 'RANGE':
                parts.append(z3.Range(chr(av[0]), chr(av[1])))
            else:
                raise Unsupported(f'regex class item {op}')
        return z3.Union(*parts) if len(parts) > 1 else parts[0]

    def seq(tokens):
        out = []
        for op, av in tokens:
            op = str(op)
            if op == 'LITERAL':
                out.append(z3.Re(chr(av)))
            elif op == 'IN':
                out.append(cls(av))
            elif op == 'MAX_REPEAT':
                lo, hi, sub = av
                r = seq(sub)
                if lo == 0 and str(hi) == 'MAXREPEAT':
                    out.append(z3.Star(r))
                elif lo == 1 and str(hi) == 'MAXREPEAT':
                    out.append(z3.Plus(r))
                elif isinstance(hi, int) and hi < 100:
                    out.append(z3.Loop(r, lo, hi))
                else:
                    raise Unsupported('regex repeat')
            else:
                raise Unsupported(f'regex token {op}')
        if not out:
            return z3.Re('')
        return z3.Concat(*out) if len(out) > 1 else out[0]
    return seq(list(sre_parse.parse(pattern)))


class GName:
    __pyvc_symbolic__ = True
    __pyvc_strlike__ = True

    def __init__(self, s):
        self.s = s

    def __pyvc_len__(self, eng):
        return Sym(z3.Length(self.s))


class GLiteralCls:
    """ghost class of the view-name literal"""
    __pyvc_symbolic__ = True

    def __init__(self, s):
        self.s = s

    def __pyvc_issubclass__(self, cs):
        from pytezos.michelson.micheline import MichelineLiteral
        return MichelineLiteral in cs

    def __pyvc_attr__(self, eng, name):
        if name == 'get_string':
            return _K(GName(self.s))
        raise Unsupported('literal.' + name)


class _K:
    __pyvc_symbolic__ = True

    def __init__(self, v):
        self.v = v

    def __pyvc_call__(self, eng, args, kwargs):
        return self.v


def h_name():
    from pytezos.michelson.sections.view import ViewSection
    from pytezos.michelson.micheline import MichelsonRuntimeError
    from pytezos.michelson.types.core import UnitType
    import pytezos.michelson.sections.view as V

    def h(e: Engine):
        s = z3.String('view_name')
        e.inputs['view_name'] = ('str', s)

        def fullmatch(eng, args, kwargs):
            pat, name = args[0], args[1]
            if not isinstance(pat, str) or not isinstance(name, GName):
                raise Unsupported('re.fullmatch arguments')
            return Sym(z3.InRe(name.s, regex_to_z3(pat)))      # truthiness of the match object
        e.stub(re.fullmatch, fullmatch)
        # check_code by a recorder with a symbolic verdict (before: a stub that always accepted, so the name clause was only ever
        # seen next to acceptable code, and nothing demanded that the code argument is handed to check_code at all)
        code_obj = 'code'
        forb = z3.Bool('code_is_forbidden')
        calls = []

        def cc(eng, a, k):
            calls.append((list(a), dict(k)))
            if eng.fork(forb):
                raise RaiseEx(MichelsonRuntimeError('view', 'X is not allowed in views'))
            return None
        e.stub(ViewSection.__dict__['check_code'].__func__, cc)
        ok_chars = z3.Star(z3.Union(z3.Range('a', 'z'), z3.Range('A', 'Z'), z3.Range('0', '9'), z3.Re('_'), z3.Re('.'), z3.Re('%'), z3.Re('@')))
        spec_reject = z3.Or(z3.Length(s) > 31, z3.Not(z3.InRe(s, ok_chars)))

        def called_right():
            if len(calls) != 1:
                return False
            a, k = calls[0]
            lam = a[1] if len(a) > 1 else k.get('lambda_', '<missing>')
            return len(a) >= 1 and a[0] is code_obj and lam is False
        try:
            e.call(e.unwrap(ViewSection.__dict__['create_type'].__func__), [ViewSection, [GLiteralCls(s), UnitType, UnitType, code_obj]])
        except RaiseEx as ex:
            e.check('create_type::raises.only_if(name longer than 31 or forbidden character)', z3.Or(spec_reject, forb))
            e.check('create_type::raises.only_if(name invalid, or check_code(the code argument, lambda_=False) rejected it)',
                    z3.Or(spec_reject, z3.And(forb, z3.BoolVal(called_right()))))
            e.check('create_type::raises.MichelsonRuntimeError', z3.BoolVal(isinstance(ex.exc, MichelsonRuntimeError)))
            return
        e.check('create_type::returns.only_if(name is at most 31 characters of [A-Za-z0-9_.%@])', z3.Not(spec_reject))
        e.check('create_type::returns.only_if(check_code(the code argument, lambda_=False) was consulted once and accepted)',
                z3.And(z3.BoolVal(called_right()), z3.Not(forb)))
    return h


def native(case):
    """replay: a concrete view (name, code tree) on the real ViewSection.match"""
    from pytezos.michelson.sections.view import ViewSection
    name = case.get('view_name', 'v')
    code = case.get('code', [{'prim': 'UNIT'}])
    expr = {'prim': 'view', 'args': [{'string': name}, {'prim': 'unit'}, {'prim': 'unit'}, code]}
    want_reject = case['want_reject']
    try:
        ViewSection.match(expr)
        rejected = False
    except Exception as ex:   # noqa
        rejected = True
    return rejected != want_reject, f'view name={name!r} code={code}: rejected={rejected}, Tezos rejects={want_reject}'


def search_code():
    """replay candidates (well-formed instructions only: a CREATE_CONTRACT without its script is rejected by the parser, not
    by check_code, and would be a bogus witness)"""
    from props.C32_R import instr, NEAR_LEAVES, CONTAINERS, spec_code_forbidden
    R = lambda p: {'prim': p}                               # noqa
    I = instr                                               # noqa
    cands = []
    for p in ('SELF',) + RESTRICTED:
        cands += [([I(p)], True),
                  ([{'prim': 'LAMBDA', 'args': [R('unit'), R('unit'), [I(p)]]}], p == 'SELF'),
                  ([{'prim': 'LAMBDA_REC', 'args': [R('unit'), R('unit'), [I(p)]]}], p == 'SELF'),
                  ([{'prim': 'PUSH', 'args': [{'prim': 'lambda', 'args': [R('unit'), R('unit')]}, [I(p)]]}], p == 'SELF'),
                  ([{'prim': 'DIP', 'args': [[I(p)]]}], True),
                  ([{'prim': 'IF', 'args': [[R('UNIT')], [{'prim': 'DIP', 'args': [[R('UNIT'), I(p)]]}]]}], True),
                  ([{'prim': 'LAMBDA', 'args': [R('unit'), R('unit'), [{'prim': 'DIP', 'args': [[I(p)]]}]]}, R('UNIT')], p == 'SELF')]
    # allowed instructions close to the forbidden ones, and a restricted instruction under every non-lambda container
    for leaf in NEAR_LEAVES + ('DROP',):
        for code in ([I(leaf)], [{'prim': 'LAMBDA', 'args': [R('unit'), R('unit'), [I(leaf)]]}]):
            cands.append((code, bool(spec_code_forbidden(code))))
    for name, (is_lambda, mk) in CONTAINERS.items():
        if name == 'PUSH-Lambda_rec':      # the unregistered Lambda_rec data primitive is a recorded known finding, not a witness here
            continue
        for leaf in ('TRANSFER_TOKENS', 'SELF'):
            code = [mk([I(leaf)])] if name != 'block' else [mk([I(leaf)])]
            cands.append((code, bool(spec_code_forbidden(code))))
    for code, want in cands:
        c = dict(code=code, want_reject=want)
        try:
            if native(c)[0]:
                return c
        except Exception:   # noqa
            pass
    return None


def replay(case):
    return native(case)


def run_P(ck):
    from pytezos.michelson.sections.view import ViewSection
    ck.function(ViewSection.check_code)
    ck.function(ViewSection.create_type)
    ck.assume('code trees are finite: structural induction with the recursive call replaced by the contract (F uninterpreted); '
              'the node primitive is ANY name (an unconstrained integer with names interned on demand) or None (sequence / literal)')
    ck.assume('re.fullmatch translated to a z3 regular expression (literal/class/repeat subset of sre); type(...) and check_code stubbed in the name clause')
    ck.trust('PyVC encoding of the Python subset (DESIGN.md 3.2)')
    ck.trust('z3 5.1 (sequence/regex theory, quantifier instantiation)')
    eng = Engine()
    run_harness(ck, eng, h_check_code(), 'check_code')

    def nat(cex):
        found = search_code()
        cex.clear()
        if found is None:
            return False, 'no failing code tree among the replay candidates'
        cex.update(found)
        return native(found)
    report(ck, eng, [('', 'props.C32_P:replay', nat, None)])
    functions_interpreted(ck, eng)
    eng = Engine()
    run_harness(ck, eng, h_name(), 'create_type.name')

    def nat2(cex):
        # z3 string models are not concretised by the engine: search a short witness natively
        ok = 'abcXYZ019_.%@'
        for name in ['', 'a', 'a' * 31, 'a' * 32, 'a' * 33, 'bad name', 'x$', 'é', 'a-b', 'a/b', ' ', 'a' * 30 + '!', ok, ok * 2, ok * 3]:
            want = len(name) > 31 or any(c not in 'abcdefghijklmnopqrstuvwxyzABCDEFGHIJKLMNOPQRSTUVWXYZ0123456789_.%@' for c in name)
            c = dict(view_name=name, want_reject=want)
            if native(dict(c))[0]:
                cex.clear()
                cex.update(c)
                return native(dict(c))
        return False, 'no failing name among the replay candidates'
    report(ck, eng, [('', 'props.C32_P:replay', nat2, None)])
    functions_interpreted(ck, eng)
