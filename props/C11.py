"""C11 — Typed values round-trip through readable / optimized / legacy_optimized Micheline.

Contracts on the real classes of pytezos.michelson.types (every value class), for a type T, a value v
(given as an abstract value of bounded/typegen.py) and mode m in {readable, optimized, legacy_optimized}:

  parse      T.from_micheline_value(neutral(v))      raises nothing; the result denotes v
  render[m]  v.to_micheline_value(mode=m)            raises nothing; the result is a valid Tezos notation
                                                     of v in mode m (independent reader specs/C11_micheline_reader:
                                                     base58 types are bytes and timestamps ints in the optimized
                                                     modes; a readable timestamp is a 4-digit-year RFC3339 string
                                                     of the same instant or an integer)
  rt[m]      T.from_micheline_value(v.to_micheline_value(m))   raises nothing and denotes v   (the property)

"denotes" = structural observation of the pytezos value (bounded/C11_observe.denote) compared with the
abstract value, base58 notations compared by content.  R mode, bounded: see typegen.type_families.
"""
from __future__ import annotations
from vlib.runner import Check
from bounded import typegen as G
from bounded.typegen import Ty
from bounded import C11_core as K

def _work(item):
    """one type -> (n_evaluations, classes, samples, failures[])"""
    fam, ty, k = item
    full = fam == 'leaf'
    try:
        vals = G.values(ty, k, full_leaves=full)
    except ValueError:
        return 0, [], None, []
    n, fails = 0, []
    for av in vals:
        fs = K.c11_failures(ty, av)
        n += 1 + 2 * len(K.MODES)
        for f in fs:
            sty, sv = K.shrink(ty, av, lambda t, x, c=f.clause: K.c11_failures(t, x, only=c), memo_key=('C11', f.clause))
            sf = (K.c11_failures(sty, sv, only=f.clause) or [f])[0]
            fails.append(dict(clause=f.clause, info=sf.info, wclass=K.c11_wclass(sty, sv, sf),
                              case=dict(type=sty.expr(), value=G.neutral(sty, sv), clause=f.clause,
                                        michelson_type=sty.michelson(), found_in=ty.michelson()[:300], family=fam)))
    sample = dict(type=ty.michelson()[:200], value=K.short(G.neutral(ty, vals[-1]), 200), modes=list(K.MODES)) if vals else None
    return n, [f'{fam}|{K.skeleton(ty, 2)}'], sample, fails


def replay(case):
    ty = Ty.from_expr(case['type'])
    av = G.from_neutral(ty, case['value'])
    fs = K.c11_failures(ty, av, only=case['clause'])
    if fs:
        return True, f'{case["michelson_type"]} value {K.short(case["value"])}: {fs[0]}'
    return False, f'{case["michelson_type"]} value {K.short(case["value"])}: contract {case["clause"]} holds'


def run(ck: Check) -> int:
    from pytezos.michelson.types import base, core, domain, pair, sum as sum_, option, list as list_, set as set_, map as map_, big_map, ticket, bls
    from pytezos.michelson import format as fmt, forge
    for fn in (core.IntType.from_micheline_value, core.IntType.to_micheline_value, core.NatType.from_micheline_value,
               core.StringType.from_micheline_value, core.BytesType.from_micheline_value, core.BoolType.from_micheline_value,
               core.UnitType.from_micheline_value, domain.TimestampType.from_micheline_value, domain.TimestampType.to_micheline_value,
               fmt.format_timestamp, forge.optimize_timestamp, domain.AddressType.from_micheline_value, domain.AddressType.to_micheline_value,
               domain.KeyType.from_micheline_value, domain.KeyType.to_micheline_value, domain.KeyHashType.from_micheline_value,
               domain.KeyHashType.to_micheline_value, domain.SignatureType.from_micheline_value, domain.SignatureType.to_micheline_value,
               domain.ChainIdType.from_micheline_value, domain.ChainIdType.to_micheline_value, domain.LambdaType.from_micheline_value,
               domain.LambdaType.to_micheline_value, pair.PairType.from_micheline_value, pair.PairType.to_micheline_value,
               pair.PairType.iter_comb, pair.PairType.create_type, sum_.OrType.from_micheline_value, sum_.OrType.to_micheline_value,
               option.OptionType.from_micheline_value, option.OptionType.to_micheline_value, list_.ListType.from_micheline_value,
               list_.ListType.to_micheline_value, set_.SetType.from_micheline_value, set_.SetType.to_micheline_value,
               set_.SetType.check_constraints, map_.MapType.parse_micheline_value, map_.MapType.to_micheline_value,
               map_.MapType.check_constraints, big_map.BigMapType.from_micheline_value, big_map.BigMapType.to_micheline_value,
               ticket.TicketType.from_micheline_value, ticket.TicketType.to_micheline_value, bls.BLS12_381_FrType.from_micheline_value,
               bls.BLS12_381_FrType.to_micheline_value):
        ck.function(fn)

    from props.C11_P import run_P
    run_P(ck)

    from bounded.C11_validate import validate
    nval, problems = validate()
    if problems:
        raise RuntimeError('oracle validation against recorded Octez artefacts failed: ' + '; '.join(problems[:5]))
    ck.note(f'oracles validated against {nval} recorded Octez artefacts in /repo/tests (RPC entrypoint lists, storages, '
            f'operation parameters of 22 mainnet contracts, base58 literals)')
    ck.assume('Tezos accepts for every type the neutral notation used to build inputs (nested binary Pair, base58 strings, integer timestamps)')
    ck.assume('value classes expose their content through int()/str()/bytes()/bool()/iteration/is_left/resolve/is_none/get_some/to_comb/.ptr (observation only)')
    ck.assume('sapling_state / sapling_transaction / operation / never / tx_rollup_l2_address have no storable literal values here and are not enumerated')
    ck.trust('bounded/typegen.py value model and Michelson order; specs/C11_micheline_reader.py (validated against recorded mainnet storages and parameters)')

    b = G.BOUNDS(ck.tier)
    for k, v in b.items():
        ck.bound(k, v)
    ck.rule('R: every type of typegen.type_families(tier, seed) x a covering value list (every constructor alternative, empty/non-empty '
            'collections, all boundary leaves for bare leaf types) x 3 modes; class = family|type skeleton to depth 2')
    fams = G.type_families(ck.tier, ck.seed)
    items = [(fam, ty, b['values_per_type']) for fam, tys in fams.items() for ty in tys]
    ck.bound('types', len(items))
    results = K.pmap(_work, items)
    seen_w = {}
    for (fam, ty, _), (n, classes, sample, fails) in zip(items, results):
        if n:
            ck.evaluate(classes[0], sample=sample if (len(ck.samples) < 10 and ty.depth() >= 1) else None, n=n)
        for f in fails:
            key = (f['clause'], f['wclass'])
            seen_w[key] = seen_w.get(key, 0) + 1
            if seen_w[key] > 2:          # same obligation and same witness class: already reported
                continue
            ck.violation(oid=f'MichelsonType.{f["clause"]}', message=f'{f["case"]["michelson_type"]}: {f["info"]}', case=f['case'],
                         replay='props.C11:replay', wclass=f['wclass'])
    ck.extra['failing_classes'] = {f'{c} | {w}': n for (c, w), n in sorted(seen_w.items())}
    ck.exhaustive = False
    return ck.finish('other',
                     'P/S (props/C11_P.py): structural induction over the type on the real ASTs — base cases with all values symbolic (int, nat, mutez, '
                     'timestamp over the whole integer range in three modes, bool, unit, string, bytes, bls12_381_fr, big_map id), induction step for '
                     'pair combs n <= 6, option, or, list/set/map/big_map literals k <= 3, ticket over opaque components under the round-trip '
                     'hypothesis; R (bounded): parse / render[mode] / round-trip[mode] contracts evaluated on the real value classes for every '
                     'enumerated (type, value, mode); equality judged by structural observation against an independent value model; '
                     'renderings additionally read by an independent Micheline reader')
