"""C22, deductive part: the backup / restore wrapper `Interpreter.execute` (pytezos/michelson/repl.py) on its real AST.

The stack, the context and the code are OPAQUE objects; `deepcopy`, the parser and the body's `execute` are replaced by
contracts:    deepcopy(x) returns a fresh snapshot of x as of the call (one call = one consistent snapshot of everything
reachable from x: objects copied in the same call keep their mutual references, objects copied in different calls do not);
the body may mutate the live stack/context arbitrarily and then either return or raise.
Obligations (debug off):
   snapshot.single_pass      the context and the stack are snapshotted in ONE deepcopy call taken BEFORE the body runs
                             (big_maps on the stack backup must point to the context backup)
   on_failure                a MichelsonRuntimeError / MichelsonParserError from parsing or from any instruction leaves
                             self.stack / self.context == those snapshots, result.error is the exception, nothing is raised
   on_success                the LIVE (mutated) stack and context stay in place, result.stack is the live stack, no error
   other exceptions / debug  propagate (nothing is swallowed silently)
What a snapshot contains (BigMapType.__deepcopy__, context counters) and the relational claim over sessions are the bounded
part's business (props/C22.py).
"""
import copy
import z3
from vlib.pyvc import Engine, RaiseEx, Obj, Unsupported
from vlib.pyvc.report import report, run_harness, functions_interpreted


class Live:
    """opaque mutable object (stack or context)"""
    __pyvc_symbolic__ = True

    def __init__(self, name, debug=False):
        self.name, self.version, self.debug = name, 0, debug

    def __repr__(self):
        return f'<live {self.name} v{self.version}>'

    def __pyvc_attr__(self, eng, name):
        if name == 'debug':
            return self.debug
        raise Unsupported(f'{self.name}.{name}')


class Snap:
    __pyvc_symbolic__ = True

    def __init__(self, of, version, call):
        self.of, self.version, self.call = of, version, call

    def __repr__(self):
        return f'<snapshot of {self.of.name} v{self.version} (deepcopy call {self.call})>'


class Body:
    __pyvc_symbolic__ = True

    def __init__(self, log, outcome, stack, ctx):
        self.log, self.outcome, self.stack, self.ctx = log, outcome, stack, ctx

    def __pyvc_attr__(self, eng, name):
        if name == 'execute':
            return _F(self._run)
        raise Unsupported(f'body.{name}')

    def _run(self, eng, a, k):
        # MichelsonInstruction.execute(stack, stdout, context): arguments passed positionally or by keyword are the same call
        names = ('stack', 'stdout', 'context')
        if len(a) > 3 or set(k) - set(names[len(a):]):
            raise Unsupported('call shape of the body\'s execute')
        vals = dict(zip(names, a), **k)
        if set(vals) != set(names):
            raise Unsupported('call shape of the body\'s execute')
        stack, stdout, ctx = vals['stack'], vals['stdout'], vals['context']
        self.log.append(('execute', stack is self.stack, ctx is self.ctx))
        self.stack.version += 1          # arbitrary in-place effects before the outcome
        self.ctx.version += 1
        if self.outcome == 'ok':
            return 'INSTR'
        raise RaiseEx(_exc(self.outcome))


class _F:
    __pyvc_symbolic__ = True

    def __init__(self, f):
        self.f = f

    def __pyvc_call__(self, eng, args, kwargs):
        return self.f(eng, args, kwargs)


def _exc(kind):
    from pytezos.michelson.micheline import MichelsonRuntimeError
    from pytezos.michelson.parse import MichelsonParserError
    if kind == 'runtime':
        return MichelsonRuntimeError('FAILWITH', 'boom')
    if kind == 'parser':
        from ply.lex import LexToken
        t = LexToken()
        t.type, t.value, t.lineno, t.lexpos = 'X', 'x', 1, 0
        return MichelsonParserError(t)
    return KeyError('unexpected')


def _get(r, k):
    return r.f.get(k) if isinstance(r, Obj) else getattr(r, k, None)


def h_execute(where, outcome, debug):
    """where: failure raised by 'parse' or by the 'body'; outcome: ok | runtime | parser | other"""
    from pytezos.michelson import repl as R
    tag = f'Interpreter.execute[{outcome}@{where}{",debug" if debug else ""}]'

    def h(e: Engine):
        log, ncopy = [], [0]
        stack, ctx = Live('stack'), Live('context', debug)
        it = Obj(R.Interpreter)
        it.f.update(stack=stack, context=ctx, parser=None)
        body = Body(log, outcome if where == 'body' else 'ok', stack, ctx)

        memos = []

        def deepcopy(eng, a, k):
            # copy.deepcopy(x, memo=None): ONE PASS is one call, or several calls handed the SAME memo dictionary (the documented
            # contract of the memo argument: an object already copied in the pass is not copied again, so references between the
            # copies are kept).  The container that carries the live objects into the call (tuple / list / dict values) is not part
            # of the contract: the copy has the same shape.
            x = a[0] if a else k.get('x')
            memo = a[1] if len(a) > 1 else k.get('memo')
            ncopy[0] += 1
            if memo is None:
                pass_id = ('call', ncopy[0])
            elif isinstance(memo, dict):
                if not any(m is memo for m in memos):
                    memos.append(memo)
                pass_id = ('memo', next(i for i, m in enumerate(memos) if m is memo))
            else:
                raise Unsupported('deepcopy with a memo that is not a dict')
            members = list(x) if isinstance(x, (tuple, list)) else list(x.values()) if isinstance(x, dict) else [x]
            if not all(isinstance(o, Live) for o in members):
                raise Unsupported('deepcopy of something else')
            log.append(('deepcopy', tuple(o.name for o in members), pass_id))

            def snap(o):
                return Snap(o, o.version, pass_id)
            if isinstance(x, (tuple, list)):
                return type(x)(snap(o) for o in x)
            if isinstance(x, dict):
                return {key: snap(o) for key, o in x.items()}
            return snap(x)

        def parse(eng, a, k):
            log.append(('parse',))
            if where == 'parse' and outcome != 'ok':
                raise RaiseEx(_exc(outcome))
            return {'prim': 'code'}

        class Sec:
            __pyvc_symbolic__ = True

            def __pyvc_attr__(self, eng, name):
                if name == 'args':
                    return [body]
                raise Unsupported(name)
        e.stub(copy.deepcopy, deepcopy)
        e.stub(R.michelson_to_micheline, parse)
        e.stub(R.CodeSection.match, lambda eng, a, k: Sec())
        e.stub(R.MichelineSequence, lambda eng, a, k: ('SEQ', a[0]))
        raised = None
        try:
            res = e.call(R.Interpreter.execute, [it, 'CODE'])
        except RaiseEx as ex:
            raised, res = ex.exc, None
        snaps = [x for x in log if x[0] == 'deepcopy']
        ex_idx = [i for i, x in enumerate(log) if x[0] == 'execute']
        before_body = bool(snaps) and (not ex_idx or all(log.index(sn) < ex_idx[0] for sn in snaps))   # parsing is pure: its position does not matter
        copied = sorted(nm for sn in snaps for nm in sn[1])
        one_pass = len({sn[2] for sn in snaps}) == 1
        e.check(f'{tag}::snapshot.single_pass(one deepcopy of context and stack together, before the body runs)',
                z3.BoolVal(bool(snaps) and one_pass and before_body and copied == ['context', 'stack']))
        s_now, c_now = it.f.get('stack'), it.f.get('context')
        if outcome == 'ok':
            e.check(f'{tag}::on_success.nothing_raised', z3.BoolVal(raised is None))
            e.check(f'{tag}::on_success.live_state_kept(effects of the cell stay)', z3.BoolVal(s_now is stack and c_now is ctx))
            ok = res is not None and _get(res, 'stack') is stack and _get(res, 'error') is None
            e.check(f'{tag}::on_success.result(stack is the live stack, no error)', z3.BoolVal(bool(ok)))
            e.check(f'{tag}::on_success.body_ran_once_on_the_live_state', z3.BoolVal([x for x in log if x[0] == 'execute'] == [('execute', True, True)]))
        elif outcome in ('runtime', 'parser') and not debug:
            e.check(f'{tag}::on_failure.nothing_raised', z3.BoolVal(raised is None))
            good = isinstance(s_now, Snap) and isinstance(c_now, Snap) and s_now.of is stack and c_now.of is ctx and s_now.version == 0 \
                and c_now.version == 0 and s_now.call == c_now.call
            e.check(f'{tag}::on_failure.state==snapshot_taken_at_entry(stack and context of the same pass)', z3.BoolVal(bool(good)))
            ok = res is not None and type(_get(res, 'error')).__name__ in ('MichelsonRuntimeError', 'MichelsonParserError')
            e.check(f'{tag}::on_failure.result.error_is_the_failure', z3.BoolVal(bool(ok)))
        else:
            e.check(f'{tag}::propagates(debug mode or an exception that is not a Michelson failure)', z3.BoolVal(raised is not None))
    return h


def run_P(ck):
    from pytezos.michelson import repl as R
    ck.function(R.Interpreter.execute)
    ck.assume('copy.deepcopy(x) is a consistent snapshot of everything reachable from x at the time of the call (what BigMapType.__deepcopy__ and '
              'the context copy contain is exercised by the bounded part); the parser and instruction bodies are arbitrary: they may mutate the live '
              'stack/context and then return or raise')
    ck.trust('PyVC encoding of the Python subset (DESIGN.md 3.2)')
    for where, outcome, debug in (('body', 'ok', False), ('body', 'runtime', False), ('parse', 'parser', False), ('parse', 'runtime', False),
                                  ('body', 'other', False), ('body', 'runtime', True), ('parse', 'parser', True), ('body', 'ok', True)):
        eng = Engine()
        run_harness(ck, eng, h_execute(where, outcome, debug), f'Interpreter.execute[{outcome}@{where},{debug}]')
        report(ck, eng, [], kind='P')
        functions_interpreted(ck, eng)
