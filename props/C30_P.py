"""C30, deductive part: the glue `Protocol.diff` / `Protocol.patch` (pytezos/protocol/protocol.py) on the real ASTs, MODULAR over the
contracts of the text-level functions (decided by the bounded part only: difflib and the regex hunk parser are external):
     make_patch(a, b, f, n)  is '' (falsy) iff a == b, else a patch p(a, b)
     apply_patch(a, p(a, b)) == b           (and nothing is known about apply_patch on any other (text, patch) pair)
     proto_to_files(files_to_proto(files)) == files
File texts are OPAQUE (= every text); the file lists of the two protocols range over every overlap pattern of up to 3 file names:
same text, changed text, file only in the new protocol, file only in the old one, empty old text for a new file.   [S in the
number of files]   Obligation:   files(P1.patch(P1.diff(P2, n))) == files(P2)   — same names, same texts, same order — and
make_patch is called with (old text or '', new text) per file of P2, apply_patch only with a patch made from the very text it is applied to.
"""
import itertools
import z3
from vlib.pyvc import Engine, RaiseEx, Obj, Unsupported
from vlib.pyvc.report import report, run_harness, functions_interpreted


class Text:
    """opaque file text"""
    __pyvc_symbolic__ = True
    __pyvc_strlike__ = True

    def __init__(self, name):
        self.name = name

    def __repr__(self):
        return f'<text {self.name}>'

    def __pyvc_isinstance__(self, cs):
        return str in cs

    def __pyvc_truth__(self, eng):
        raise Unsupported('emptiness of an opaque text')


class Patch:
    """make_patch(a, b) for a != b: non-empty"""
    __pyvc_symbolic__ = True
    __pyvc_strlike__ = True

    def __init__(self, a, b, ctx):
        self.a, self.b, self.ctx = a, b, ctx

    def __repr__(self):
        return f'<patch {self.a!r} -> {self.b!r}>'

    def __pyvc_isinstance__(self, cs):
        return str in cs

    def __pyvc_truth__(self, eng):
        return True


class Proto:
    """files_to_proto(files): only proto_to_files may open it"""
    __pyvc_symbolic__ = True

    def __init__(self, files):
        self.files = list(files)


def _same_text(x, y):
    return x is y or (isinstance(x, str) and isinstance(y, str) and x == y)


def h_roundtrip(yours, theirs, ctx):
    """yours/theirs: lists of (filename, text-id); equal ids = equal texts"""
    from pytezos.protocol import protocol as PR
    tag = f'yours={[f"{n}:{t}" for n, t in yours]},theirs={[f"{n}:{t}" for n, t in theirs]},n={ctx}'

    def h(e: Engine):
        texts = {}

        def T(t):
            if t == '':
                return ''
            return texts.setdefault(t, Text(t))
        y = [(n, T(t)) for n, t in yours]
        th = [(n, T(t)) for n, t in theirs]
        log = []

        def make_patch(eng, a, k):
            aa, bb = k.get('a', a[0] if a else None), k.get('b', a[1] if len(a) > 1 else None)
            log.append(('make', aa, bb, k.get('filename', a[2] if len(a) > 2 else None), k.get('context_size', a[3] if len(a) > 3 else 0)))
            return '' if _same_text(aa, bb) else Patch(aa, bb, k.get('context_size'))

        def apply_patch(eng, a, k):
            # apply_patch(source, patch, revert=False): positional or keyword arguments are the same call
            src = k['source'] if 'source' in k else a[0]
            p = k['patch'] if 'patch' in k else a[1]
            log.append(('apply', src, p))
            if isinstance(p, Patch) and _same_text(p.a, src) and not k.get('revert', a[2] if len(a) > 2 else False):
                return p.b
            return Text(f'garbage(apply_patch of {p!r} to {src!r})')
        from pytezos.protocol import diff as DF       # the defining module: the stubs are keyed by the function objects, so they apply
        e.stub(DF.make_patch, make_patch)               # whichever way protocol.py imports them (`from … import f` or `import … as m`)
        e.stub(DF.apply_patch, apply_patch)
        e.stub(PR.files_to_proto, lambda eng, a, k: Proto(a[0]))
        e.stub(PR.proto_to_files, lambda eng, a, k: list(a[0].files) if isinstance(a[0], Proto) else (_ for _ in ()).throw(Unsupported('proto_to_files of a foreign value')))
        p1, p2 = Obj(PR.Protocol), Obj(PR.Protocol)
        p1.f['_proto'], p2.f['_proto'] = Proto(y), Proto(th)
        try:
            d = e.call(PR.Protocol.diff, [p1, p2], dict(context_size=ctx))
            r = e.call(PR.Protocol.patch, [p1, d])
        except RaiseEx as ex:
            e.check(f'Protocol.patch∘diff[{tag}]::safety.no_exception[{type(ex.exc).__name__}]', z3.BoolVal(False))
            return
        got = r.f['_proto'].files if isinstance(r, Obj) and isinstance(r.f.get('_proto'), Proto) else None
        ok = got is not None and len(got) == len(th) and all(g[0] == w[0] and _same_text(g[1], w[1]) for g, w in zip(got, th))
        e.check(f'Protocol.patch∘diff[{tag}]::ensures.files==second_protocol(names, texts, order)', z3.BoolVal(bool(ok)))
        ydict = dict(y)
        makes = [x for x in log if x[0] == 'make']
        okm = len(makes) == len(th) and all(m[3] == n and _same_text(m[1], ydict.get(n, '')) and _same_text(m[2], t) and m[4] == ctx for m, (n, t) in zip(makes, th))
        e.check(f'Protocol.diff[{tag}]::ensures.make_patch(old text or "", new text, name, context_size)_per_file_of_the_second', z3.BoolVal(bool(okm)))
        oka = all(isinstance(x[2], Patch) and _same_text(x[2].a, x[1]) for x in log if x[0] == 'apply')
        e.check(f'Protocol.patch[{tag}]::requires.apply_patch_only_on_the_text_the_patch_was_made_from', z3.BoolVal(bool(oka)))
    return h


def cases(thorough):
    names = ['a.ml', 'b.ml', 'c.mli'] if thorough else ['a.ml', 'b.mli']
    out = []
    # per file name: (in yours?, in theirs?, same text?)  + order variations
    per = [('absent', 'new'), ('old', 'absent'), ('old', 'same'), ('old', 'changed'), ('absent', 'absent')]
    for combo in itertools.product(per, repeat=len(names)):
        yours, theirs = [], []
        for n, (yo, tho) in zip(names, combo):
            if yo == 'old':
                yours.append((n, f'{n}/v1'))
            if tho == 'new':
                theirs.append((n, f'{n}/v2'))
            elif tho == 'same':
                theirs.append((n, f'{n}/v1'))
            elif tho == 'changed':
                theirs.append((n, f'{n}/v2'))
        out.append((yours, theirs))
        if len(theirs) > 1:
            out.append((yours, list(reversed(theirs))))
    # two files sharing one text; a new file whose text equals another file's old text
    out.append(([('a.ml', 't'), ('b.ml', 't')], [('a.ml', 't'), ('b.ml', 'u')]))
    out.append(([('a.ml', 't')], [('a.ml', 'u'), ('b.ml', 't')]))
    # present files whose text is EMPTY (falsy): emptied, filled, unchanged-empty, next to an ordinary change
    out.append(([('a.ml', '')], [('a.ml', '')]))
    out.append(([('a.ml', '')], [('a.ml', 'v2')]))
    out.append(([('a.ml', 'v1')], [('a.ml', '')]))
    out.append(([('a.ml', 'v1'), ('b.ml', '')], [('a.ml', ''), ('b.ml', 'w')]))
    seen, res = set(), []
    for y, t in out:
        key = (tuple(y), tuple(t))
        if key not in seen:
            seen.add(key)
            res.append((y, t))
    return res


def run_P(ck):
    from pytezos.protocol import protocol as PR
    ck.function(PR.Protocol.diff)
    ck.function(PR.Protocol.patch)
    ck.assume('make_patch / apply_patch / files_to_proto / proto_to_files by the contracts in the module docstring (text level: bounded part); '
              'file texts opaque; file-name overlap patterns over <= 2 (3 thorough) names enumerated (S)')
    ck.trust('PyVC encoding of the Python subset (DESIGN.md 3.2)')
    cs = cases(ck.thorough())
    ck.bound('S.file_overlap_patterns', len(cs))
    for i, (y, t) in enumerate(cs):
        for ctx in ((0, 3) if i % 4 == 0 or ck.thorough() else (3,)):
            eng = Engine()
            run_harness(ck, eng, h_roundtrip(y, t, ctx), f'Protocol.patch∘diff[{i},{ctx}]')
            report(ck, eng, [], kind='S')
            functions_interpreted(ck, eng)
